#!/usr/bin/env python
"""Run every claimed check (tier from argv[1], default quick) against /repo; print exit codes and wall times."""
import os, re, subprocess, sys, time
from concurrent.futures import ThreadPoolExecutor
VERIF = os.path.dirname(os.path.dirname(os.path.abspath(__file__)))
tier = sys.argv[1] if len(sys.argv) > 1 else "quick"
ids = sys.argv[2:] or sorted(p[:-3].upper() for p in os.listdir(os.path.join(VERIF, "sa", "props")) if re.match(r"c\d\d\.py$", p))


def run(c):
    t = time.time()
    p = subprocess.run(["/venv/bin/python", os.path.join(VERIF, "check.py"), c, "--tier", tier], capture_output=True, text=True, cwd=VERIF)
    return c, p.returncode, time.time() - t, [l for l in (p.stdout + p.stderr).splitlines() if re.match(r"VIOLATION|ANALYSIS-ERROR|KNOWN-FINDING|Traceback", l)]


bad = 0
with ThreadPoolExecutor(max_workers=int(os.environ.get("VERIF_JOBS", "6"))) as ex:
    for c, rc, dt, lines in ex.map(run, ids):
        print("%s exit=%d %.1fs %s" % (c, rc, dt, " | ".join(lines[:3])))
        bad += rc != 0
sys.exit(1 if bad else 0)
