#!/bin/sh
# usage: tools/try_patch.sh <seeded|twins>/<id> <Cnn> [tier]   - run one check against one filed patch on a scratch copy
set -e
d=$(mktemp -d /tmp/try-XXXXXX)
rsync -a --exclude .git --exclude __pycache__ /repo/ $d/repo/
(cd $d/repo && git init -q && git apply --whitespace=nowarn /verif/$1/patch.diff)
cd /verif && VERIF_REPO=$d/repo VERIF_EVIDENCE_DIR=$d/ev /venv/bin/python check.py $2 --tier ${3:-quick} 2>&1 | grep -E "^  rule |VIOLATION|ANALYSIS-ERROR|KNOWN" | cut -c1-${W:-400} | head -${N:-16}
rm -rf $d
