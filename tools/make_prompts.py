#!/venv/bin/python
"""Write the task files handed to the independent sub-agents of the self-test.

  tools/make_prompts.py seed  <root> <tag>      e.g. seed  /tmp/wt4 r4     -> ids Cnn-r4-1..4
  tools/make_prompts.py twins <root> <first_k>  e.g. twins /tmp/wtU 5      -> ids Cnn-t5..t8

Creates a detached scratch worktree of /repo per property under <root>/Cnn and the task file
<root>/prompts/Cnn.txt.  A task file contains the property's text from properties.jsonl and nothing
from /verif's machinery.  After the agents have finished: tools/confirm_seed.py / tools/confirm_twins.py
<root>/Cnn ..., then `git -C /repo worktree remove --force <root>/Cnn` for each.
"""
import json
import os
import subprocess
import sys

VERIF = os.path.dirname(os.path.dirname(os.path.abspath(__file__)))

HEAD = '''You are helping to evaluate {what} a Python project (the BDD framework "behave"). {job} Work ONLY inside {wt} (a detached git worktree of the project). Never touch /repo or /verif and never read anything under /verif.

THE PROPERTY (id {pid}) - {title}

Statement: {statement}

Quantified over: {qtext}

Why the existing tests do not settle it: {why}

Code anchors (where the behaviour lives):
{anchors}
'''

SUITE = '''        cd {wt} && /venv/bin/python -m pytest -q -p no:cacheprovider --timeout=900 --continue-on-collection-errors 2>&1 | tail -3
      The unchanged tree gives "13 failed, 1655 passed" (the 13 failures are pre-existing and unrelated); with your change applied the result must be the same 13 failed / 1655 passed (if a run shows one extra failure that you cannot reproduce, re-run it: one test is occasionally flaky under load);'''

SEED = '''
WHAT TO PRODUCE: 4 different changes to the source under {wt}/behave/ , each of which
  (a) is the kind of edit a maintainer could plausibly make (a refactoring slip, an "optimisation", a reordered statement, a dropped/merged branch, a changed default, an off-by-one, a forgotten reset, a narrowed or widened exception clause, an in-place mutation of shared data, a helper "simplified", a cache added, a condition inverted in one of several sibling places, a modernisation such as a comprehension / any() / dict dispatch / contextmanager that is ALMOST equivalent ...) - NOT sabotage with comments announcing it, and not a syntax error;
  (b) BREAKS the property above for at least one input/configuration/history that the property quantifies over;
  (c) still lets the project's pinned test suite pass exactly as before. Run it from the worktree:
''' + SUITE + '''
  (d) is small (typically 1-15 changed lines) and touches only files under behave/.
THIS IS A LATE ROUND: earlier rounds already covered the obvious edits of the anchor functions AND many second-order helpers. Look for places nobody looks at first: helper functions, properties and constants that the anchored code relies on (in other modules too), sibling code paths (dry-run path, outline path, rule path, background path, error path, re-run/retry path, py2/py3 compatibility shims, config-file path), interactions between two features (e.g. --stop with hooks, skip() called from user code, scenario_autoretry, continue_after_failed_step, show_skipped/quiet switches, userdata overrides, capture with hooks), boundary inputs (empty containers, no steps, zero rows, line 0, unicode, the first/last element, equal names), state that survives from one element/run to the next, the SECOND call of something that is usually called once. A good change of this round looks like an improvement in review. Make the 4 changes DIFFERENT IN KIND and spread them over different mechanisms. Prefer changes that manifest only for particular inputs or states.

FOR EACH CHANGE k = 1..4 create a directory {wt}/_seeded/{pid}-{tag}-k/ containing:
  - patch.diff : `git diff` output relative to the worktree HEAD with ONLY that one change applied (must apply cleanly with `git apply` on a clean checkout; paths like a/behave/... b/behave/...);
  - demo.py : a self-contained script demonstrating the breakage through the project's public behaviour. It must put the worktree first on sys.path (sys.path.insert(0, "{wt}") BEFORE importing behave - the interpreter otherwise imports another installed copy of behave) or run `python -m behave` as a subprocess with cwd/ PYTHONPATH={wt}; it exits 1 (printing what went wrong) when the property is violated and 0 when it holds. So: exit 0 on the clean worktree, exit 1 with your patch applied. Use temporary directories for any feature files / step files it needs and clean them up.
  - notes.md : 5-10 lines: what was changed, why it is plausible, which inputs/states make it manifest, why the existing tests do not notice.
PROCEDURE per change: make the edit; run the test suite (must be 13 failed / 1655 passed); run demo.py (must exit 1); save `git diff > _seeded/{pid}-{tag}-k/patch.diff`; then `git checkout -- behave` to restore; run demo.py again (must exit 0). The worktree must be clean (apart from the untracked _seeded directory) when you finish. Use /venv/bin/python for everything. There is no network.
If a candidate change makes a pinned test fail, or you cannot demonstrate it, drop it and try another; it is fine to deliver fewer than 4 if you really cannot find more, but try hard for 4 different ones.
FINAL ANSWER: a short list, one line per delivered change: id, file/function changed, one-sentence description, and the observed test-suite result and demo exit codes (clean/patched).'''

TWINS = '''
WHAT TO PRODUCE: 4 different refactorings of the anchored code under {wt}/behave/ (ids {pid}-t{k1} .. {pid}-t{k4}), each of which
  (a) is an edit a maintainer could plausibly make for readability, style, modernisation or modest efficiency. THIS IS A SECOND ROUND: the first round already used the small classics (renamed locals, one helper extracted, a loop turned into a comprehension / any() / all(), an if-chain into early returns, a constant hoisted). Go further, while staying strictly equivalent: restructure control flow (guard clauses, merged or split branches, a while-loop as a for-loop or the reverse, a flag variable removed, De Morgan), move logic between a method and a helper / staticmethod / property / base class, replace a hand-written loop by itertools / functools / operator / collections idioms (chain, islice, partial, itemgetter, defaultdict, dict.setdefault, dict.get with default, enumerate, zip, reversed, sorted with key), replace string building (% vs .format vs join - keep py2/py3 compatible style of the file), replace a dict/tuple table by equivalent code or code by a table, introduce a small private class or namedtuple for a group of locals, try/finally vs a context manager, cache a repeatedly evaluated PURE expression in a local, reorder independent statements, replace isinstance chains, inline a one-use helper, turn a closure into a bound method or functools.partial; ALSO (third round and later): for-loops rewritten as while-loops with an explicit index or iterator and the reverse, try/except/else restructured, conditional expressions vs if-statements, chained comparisons, set operations instead of loops with membership tests, sorted()/reversed()/min()/max() with key functions, str.partition / rpartition / startswith-tuple instead of split and index arithmetic, dict comprehensions, zip/enumerate instead of index arithmetic, a small class (or closure) replacing a group of functions sharing state, a method moved to a mixin/base class or turned into a property, default-argument sentinels, collections.OrderedDict/defaultdict/Counter/deque, a local generator function consumed by a loop, loop fusion/fission, hoisting loop-invariant PURE computations; ALSO (fourth round): for/else and while/else, slicing and negative indices instead of loops, tuple unpacking and starred assignment, str.format / %-formatting / join interchange where the result is identical, `x if c else y` chains vs dict lookup, try/except narrowed to the statement that can raise (same exceptions!), a @staticmethod turned into a module function (or back), a @property introduced for a repeated expression, a helper decorated with functools.wraps, functools.reduce / any / all / sum / min / max with generator arguments, sorted(..., key=...) + itertools.groupby on sorted data, collections.ChainMap / Counter, dict views and set algebra, early `return` from nested loops via a helper function, replacing recursion by an explicit stack (or the reverse), local class for a small state machine; ALSO (fifth round): a callable class (`__call__`) replacing a nested function, collections.deque used as an explicit work queue, itertools.starmap / accumulate / zip_longest / compress / count / repeat, zip(*rows) transposition, `dict.update` / dict-merge idioms, `getattr(obj, name, default)` instead of hasattr+attribute, `isinstance(x, (A, B))` merged or split, `sorted(..., reverse=True)` vs reversed(sorted(...)) where ties cannot differ, contextlib.closing / ExitStack-free contextmanager helpers, functools.total_ordering-free comparison helpers, a property with a setter replacing a pair of methods, `%`-formatting with a dict, `str.splitlines` / `str.join` over a generator, an accumulator loop turned into sum()/"".join()/list.extend, boolean algebra simplifications (absorption, distribution, double negation), splitting one long method into a pipeline of private methods that pass an explicit state object, merging two adjacent loops over the same sequence when the bodies are independent, replacing a mutable default-like `x = x or []` idiom by an explicit `if x is None` ONLY where x can never be another falsy value; ALSO (sixth round): renaming PRIVATE helpers / locals / private attributes consistently, moving a private helper function to another module of the package and importing it back, turning a module-level helper into a (static/class) method or the reverse, alternative constructors (@classmethod) replacing repeated construction code, `__iter__` written as a generator, a decorator factored out of repeated pre/post code, `operator.itemgetter` / `attrgetter` with several keys, `dict.pop(key, default)` / `dict.setdefault` idioms, `contextlib.contextmanager` helpers wrapping try/finally pairs, `six`-compatible idioms replaced by equivalent plain ones that behave the same on Python 3 AND keep Python 2 syntax valid, `enumerate`/`zip` unrolled or introduced, string predicates (`str.startswith` with tuples, `in` on tuples instead of or-chains), hoisting a repeated attribute chain into a local when nothing in between can change it, replacing `len(x) == 0` / `not len(x)` by `not x` only where x is a real sequence, `try/except KeyError` vs `in`-test plus lookup where no other KeyError can occur, argument-default clean-ups that keep every call site's meaning;
  (b) DOES NOT CHANGE OBSERVABLE BEHAVIOUR for any input: same results, same exceptions (types and messages), same calls to user hooks/formatters/reporters in the same order, same mutations of shared objects, same laziness where laziness is observable. Be careful and conservative: if you are not sure an edit is behaviour-preserving, do not use it;
  (c) keeps the project's pinned test suite result exactly as before. Run it from the worktree:
''' + SUITE + '''
  (d) is moderate in size (typically 5-40 changed lines), touches only files under behave/, and actually touches code that the property above depends on (the anchored functions or helpers they call) - not comments or docstrings only.
Make the 4 refactorings DIFFERENT IN KIND and spread them over different anchored functions.

FOR EACH REFACTORING k = {k1}..{k4} create a directory {wt}/_twins/{pid}-t<k>/ containing:
  - patch.diff : `git diff` output relative to the worktree HEAD with ONLY that one refactoring applied (must apply cleanly with `git apply` on a clean checkout);
  - equiv.py : a self-contained script that exercises the refactored code through the project's public behaviour on a good number of representative and boundary inputs and prints a canonical transcript of what it observed (results, statuses, call logs, outputs, exception types and messages). It must put the worktree first on sys.path (sys.path.insert(0, "{wt}") BEFORE importing behave) or run `python -m behave` as a subprocess with PYTHONPATH={wt}. Run it once on the clean tree and once with the patch; the two transcripts must be IDENTICAL (save them as transcript_clean.txt and transcript_patched.txt in the same directory);
  - notes.md : 3-8 lines: what was refactored, which equivalence argument makes it behaviour-preserving.
PROCEDURE per refactoring: make the edit; run the test suite (must be 13 failed / 1655 passed); run equiv.py > transcript_patched.txt; `git diff > _twins/{pid}-t<k>/patch.diff`; `git checkout -- behave`; run equiv.py > transcript_clean.txt; compare the two files (must be identical). The worktree must be clean (apart from the untracked _twins directory) when you finish. Use /venv/bin/python for everything. There is no network.
FINAL ANSWER: a short list, one line per delivered refactoring: id, file/function changed, what kind of refactoring, observed test-suite result, transcripts identical yes/no.'''


def main(argv):
    mode, root, arg = argv[0], argv[1], argv[2]
    os.makedirs(os.path.join(root, "prompts"), exist_ok=True)
    for l in open(os.path.join(VERIF, "properties.jsonl")):
        d = json.loads(l)
        pid = d["id"]
        wt = os.path.join(root, pid)
        if not os.path.exists(wt):
            subprocess.check_call(["git", "-C", "/repo", "worktree", "add", "--detach", "-q", wt, "HEAD"])
        a = d["anchors"]
        lines = ["  files: " + ", ".join(a.get("files", []))]
        for s in a.get("state", []) or []:
            lines.append("  state: %s - %s (%s)" % (s["name"], s["meaning"], s["where"]))
        for m in a.get("mechanism", []) or []:
            lines.append("  mechanism: %s (%s)" % (m["name"], m["where"]))
        if a.get("observe_at"):
            lines.append("  observable at: " + "; ".join(a["observe_at"]))
        common = dict(wt=wt, pid=pid, title=d["title"], statement=d["statement"], qtext=d["quantifier"]["text"],
                      why=d["why_tests_cant"], anchors="\n".join(lines))
        if mode == "seed":
            p = (HEAD + SEED).format(what="how well a test-and-verification setup guards",
                                     job='Your job: produce REALISTIC BREAKING CHANGES ("seeded defects") for ONE stated behavioural property, in your own scratch git worktree.',
                                     tag=arg, **common)
        else:
            k1 = int(arg)
            p = (HEAD + TWINS).format(what="a verification setup for",
                                      job='Your job is the OPPOSITE of fault seeding: produce BEHAVIOUR-PRESERVING REFACTORINGS ("silent twins") of the code that implements ONE stated behavioural property, in your own scratch git worktree. A good checker must stay silent on them.',
                                      k1=k1, k4=k1 + 3, **common)
        open(os.path.join(root, "prompts", pid + ".txt"), "w").write(p)
    print("prompts in", os.path.join(root, "prompts"))


if __name__ == "__main__":
    main(sys.argv[1:])
