#!/venv/bin/python
"""Development helper: run ONE rule function against a tree and print what it reports.
usage: tools/run_rule.py <rules_module>.<function> [<seeded|twins>/<id>] [extra python-literal args ...]
(with a patch id: the patch is applied to a scratch copy of /repo under /tmp, removed afterwards)"""
import ast, importlib, os, shutil, subprocess, sys, tempfile
VERIF = os.path.dirname(os.path.dirname(os.path.abspath(__file__)))
sys.path.insert(0, VERIF)


def main(argv):
    target, rest = argv[0], argv[1:]
    tmp = None
    if rest and ("/" in rest[0]) and os.path.isdir(os.path.join(VERIF, rest[0])):
        tmp = tempfile.mkdtemp(prefix="rule-", dir="/tmp")
        subprocess.check_call(["rsync", "-a", "--exclude", ".git", "--exclude", "__pycache__", "/repo/", tmp + "/repo/"])
        subprocess.check_call(["git", "init", "-q"], cwd=tmp + "/repo")
        subprocess.check_call(["git", "apply", "--whitespace=nowarn", os.path.join(VERIF, rest[0], "patch.diff")], cwd=tmp + "/repo")
        os.environ["VERIF_REPO"] = tmp + "/repo"
        rest = rest[1:]
    try:
        from sa.index import get_index, AnalysisError
        from sa.report import Check
        modname, fn = target.rsplit(".", 1)
        mod = importlib.import_module("sa." + modname)
        chk = Check("DEV", "quick")
        try:
            getattr(mod, fn)(chk, get_index(), *[ast.literal_eval(a) for a in rest])
        except AnalysisError as e:
            print("ANALYSIS-ERROR:", e)
        for rid, r in sorted(chk.rules.items()):
            print("  %-5s instances=%-4d obligations=%-5d discharged=%-5d" % (rid, r["instances"], r["obligations"], r["discharged"]))
        for f in chk.findings:
            print("FINDING %s in %s: %s" % (f.rule, f.function, f.text[:600]))
        for e in getattr(chk, "floor_errors", []):
            print("FLOOR:", e)
    finally:
        if tmp:
            shutil.rmtree(tmp, ignore_errors=True)


if __name__ == "__main__":
    main(sys.argv[1:])
