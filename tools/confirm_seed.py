#!/usr/bin/env python
# -*- coding: utf-8 -*-
"""Confirm the seeded changes a sub-agent left in its scratch worktree and file them under seeded/.

usage: tools/confirm_seed.py <worktree> [<worktree> ...]
For every <worktree>/_seeded/<id>/ (patch.diff, demo.py, notes.md):
  clean worktree -> demo must exit 0; git apply patch -> pinned test suite must give 13 failed / 1655 passed,
  demo must exit 1; git checkout restores.  Confirmed ones are copied to /verif/seeded/<id>/ with meta.json.
"""
import json, os, re, shutil, subprocess, sys
from concurrent.futures import ThreadPoolExecutor

VERIF = os.path.dirname(os.path.dirname(os.path.abspath(__file__)))
PY = "/venv/bin/python"
PYTEST = [PY, "-m", "pytest", "-q", "-p", "no:cacheprovider", "--timeout=900", "--continue-on-collection-errors"]


def sh(cmd, cwd, timeout=1800):
    p = subprocess.run(cmd, cwd=cwd, capture_output=True, text=True, timeout=timeout)
    return p.returncode, p.stdout + p.stderr


def confirm_tree(wt):
    out = []
    sdir = os.path.join(wt, "_seeded")
    if not os.path.isdir(sdir):
        return [(wt, "no _seeded directory")]
    for sid in sorted(os.listdir(sdir)):
        d = os.path.join(sdir, sid)
        if not (os.path.isfile(os.path.join(d, "patch.diff")) and os.path.isfile(os.path.join(d, "demo.py"))):
            out.append((sid, "incomplete (patch.diff/demo.py missing)"))
            continue
        sh(["git", "checkout", "--", "."], wt)
        rc, o = sh(["git", "status", "--porcelain"], wt)
        dirty = [l for l in o.splitlines() if l.strip() and "_seeded" not in l and "conda" not in l]
        if dirty:
            out.append((sid, "worktree not clean: %s" % dirty[:3]))
            continue
        rc0, o0 = sh([PY, os.path.join(d, "demo.py")], wt, 900)
        rc, o = sh(["git", "apply", "--whitespace=nowarn", os.path.join(d, "patch.diff")], wt)
        if rc != 0:
            out.append((sid, "patch does not apply: %s" % o[-200:]))
            continue
        rc, o = sh(["git", "diff", "--stat"], wt)
        files = re.findall(r"^\s*(\S+)\s+\|", o, re.M)
        rct, ot = sh(PYTEST, wt, 3000)
        m = re.search(r"(\d+) failed, (\d+) passed", ot)
        rc1, o1 = sh([PY, os.path.join(d, "demo.py")], wt, 900)
        sh(["git", "checkout", "--", "."], wt)
        tests = "%s failed, %s passed" % (m.group(1), m.group(2)) if m else "unparsed: " + ot[-150:]
        ok = rc0 == 0 and rc1 == 1 and m and (m.group(1), m.group(2)) == ("13", "1655") and all(f.startswith("behave/") for f in files)
        out.append((sid, "confirmed" if ok else "REJECTED demo clean=%s patched=%s tests=%s files=%s" % (rc0, rc1, tests, files)))
        if ok:
            dst = os.path.join(VERIF, "seeded", sid)
            os.makedirs(dst, exist_ok=True)
            for fn in ("patch.diff", "demo.py", "notes.md"):
                if os.path.exists(os.path.join(d, fn)):
                    shutil.copy(os.path.join(d, fn), os.path.join(dst, fn))
            first = ""
            if os.path.exists(os.path.join(d, "notes.md")):
                first = " ".join(open(os.path.join(d, "notes.md")).read().split())[:400]
            meta = {"id": sid, "property": sid.split("-")[0], "round": int(re.search(r"-r(\d+)-", sid).group(1)) if re.search(r"-r(\d+)-", sid) else 1, "breaks": first, "files": files,
                    "author": "independent sub-agent given only the property text and a scratch worktree",
                    "demo_note": "demo.py puts its scratch worktree (%s) first on sys.path; to re-run it create a worktree there "
                                 "(git -C /repo worktree add --detach %s HEAD), apply patch.diff in it, run, remove it" % (wt, wt),
                    "confirmed_by_me": {"worktree": wt + " (scratch, removed afterwards)",
                                        "commands": ["git apply patch.diff (clean worktree)",
                                                     " ".join(PYTEST) + "  -> " + tests + " (same as unchanged tree)",
                                                     "demo.py -> exit %d on the unchanged tree, exit %d with the patch" % (rc0, rc1)],
                                        "result": "confirmed"},
                    "detected_by": []}
            json.dump(meta, open(os.path.join(dst, "meta.json"), "w"), indent=1)
    return out


if __name__ == "__main__":
    with ThreadPoolExecutor(max_workers=6) as ex:
        for res in ex.map(confirm_tree, sys.argv[1:]):
            for sid, r in res:
                print("%-10s %s" % (sid, r))
                sys.stdout.flush()
