#!/venv/bin/python
"""Run a list of (recently added or rewritten) rule functions against EVERY filed twin, whatever property the twin was written
for: the full twins x checks matrix takes hours, the rules that changed since its last run are checked this way.
usage: tools/new_rules_vs_twins.py [--jobs N]      (scratch copies under /tmp, removed afterwards)"""
import importlib, os, shutil, subprocess, sys, tempfile
from concurrent.futures import ProcessPoolExecutor
VERIF = os.path.dirname(os.path.dirname(os.path.abspath(__file__)))
RULES = ["rules_status.check_reset_chain", "rules_status.check_mark_skipped_postcondition", "rules_status.check_rollup",
         "rules_context.check_scope_histories", "rules_context.check_stack_end",
         "rules_matching.check_module_glue", "rules_matching.check_matcher_factory", "rules_matching.check_match_objects_have_arguments",
         "rules_matching.check_cucumber_check_match", "rules_order.check_match_protection", "rules_order.check_row_background_steps",
         "rules_config.check_init_order", "rules_config.check_setup_userdata", "rules_config.check_runner_aliases",
         "rules_tags.check_matcher", "rules_tags.check_config_tags", "rules_tags.check_autodetect",
         "rules_parser.check_step_keywords_all_languages", "rules_parser.check_language_header",
         "rules_outline.check_scenario_names_concrete", "rules_outline.check_table_columns",
         "rules_formatter.check_json_argument_values", "rules_junit.check_feature_filenames",
         "rules_active.check_provider_learns_later", "rules_active.check_unknown_category", "rules_runner.check_abort_wiring"]

DRIVER = r'''
import importlib, sys
sys.path.insert(0, %r)
from sa.index import get_index, AnalysisError
from sa.report import Check
ix = get_index()
for target in %r:
    modname, fn = target.rsplit(".", 1)
    chk = Check("DEV", "quick")
    try:
        getattr(importlib.import_module("sa." + modname), fn)(chk, ix)
    except AnalysisError as e:
        print("ERROR %%s: %%s" %% (target, str(e)[:300]))
    except Exception as e:
        print("ERROR %%s: internal %%s %%s" %% (target, type(e).__name__, str(e)[:300]))
    for f in chk.findings:
        print("FINDING %%s %%s: %%s" %% (target, f.rule, f.text[:300]))
''' % (VERIF, RULES)


def one(tid):
    tmp = tempfile.mkdtemp(prefix="nr-", dir="/tmp")
    try:
        subprocess.check_call(["rsync", "-a", "--exclude", ".git", "--exclude", "__pycache__", "/repo/", tmp + "/repo/"])
        subprocess.check_call(["git", "init", "-q"], cwd=tmp + "/repo")
        subprocess.check_call(["git", "apply", "--whitespace=nowarn", os.path.join(VERIF, "twins", tid, "patch.diff")], cwd=tmp + "/repo")
        env = dict(os.environ, VERIF_REPO=tmp + "/repo", VERIF_EVIDENCE_DIR=tmp + "/ev")
        p = subprocess.run(["/venv/bin/python", "-c", DRIVER], env=env, capture_output=True, text=True, timeout=1800)
        lines = [l for l in (p.stdout + p.stderr).splitlines() if l.startswith(("FINDING", "ERROR", "Traceback"))]
        return tid, lines
    finally:
        shutil.rmtree(tmp, ignore_errors=True)


def main(argv):
    jobs = int(argv[argv.index("--jobs") + 1]) if "--jobs" in argv else 16
    ids = sorted(d for d in os.listdir(os.path.join(VERIF, "twins")) if os.path.isfile(os.path.join(VERIF, "twins", d, "patch.diff")))
    bad = 0
    with ProcessPoolExecutor(jobs) as ex:
        for tid, lines in ex.map(one, ids):
            if lines:
                bad += 1
                print(tid)
                for l in lines[:6]:
                    print("   ", l)
    print("%d twins, %d rule functions each, %d twins with a report" % (len(ids), len(RULES), bad))


if __name__ == "__main__":
    main(sys.argv[1:])
