#!/venv/bin/python
"""Regenerate /verif/MANIFEST.json from the property modules under sa/props/
(claimed properties) and NOT_APPLICABLE below."""
import importlib
import json
import os
import sys

HERE = os.path.dirname(os.path.dirname(os.path.abspath(__file__)))
sys.path.insert(0, HERE)

NOT_APPLICABLE = {
}
PENDING_REASON = "check not built yet (work in progress)"

TECHNIQUE = {
    "C04": "static analysis: the parser's code interpreted abstractly as a machine over line classes (loop fixpoint over all line sequences) with a step-type monitor; structural rules on the keyword table, line-number provenance, the cell-split regex AST and pending-tag consumption; static constant propagation (the source interpreted on enumerated literal lines, stdlib calls folded) for the doc-string delimiter protocol, cell render/parse agreement and tag lines",
    "C05": "static analysis: the parser's code interpreted abstractly as a machine over line classes from every entry point (reachability of internal exceptions, exception class and filename obligations on every exit); structural rules for error line, reset and termination; the dangling And/But fault is decided by the same machine exploration",
    "C09": "static analysis: abstract evaluation of effective_tags / should_run / should_run_with_tags / add_* / outline builder on tokens (truth tables, provenance, effects) + the Scenario.run and container explorations (typestate monitors) + roll-up fixpoints + structural must-follow rule on the parser's pending tags",
    "C01": "static analysis: modular abstract interpretation (path-sensitive, finite domains, loop fixpoints) of Step.run, Scenario.run, ScenarioContainer.run, ScenarioOutline.run, run_model, run_hook, run_behave/main with iff-obligations per level + structural wiring rule",
    "C02": "static analysis: abstract interpretation of Step.run (outcome table) and Scenario.run (typestate monitor over step events), abstract evaluation of the step-iteration code on labelled tokens (order, copies), exception-containment exploration of Matcher.match",
    "C03": "static analysis: truth tables extracted from the Status enum source, decision tables of the mapping functions, loop-fixpoint exploration of the three compute_status roll-ups over all child-status sequences, cache/typestate obligations on every run(), effect rule on reset() chains",
    "C12": "static analysis: abstract interpretation of run_hook for every hook/context/outcome, nesting monitors (typestate) over Scenario.run, ScenarioContainer.run, Step.run, run_model",
}


def main():
    props = [json.loads(l) for l in open(os.path.join(HERE, "properties.jsonl"))]
    checks = []
    na = []
    for p in props:
        pid = p["id"]
        modpath = os.path.join(HERE, "sa", "props", pid.lower() + ".py")
        if pid in NOT_APPLICABLE:
            na.append({"property_id": pid, "reason": NOT_APPLICABLE[pid]})
            continue
        if not os.path.exists(modpath):
            na.append({"property_id": pid, "reason": PENDING_REASON})
            continue
        mod = importlib.import_module("sa.props." + pid.lower())
        rules_txt = ""
        evp = os.path.join(HERE, "evidence", pid + ".json")
        if os.path.exists(evp):
            try:
                ev = json.load(open(evp))
                rl = ev.get("coverage", {}).get("rules", {})
                rules_txt = " Rules decided in the last committed run (id: obligation): " + "; ".join(
                    "%s: %s" % (rid, " ".join(str(r.get("what", "")).split())) for rid, r in sorted(rl.items())) + "."
            except Exception:       # noqa
                rules_txt = ""
        checks.append({
            "property_id": pid,
            "quick_cmd": "/venv/bin/python check.py %s --tier quick" % pid,
            "thorough_cmd": "/venv/bin/python check.py %s --tier thorough" % pid,
            "evidence_file": "/verif/evidence/%s.json" % pid,
            "replay_cmd_template": "/venv/bin/python check.py %s --replay {path}" % pid,
            "engine": "sa",
            "level_claimed": {
                "category": "other",
                "text": ("Static analysis of /repo's current source (nothing is executed): " + mod.EXPLANATION + rules_txt)[:8000],
                "design_ref": "DESIGN.md section 4 (plan) and section 8 (as built), " + pid,
            },
            "level_note": ("Decides necessary structural/abstract-semantic conditions of the property, not the concrete "
                           "behaviour. Not decided: " + mod.NOT_DECIDED + ". Trusted base: the checker's own abstract "
                           "semantics of the Python subset, Python's ast module, third-party libraries' semantics."),
            "technique": getattr(mod, "TECHNIQUE", None) or TECHNIQUE.get(pid, "static analysis over the parsed source"),
        })
    m = {
        "version": 1,
        "setup_cmd": "/venv/bin/python -m compileall -q sa check.py",
        "hooks": {
            "guard": "BEHAVE_VERIF",
            "enable": "not used - the analysis reads /repo's source only; there is no instrumentation in /repo",
            "baseline_off_cmd": "cd /repo && /venv/bin/python -m pytest -ra -q -p no:cacheprovider --timeout=900 --continue-on-collection-errors",
            "source_commits": [],
            "add_only": True,
        },
        "engines": [{
            "name": "sa", "path": "sa/",
            "serves_properties": [c["property_id"] for c in checks],
            "kind_free_text": "static analysis over /repo's parsed source (stdlib ast only): source index/resolver, "
                              "path-sensitive abstract explorer over finite domains with loop fixpoints and monitors, "
                              "structural rules (tables, ladders, effects, provenance)",
        }],
        "checks": checks,
        "notes": "All checks: exit 0 = all obligations hold; exit 1 + VIOLATION line = unlisted violation; exit 2 = "
                 "ANALYSIS-ERROR (no verdict; never a violation). Repo root overridable with VERIF_REPO. "
                 "Known findings: known_findings.txt. Seeded mutations: seeded/.",
        "not_applicable": na,
    }
    json.dump(m, open(os.path.join(HERE, "MANIFEST.json"), "w"), indent=1)
    print("claimed:", [c["property_id"] for c in checks])
    print("not applicable / pending:", [n["property_id"] for n in na])


if __name__ == "__main__":
    main()
