#!/usr/bin/env python
# -*- coding: utf-8 -*-
"""Regenerate the generated tables of DESIGN.md (between the BEGIN/END GENERATED markers):
  rules      - per property: rule ids, what they decide, instance/obligation counts of the last run (evidence/*.json)
  seeded     - the seeded breaking changes and the rules that report them (seeded/*/meta.json)
"""
import glob, json, os, re
VERIF = os.path.dirname(os.path.dirname(os.path.abspath(__file__)))


def rules_table():
    out = []
    for f in sorted(glob.glob(os.path.join(VERIF, "evidence", "C*.json"))):
        e = json.load(open(f))
        cov = e["coverage"]
        out.append("**%s** (%s tier, %.1f s): %d obligations, %d discharged, %d abstract paths, %d loop-head states\n" % (
            e["property_id"], e["tier"], e["wall_s"], cov.get("obligations", 0), cov.get("discharged", 0), cov.get("abstract_paths", 0),
            cov.get("loop_head_states", 0)))
        out.append("| rule | decides | instances | obligations |")
        out.append("|---|---|---|---|")
        for rid, r in sorted(cov.get("rules", {}).items(), key=lambda kv: (re.sub(r"\d+", "", kv[0]), int(re.sub(r"\D", "", kv[0]) or 0))):
            out.append("| %s | %s | %d | %d |" % (rid, r.get("what", "").replace("|", "/"), r.get("instances", 0), r.get("obligations", 0)))
        out.append("")
    return "\n".join(out)


def seeded_table():
    out = ["| id | round | file(s) | change (from the author's notes) | reported by |", "|---|---|---|---|---|"]
    n = det = 0
    for d in sorted(glob.glob(os.path.join(VERIF, "seeded", "C*"))):
        mp = os.path.join(d, "meta.json")
        if not os.path.exists(mp):
            continue
        m = json.load(open(mp))
        n += 1
        by = m.get("detected_by") or []
        det += bool(by)
        desc = " ".join(str(m.get("breaks", "")).split())
        desc = re.sub(r"^#+\s*", "", desc)[:170].replace("|", "/")
        out.append("| %s | %s | %s | %s | %s |" % (m["id"], m.get("round", 1), ", ".join(os.path.basename(x) for x in m.get("files", [])), desc,
                                                  ", ".join(by) if by else "**not reported** (%s)" % m.get("why_not", "see text")))
    out.append("")
    out.append("%d of %d seeded changes are reported by the check of the property they target." % (det, n))
    return "\n".join(out)


def main():
    p = os.path.join(VERIF, "DESIGN.md")
    s = open(p).read()
    for name, fn in (("rules", rules_table), ("seeded", seeded_table)):
        b, e = "<!-- BEGIN GENERATED: %s -->" % name, "<!-- END GENERATED: %s -->" % name
        if b in s and e in s:
            s = s[:s.index(b) + len(b)] + "\n" + fn() + "\n" + s[s.index(e):]
    open(p, "w").write(s)


if __name__ == "__main__":
    main()
