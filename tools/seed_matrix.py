#!/usr/bin/env python
# -*- coding: utf-8 -*-
"""Run the checks against every seeded breaking change (seeded/<id>/patch.diff).

Each patch is applied to a scratch copy of /repo's *working tree* under /tmp (never to /repo),
the check of the property it targets (or, with --all, every claimed check) is run with
VERIF_REPO pointing at the copy and evidence redirected to a scratch directory, and the copy is removed.
Results: seeded/<id>/meta.json "detected_by" and seeded/MATRIX.json.

usage: tools/seed_matrix.py [--all] [--tier quick|thorough] [ids...]
"""
import json, os, re, shutil, subprocess, sys, tempfile
from concurrent.futures import ThreadPoolExecutor

VERIF = os.path.dirname(os.path.dirname(os.path.abspath(__file__)))
REPO = os.environ.get("VERIF_REPO", "/repo")
PY = "/venv/bin/python"


def claimed():
    return sorted(p[:-3].upper() for p in os.listdir(os.path.join(VERIF, "sa", "props")) if re.match(r"c\d\d\.py$", p))


SUBDIR = "seeded"
SNAP = VERIF      # the checker that is run: a snapshot of sa/ + check.py taken at start, so that sa/ may be edited meanwhile


def snapshot():
    global SNAP
    SNAP = tempfile.mkdtemp(prefix="verif-snap-", dir="/tmp")
    subprocess.check_call(["rsync", "-a", "--exclude", "__pycache__", os.path.join(VERIF, "sa"), os.path.join(VERIF, "check.py"),
                           os.path.join(VERIF, "known_findings.txt"), os.path.join(VERIF, "properties.jsonl"), SNAP + "/"])


def run_one(sid, checks, tier):
    sdir = os.path.join(VERIF, SUBDIR, sid)
    tmp = tempfile.mkdtemp(prefix="seed-%s-" % sid, dir="/tmp")
    try:
        dst = os.path.join(tmp, "repo")
        subprocess.check_call(["rsync", "-a", "--exclude", ".git", "--exclude", "__pycache__", "--exclude", "build", "--exclude", "*.egg-info",
                               REPO + "/", dst + "/"])
        subprocess.check_call(["git", "init", "-q"], cwd=dst)
        r = subprocess.run(["git", "apply", "--whitespace=nowarn", os.path.join(sdir, "patch.diff")], cwd=dst, capture_output=True, text=True)
        if r.returncode != 0:
            return sid, {"error": "patch does not apply: " + r.stderr.strip()[:300]}
        out = {}
        env = dict(os.environ, VERIF_REPO=dst, VERIF_EVIDENCE_DIR=os.path.join(tmp, "evidence"))
        os.makedirs(env["VERIF_EVIDENCE_DIR"])
        for c in checks:
            p = subprocess.run([PY, os.path.join(SNAP, "check.py"), c, "--tier", tier], env=env, capture_output=True, text=True, cwd=SNAP)
            rules = sorted(set(re.findall(r"^\s+rule (\w+) in", p.stdout, re.M)))
            out[c] = {"exit": p.returncode, "rules": rules}
            if p.returncode == 2:
                m = re.search(r"ANALYSIS-ERROR.*", p.stdout + p.stderr)
                out[c]["error"] = m.group(0)[:300] if m else "exit 2"
        return sid, out
    finally:
        shutil.rmtree(tmp, ignore_errors=True)


def main(argv):
    global SUBDIR
    tier = "quick"
    allc = False
    ids = []
    it = iter(argv)
    for a in it:
        if a == "--twins":
            SUBDIR = "twins"
        elif a == "--all":
            allc = True
        elif a == "--tier":
            tier = next(it)
        else:
            ids.append(a)
    have = claimed()
    snapshot()
    if not ids:
        ids = sorted(d for d in os.listdir(os.path.join(VERIF, SUBDIR)) if os.path.isdir(os.path.join(VERIF, SUBDIR, d)))
    jobs = []
    for sid in ids:
        meta = json.load(open(os.path.join(VERIF, SUBDIR, sid, "meta.json")))
        checks = have if allc else [c for c in [meta["property"]] + meta.get("also_run", []) if c in have]
        jobs.append((sid, checks))
    results = {}
    with ThreadPoolExecutor(max_workers=int(os.environ.get("VERIF_JOBS", "8"))) as ex:
        for sid, out in ex.map(lambda j: run_one(j[0], j[1], tier), jobs):
            results[sid] = out
            det = sorted("%s:%s" % (c, r) for c, v in out.items() if isinstance(v, dict) and v.get("exit") == 1 for r in (v["rules"] or ["?"]))
            errs = sorted(c for c, v in out.items() if isinstance(v, dict) and v.get("exit") == 2)
            if SUBDIR == "twins":
                print("%-9s %s%s" % (sid, ("FALSE ALARM " + ", ".join(det)) if det else "silent", ("   [analysis-error: %s]" % ",".join(errs)) if errs else ""))
                sys.stdout.flush()
                mp = os.path.join(VERIF, SUBDIR, sid, "meta.json")
                meta = json.load(open(mp))
                meta.setdefault("checks", {}).update({c: ("false alarm: " + ",".join(v["rules"]) if v.get("exit") == 1 else
                                                          "analysis-error: " + v.get("error", "")[:200] if v.get("exit") == 2 else "silent")
                                                      for c, v in out.items() if isinstance(v, dict) and "exit" in v})
                json.dump(meta, open(mp, "w"), indent=1)
                continue
            print("%-7s %s%s" % (sid, ", ".join(det) if det else "NOT DETECTED", ("   [analysis-error: %s]" % ",".join(errs)) if errs else ""))
            sys.stdout.flush()
            mp = os.path.join(VERIF, "seeded", sid, "meta.json")
            meta = json.load(open(mp))
            old = set(meta.get("detected_by") or [])
            if allc:
                meta["detected_by"] = det
            else:
                ran = set(out)
                meta["detected_by"] = sorted({d for d in old if d.split(":")[0] not in ran} | set(det))
            if errs:
                meta["analysis_error_in"] = errs
            else:
                meta.pop("analysis_error_in", None)
            json.dump(meta, open(mp, "w"), indent=1)
            open(mp, "a").write("\n")
    shutil.rmtree(SNAP, ignore_errors=True)
    mpath = os.path.join(VERIF, SUBDIR, "MATRIX.json")
    matrix = json.load(open(mpath)) if os.path.exists(mpath) else {}
    for sid, out in results.items():
        matrix.setdefault(sid, {}).update(out)
    json.dump(matrix, open(mpath, "w"), indent=1, sort_keys=True)


if __name__ == "__main__":
    main(sys.argv[1:])
