#!/usr/bin/env python
# -*- coding: utf-8 -*-
"""Confirm the behaviour-preserving refactorings ("silent twins") a sub-agent left in its scratch worktree and file
them under twins/.  usage: tools/confirm_twins.py <worktree> [...]
For every <worktree>/_twins/<id>/ (patch.diff, equiv.py, notes.md): the patch applies to the clean worktree, the pinned
suite gives 13 failed / 1655 passed with it, and equiv.py prints the same transcript with and without the patch."""
import json, os, re, shutil, subprocess, sys
from concurrent.futures import ThreadPoolExecutor

VERIF = os.path.dirname(os.path.dirname(os.path.abspath(__file__)))
PY = "/venv/bin/python"
PYTEST = [PY, "-m", "pytest", "-q", "-p", "no:cacheprovider", "--timeout=900", "--continue-on-collection-errors"]


def sh(cmd, cwd, timeout=3000):
    p = subprocess.run(cmd, cwd=cwd, capture_output=True, text=True, timeout=timeout)
    return p.returncode, p.stdout + p.stderr


def confirm_tree(wt):
    out = []
    tdir = os.path.join(wt, "_twins")
    if not os.path.isdir(tdir):
        return [(wt, "no _twins directory")]
    for tid in sorted(os.listdir(tdir)):
        d = os.path.join(tdir, tid)
        if not (os.path.isfile(os.path.join(d, "patch.diff")) and os.path.isfile(os.path.join(d, "equiv.py"))):
            continue
        sh(["git", "checkout", "--", "."], wt)
        rc0, t0 = sh([PY, os.path.join(d, "equiv.py")], wt)
        rc, o = sh(["git", "apply", "--whitespace=nowarn", os.path.join(d, "patch.diff")], wt)
        if rc != 0:
            out.append((tid, "patch does not apply: %s" % o[-200:]))
            continue
        rc, o = sh(["git", "diff", "--stat"], wt)
        files = re.findall(r"^\s*(\S+)\s+\|", o, re.M)
        m = None
        for _ in range(2):      # one known flaky test under load: retry once
            rct, ot = sh(PYTEST, wt)
            m = re.search(r"(\d+) failed, (\d+) passed", ot)
            if m and (m.group(1), m.group(2)) == ("13", "1655"):
                break
        rc1, t1 = sh([PY, os.path.join(d, "equiv.py")], wt)
        sh(["git", "checkout", "--", "."], wt)
        tests = "%s failed, %s passed" % (m.group(1), m.group(2)) if m else "unparsed"
        ok = rc0 == rc1 and t0 == t1 and len(t0) > 200 and m and (m.group(1), m.group(2)) == ("13", "1655") and files and all(f.startswith("behave/") for f in files)
        out.append((tid, "confirmed" if ok else "REJECTED equiv rc=%s/%s same=%s len=%d tests=%s files=%s" % (rc0, rc1, t0 == t1, len(t0), tests, files)))
        if ok:
            dst = os.path.join(VERIF, "twins", tid)
            os.makedirs(dst, exist_ok=True)
            for fn in ("patch.diff", "equiv.py", "notes.md"):
                if os.path.exists(os.path.join(d, fn)):
                    shutil.copy(os.path.join(d, fn), os.path.join(dst, fn))
            note = " ".join(open(os.path.join(d, "notes.md")).read().split())[:400] if os.path.exists(os.path.join(d, "notes.md")) else ""
            meta = {"id": tid, "property": tid.split("-")[0], "kind": "behaviour-preserving refactoring (silent twin)", "what": note, "files": files,
                    "author": "independent sub-agent given only the property text and a scratch worktree",
                    "confirmed_by_me": {"worktree": wt + " (scratch, removed afterwards)",
                                        "commands": ["git apply patch.diff (clean worktree)", " ".join(PYTEST) + "  -> " + tests,
                                                     "equiv.py transcript with and without the patch: identical (%d characters)" % len(t0)],
                                        "result": "confirmed"},
                    "checks": {}}
            json.dump(meta, open(os.path.join(dst, "meta.json"), "w"), indent=1)
    return out


if __name__ == "__main__":
    with ThreadPoolExecutor(max_workers=6) as ex:
        for res in ex.map(confirm_tree, sys.argv[1:]):
            for tid, r in res:
                print("%-10s %s" % (tid, r))
                sys.stdout.flush()
