# -*- coding: utf-8 -*-
"""Repository-wide exact rules that several properties share.

  RF5  no late-binding closure: a nested function that reads a variable of the enclosing function which is
       (re)assigned inside a loop, while the function object itself escapes from that loop (stored, passed on,
       returned) - every stored copy would see the LAST value of the variable, not the one of its iteration.
       Positive control on every run: a five-line snippet with exactly this defect must be reported.
"""
from __future__ import annotations

import ast

from .index import AnalysisError, unparse
from .report import Finding

WHAT = {
    "RF5": "no nested function that escapes from a loop reads a variable rebound in that loop (late binding: every copy would see the last value)",
}

_CONTROL = '''
def patch_all(items):
    def runner(*args):
        return original(*args)
    for item in items:
        original = item.run
        item.run = runner
'''


def _names_bound_in(fn):
    bound = {a.arg for a in fn.args.args + fn.args.posonlyargs + fn.args.kwonlyargs}
    if fn.args.vararg:
        bound.add(fn.args.vararg.arg)
    if fn.args.kwarg:
        bound.add(fn.args.kwarg.arg)
    body = fn.body if isinstance(fn.body, list) else [fn.body]
    for stmt in body:
        for n in ast.walk(stmt):
            if isinstance(n, ast.Name) and isinstance(n.ctx, (ast.Store, ast.Del)):
                bound.add(n.id)
            elif isinstance(n, (ast.FunctionDef, ast.AsyncFunctionDef, ast.ClassDef)):
                bound.add(n.name)
    return bound


def _free_reads(fn):
    bound = _names_bound_in(fn)
    body = fn.body if isinstance(fn.body, list) else [fn.body]
    out = set()
    for stmt in body:
        for n in ast.walk(stmt):
            if isinstance(n, ast.Name) and isinstance(n.ctx, ast.Load) and n.id not in bound:
                out.add(n.id)
    return out


def late_binding_closures(func_node):
    """-> list of (nested function name, variable, loop line)"""
    out = []
    nested = [n for n in ast.walk(func_node) if isinstance(n, (ast.FunctionDef, ast.AsyncFunctionDef)) and n is not func_node]
    loops = [n for n in ast.walk(func_node) if isinstance(n, (ast.For, ast.While))]
    for nf in nested:
        free = _free_reads(nf)
        if not free:
            continue
        for loop in loops:
            if any(x is nf for x in ast.walk(loop)) is False and nf.lineno > loop.lineno and nf.end_lineno <= (loop.end_lineno or 0):
                pass
            assigned = set()
            for n in ast.walk(loop):
                if isinstance(n, ast.Name) and isinstance(n.ctx, ast.Store):
                    assigned.add(n.id)
            hit = sorted(free & assigned)
            if not hit:
                continue
            # does the function object escape from inside the loop? (its name used other than as the callee of a call)
            callee_ids = {id(c.func) for c in ast.walk(loop) if isinstance(c, ast.Call)}
            escapes = any(isinstance(n, ast.Name) and n.id == nf.name and isinstance(n.ctx, ast.Load) and id(n) not in callee_ids
                          for n in ast.walk(loop) if not any(n is x for x in ast.walk(nf)))
            defined_in_loop = any(x is nf for x in ast.walk(loop))
            if escapes and not defined_in_loop:
                out.append((nf.name, hit[0], loop.lineno))
    return out


def check_late_binding(chk, ix, rule="RF5", modules=None):
    chk.rule(rule, WHAT["RF5"])
    # positive control
    ctl = ast.parse(_CONTROL).body[0]
    if not late_binding_closures(ctl):
        raise AnalysisError("RF5 self-test: the positive control is not reported")
    n = 0
    for m in sorted(ix.modules.values(), key=lambda m_: m_.name):
        if modules is not None and not any(m.name.startswith(p) for p in modules):
            continue
        for node in ast.walk(m.tree):
            if not isinstance(node, (ast.FunctionDef, ast.AsyncFunctionDef)):
                continue
            if not any(isinstance(x, (ast.FunctionDef, ast.AsyncFunctionDef)) and x is not node for x in ast.walk(node)):
                continue
            if any(isinstance(p, (ast.FunctionDef, ast.AsyncFunctionDef)) for p in _parents(node)):
                continue        # examined through its outermost function
            n += 1
            chk.instance(rule)
            hits = late_binding_closures(node)
            if not hits:
                chk.ok(rule, {"function": "%s:%s" % (m.name, node.name), "nested functions": "no late-bound loop variable"},
                       nontrivial_key=(m.name, node.name, node.lineno))
            for (fname, var, line) in hits:
                chk.fail(Finding(rule, "%s:%s" % (m.name, node.name), "%s reads %s" % (fname, var),
                                 "the nested function %s reads %r, which the loop at line %d rebinds, and %s itself is handed out inside that loop: "
                                 "every copy sees the value of the LAST iteration (e.g. every patched object ends up calling the last "
                                 "object's original method)" % (fname, var, line, fname), file=m.relpath, line=node.lineno, stmt="def " + node.name))
    if n < 10:
        raise AnalysisError("RF5: only %d functions with nested functions found" % n)


def _parents(node):
    p = getattr(node, "_parent", None)
    while p is not None:
        yield p
        p = getattr(p, "_parent", None)


WHAT["S6"] = "async step glue: whatever way the coroutine is run (directly or as a task with a timeout), its exception reaches the step runner"


def check_async_glue(chk, ix):
    """S6 (structural): in behave.api.async_step every place that runs the step coroutine lets its failure propagate:
    loop.run_until_complete(<coroutine>) does so by itself; a coroutine wrapped into a task and waited for with
    asyncio.wait() needs task.result() or 'raise task.exception()' afterwards (asyncio.wait never raises it)."""
    chk.rule("S6", WHAT["S6"])
    m = ix.module("behave.api.async_step")
    sites = 0
    for fn in [n for n in ast.walk(m.tree) if isinstance(n, (ast.FunctionDef, ast.AsyncFunctionDef))]:
        own = [n for n in ast.walk(fn)]
        waits = [n for n in own if isinstance(n, ast.Call) and unparse(n.func).endswith("asyncio.wait")]
        tasks = [n for n in own if isinstance(n, ast.Assign) and isinstance(n.value, ast.Call) and
                 unparse(n.value.func).split(".")[-1] in ("create_task", "ensure_future")]
        if not waits or not tasks or any(isinstance(p, (ast.FunctionDef, ast.AsyncFunctionDef)) and p is not fn and any(w is x for w in waits for x in ast.walk(p))
                                         for p in ast.walk(fn) if p is not fn):
            continue
        sites += 1
        chk.instance("S6")
        # names that hold a finished task: the task variable itself and anything popped / iterated from the 'done' set
        task_names = {unparse(t.targets[0]) for t in tasks}
        for n in own:
            if isinstance(n, ast.Assign) and isinstance(n.value, ast.Call) and isinstance(n.value.func, ast.Attribute) and n.value.func.attr == "pop":
                task_names.add(unparse(n.targets[0]))
            if isinstance(n, ast.For) and isinstance(n.target, ast.Name):
                task_names.add(n.target.id)
        consumed = False
        exc_vars = set()
        for n in own:
            if isinstance(n, ast.Call) and isinstance(n.func, ast.Attribute) and unparse(n.func.value) in task_names:
                if n.func.attr == "result":
                    consumed = True
                if n.func.attr == "exception":
                    p = getattr(n, "_parent", None)
                    if isinstance(p, ast.Assign):
                        exc_vars.add(unparse(p.targets[0]))
                    if isinstance(p, ast.Raise):
                        consumed = True
        for n in own:
            if isinstance(n, ast.Raise) and n.exc is not None and unparse(n.exc) in exc_vars:
                consumed = True
        if consumed:
            chk.ok("S6", {"function": fn.name, "task waited with asyncio.wait": "its exception is re-raised / result() is taken"}, nontrivial_key=fn.name)
        else:
            chk.fail(Finding("S6", "behave.api.async_step:" + fn.name, "task exception never consumed",
                             "%s runs the step coroutine as a task and waits for it with asyncio.wait(), but neither takes task.result() nor "
                             "re-raises task.exception(): a failing async step (assertion, exception, pending) counts as passed when a "
                             "timeout is given" % fn.name, file=m.relpath, line=fn.lineno, stmt="def " + fn.name))
    if sites < 1:
        raise AnalysisError("anchor missing: no asyncio.wait() site found in behave.api.async_step")
