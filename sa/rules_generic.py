# -*- coding: utf-8 -*-
"""Repository-wide exact rules that several properties share.

  RF5  no late-binding closure: a nested function that reads a variable of the enclosing function which is
       (re)assigned inside a loop, while the function object itself escapes from that loop (stored, passed on,
       returned) - every stored copy would see the LAST value of the variable, not the one of its iteration.
       Positive control on every run: a five-line snippet with exactly this defect must be reported.
"""
from __future__ import annotations

import ast

from .index import AnalysisError, unparse
from .report import Finding

WHAT = {
    "RF5": "no nested function that escapes from a loop reads a variable rebound in that loop (late binding: every copy would see the last value)",
}

_CONTROL = '''
def patch_all(items):
    def runner(*args):
        return original(*args)
    for item in items:
        original = item.run
        item.run = runner
'''


def _names_bound_in(fn):
    bound = {a.arg for a in fn.args.args + fn.args.posonlyargs + fn.args.kwonlyargs}
    if fn.args.vararg:
        bound.add(fn.args.vararg.arg)
    if fn.args.kwarg:
        bound.add(fn.args.kwarg.arg)
    body = fn.body if isinstance(fn.body, list) else [fn.body]
    for stmt in body:
        for n in ast.walk(stmt):
            if isinstance(n, ast.Name) and isinstance(n.ctx, (ast.Store, ast.Del)):
                bound.add(n.id)
            elif isinstance(n, (ast.FunctionDef, ast.AsyncFunctionDef, ast.ClassDef)):
                bound.add(n.name)
    return bound


def _free_reads(fn):
    bound = _names_bound_in(fn)
    body = fn.body if isinstance(fn.body, list) else [fn.body]
    out = set()
    for stmt in body:
        for n in ast.walk(stmt):
            if isinstance(n, ast.Name) and isinstance(n.ctx, ast.Load) and n.id not in bound:
                out.add(n.id)
    return out


def late_binding_closures(func_node):
    """-> list of (nested function name, variable, loop line)"""
    out = []
    nested = [n for n in ast.walk(func_node) if isinstance(n, (ast.FunctionDef, ast.AsyncFunctionDef)) and n is not func_node]
    loops = [n for n in ast.walk(func_node) if isinstance(n, (ast.For, ast.While))]
    for nf in nested:
        free = _free_reads(nf)
        if not free:
            continue
        for loop in loops:
            if any(x is nf for x in ast.walk(loop)) is False and nf.lineno > loop.lineno and nf.end_lineno <= (loop.end_lineno or 0):
                pass
            assigned = set()
            for n in ast.walk(loop):
                if isinstance(n, ast.Name) and isinstance(n.ctx, ast.Store):
                    assigned.add(n.id)
            hit = sorted(free & assigned)
            if not hit:
                continue
            # does the function object escape from inside the loop? (its name used other than as the callee of a call)
            callee_ids = {id(c.func) for c in ast.walk(loop) if isinstance(c, ast.Call)}
            escapes = any(isinstance(n, ast.Name) and n.id == nf.name and isinstance(n.ctx, ast.Load) and id(n) not in callee_ids
                          for n in ast.walk(loop) if not any(n is x for x in ast.walk(nf)))
            defined_in_loop = any(x is nf for x in ast.walk(loop))
            if escapes and not defined_in_loop:
                out.append((nf.name, hit[0], loop.lineno))
    # closures CREATED inside a loop (def or lambda) share the enclosing function's variable all the same; harmless only
    # when the closure is consumed before the loop moves on (a key= function, map/filter/any/all/next evaluated in place)
    for loop in loops:
        assigned = {n.id for n in ast.walk(loop) if isinstance(n, ast.Name) and isinstance(n.ctx, ast.Store)}
        in_place = set()
        for c in ast.walk(loop):
            if isinstance(c, ast.Call):
                fname = unparse(c.func).split(".")[-1]
                for kw in c.keywords:
                    if kw.arg == "key" and fname in ("sorted", "min", "max", "sort", "groupby"):
                        in_place.add(id(kw.value))
                if fname in ("any", "all", "sum", "list", "tuple", "set", "sorted", "next", "join", "extend") and c.args and \
                        isinstance(c.args[0], ast.Call) and unparse(c.args[0].func).split(".")[-1] in ("map", "filter") and c.args[0].args:
                    in_place.add(id(c.args[0].args[0]))
        for n in ast.walk(loop):
            if not isinstance(n, (ast.Lambda, ast.FunctionDef, ast.AsyncFunctionDef)) or id(n) in in_place:
                continue
            if any(isinstance(p, (ast.Lambda, ast.FunctionDef, ast.AsyncFunctionDef)) and p is not func_node and any(x is n for x in ast.walk(p)) and p is not n
                   for p in ast.walk(loop)):
                continue        # examined through the enclosing closure
            hit = sorted(_free_reads(n) & assigned)
            if hit:
                name = getattr(n, "name", "<lambda>")
                if isinstance(n, ast.Lambda) or any(isinstance(x, ast.Name) and x.id == name and isinstance(x.ctx, ast.Load) for x in ast.walk(loop)):
                    if (name, hit[0], loop.lineno) not in out:
                        out.append((name, hit[0], loop.lineno))
    return out


def check_late_binding(chk, ix, rule="RF5", modules=None, min_functions=None):
    chk.rule(rule, WHAT["RF5"])
    # positive control
    ctl = ast.parse(_CONTROL).body[0]
    if not late_binding_closures(ctl):
        raise AnalysisError("RF5 self-test: the positive control is not reported")
    n = 0
    for m in sorted(ix.modules.values(), key=lambda m_: m_.name):
        if modules is not None and not any(m.name.startswith(p) for p in modules):
            continue
        for node in ast.walk(m.tree):
            if not isinstance(node, (ast.FunctionDef, ast.AsyncFunctionDef)):
                continue
            if not any(isinstance(x, (ast.FunctionDef, ast.AsyncFunctionDef, ast.Lambda)) and x is not node for x in ast.walk(node)):
                continue
            if any(isinstance(p, (ast.FunctionDef, ast.AsyncFunctionDef)) for p in _parents(node)):
                continue        # examined through its outermost function
            n += 1
            chk.instance(rule)
            hits = late_binding_closures(node)
            if not hits:
                chk.ok(rule, {"function": "%s:%s" % (m.name, node.name), "nested functions": "no late-bound loop variable"},
                       nontrivial_key=(m.name, node.name, node.lineno))
            for (fname, var, line) in hits:
                chk.fail(Finding(rule, "%s:%s" % (m.name, node.name), "%s reads %s" % (fname, var),
                                 "the nested function %s reads %r, which the loop at line %d rebinds, and %s itself is handed out inside that loop: "
                                 "every copy sees the value of the LAST iteration (e.g. every patched object ends up calling the last "
                                 "object's original method)" % (fname, var, line, fname), file=m.relpath, line=node.lineno, stmt="def " + node.name))
    if n < (min_functions if min_functions is not None else (10 if modules is None else 3)):
        raise AnalysisError("RF5: only %d functions with nested functions found" % n)


def _parents(node):
    p = getattr(node, "_parent", None)
    while p is not None:
        yield p
        p = getattr(p, "_parent", None)


WHAT["S6"] = "async step glue: whatever way the coroutine is run (directly or as a task with a timeout), its exception reaches the step runner"


def check_async_glue(chk, ix):
    """S6 (structural): in behave.api.async_step every place that runs the step coroutine lets its failure propagate:
    loop.run_until_complete(<coroutine>) does so by itself; a coroutine wrapped into a task and waited for with
    asyncio.wait() needs task.result() or 'raise task.exception()' afterwards (asyncio.wait never raises it)."""
    chk.rule("S6", WHAT["S6"])
    m = ix.module("behave.api.async_step")
    sites = 0
    for fn in [n for n in ast.walk(m.tree) if isinstance(n, (ast.FunctionDef, ast.AsyncFunctionDef))]:
        own = [n for n in ast.walk(fn)]
        waits = [n for n in own if isinstance(n, ast.Call) and unparse(n.func).endswith("asyncio.wait")]
        tasks = [n for n in own if isinstance(n, ast.Assign) and isinstance(n.value, ast.Call) and
                 unparse(n.value.func).split(".")[-1] in ("create_task", "ensure_future")]
        if not waits or not tasks or any(isinstance(p, (ast.FunctionDef, ast.AsyncFunctionDef)) and p is not fn and any(w is x for w in waits for x in ast.walk(p))
                                         for p in ast.walk(fn) if p is not fn):
            continue
        sites += 1
        chk.instance("S6")
        # names that hold a finished task: the task variable itself and anything popped / iterated from the 'done' set
        task_names = {unparse(t.targets[0]) for t in tasks}
        for n in own:
            if isinstance(n, ast.Assign) and isinstance(n.value, ast.Call) and isinstance(n.value.func, ast.Attribute) and n.value.func.attr == "pop":
                task_names.add(unparse(n.targets[0]))
            if isinstance(n, ast.For) and isinstance(n.target, ast.Name):
                task_names.add(n.target.id)
        consumed = False
        exc_vars = set()
        for n in own:
            if isinstance(n, ast.Call) and isinstance(n.func, ast.Attribute) and unparse(n.func.value) in task_names:
                if n.func.attr == "result":
                    consumed = True
                if n.func.attr == "exception":
                    p = getattr(n, "_parent", None)
                    if isinstance(p, ast.Assign):
                        exc_vars.add(unparse(p.targets[0]))
                    if isinstance(p, ast.Raise):
                        consumed = True
        for n in own:
            if isinstance(n, ast.Raise) and n.exc is not None and unparse(n.exc) in exc_vars:
                consumed = True
        if consumed:
            chk.ok("S6", {"function": fn.name, "task waited with asyncio.wait": "its exception is re-raised / result() is taken"}, nontrivial_key=fn.name)
        else:
            chk.fail(Finding("S6", "behave.api.async_step:" + fn.name, "task exception never consumed",
                             "%s runs the step coroutine as a task and waits for it with asyncio.wait(), but neither takes task.result() nor "
                             "re-raises task.exception(): a failing async step (assertion, exception, pending) counts as passed when a "
                             "timeout is given" % fn.name, file=m.relpath, line=fn.lineno, stmt="def " + fn.name))
    if sites < 1:
        raise AnalysisError("anchor missing: no asyncio.wait() site found in behave.api.async_step")


WHAT["RF6"] = "no iterator object is used as a truth value (an iterator is always true: 'if not self.all_steps' can never detect 'no steps')"

_RF6_CONTROL = '''
import itertools
class Box(object):
    def iter_items(self):
        return itertools.chain(self.a, self.b)
    @property
    def all_items(self):
        return self.iter_items()
    def is_empty(self):
        if not self.all_items:
            return True
        return False
'''


def _iterator_returning(funcs_by_class, module_funcs, resolve_call):
    """fixpoint: functions / properties that always return an iterator object"""
    ITER_CALLS = {"iter", "chain", "itertools.chain", "map", "filter", "zip", "reversed", "enumerate", "six.moves.map", "six.moves.filter",
                  "six.moves.zip", "itertools.chain.from_iterable", "chain.from_iterable"}
    result = set()
    allf = list(module_funcs) + [f for fs in funcs_by_class.values() for f in fs]
    changed = True
    while changed:
        changed = False
        for key, node, cls in allf:
            if key in result:
                continue
            own = [n for n in ast.walk(node) if not isinstance(n, (ast.FunctionDef, ast.AsyncFunctionDef, ast.Lambda)) or n is node]
            # direct statements only (nested defs excluded)
            rets = []
            is_gen = False
            stack = list(node.body)
            while stack:
                n = stack.pop()
                if isinstance(n, (ast.FunctionDef, ast.AsyncFunctionDef, ast.Lambda, ast.ClassDef)):
                    continue
                if isinstance(n, (ast.Yield, ast.YieldFrom)):
                    is_gen = True
                if isinstance(n, ast.Return):
                    rets.append(n.value)
                stack.extend(ast.iter_child_nodes(n))
            ok = is_gen
            if not ok and rets and all(r is not None for r in rets):
                ok = True
                for r in rets:
                    if isinstance(r, ast.GeneratorExp):
                        continue
                    if isinstance(r, ast.Call):
                        fn = unparse(r.func)
                        if fn in ITER_CALLS:
                            continue
                        tgt = resolve_call(r, cls)
                        if tgt is not None and tgt in result:
                            continue
                    ok = False
                    break
            if ok:
                result.add(key)
                changed = True
    return result


def _truth_positions(tree):
    """expressions evaluated for their truth value"""
    out = []
    for n in ast.walk(tree):
        if isinstance(n, (ast.If, ast.While, ast.IfExp, ast.Assert)):
            out.append(n.test)
        elif isinstance(n, ast.UnaryOp) and isinstance(n.op, ast.Not):
            out.append(n.operand)
        elif isinstance(n, ast.BoolOp):
            out.extend(n.values[:-1] if False else n.values)
        elif isinstance(n, ast.comprehension):
            out.extend(n.ifs)
    return out


def _rf6_scan(tree, class_of_node):
    """-> list of (lineno, text) for the given module tree; class_of_node(node) -> ClassDef node or None"""
    classes = {}
    module_funcs = []
    funcs_by_class = {}
    for n in tree.body:
        if isinstance(n, ast.ClassDef):
            classes[n.name] = n
    bases = {name: [unparse(b).split(".")[-1] for b in c.bases] for name, c in classes.items()}

    def mro(name, seen=None):
        seen = seen or []
        if name in seen or name not in classes:
            return seen
        seen.append(name)
        for b in bases.get(name, []):
            mro(b, seen)
        return seen

    def lookup(cname, attr):
        for c in mro(cname):
            for m in classes[c].body:
                if isinstance(m, (ast.FunctionDef, ast.AsyncFunctionDef)) and m.name == attr:
                    return (c, attr)
        return None
    for n in tree.body:
        if isinstance(n, (ast.FunctionDef, ast.AsyncFunctionDef)):
            module_funcs.append(((None, n.name), n, None))
    for cname, c in classes.items():
        for m in c.body:
            if isinstance(m, (ast.FunctionDef, ast.AsyncFunctionDef)):
                funcs_by_class.setdefault(cname, []).append(((cname, m.name), m, cname))

    def resolve_call(call, cls):
        f = call.func
        if isinstance(f, ast.Attribute) and isinstance(f.value, ast.Name) and f.value.id in ("self", "cls") and cls is not None:
            return lookup(cls, f.attr)
        if isinstance(f, ast.Name):
            return (None, f.id)
        return None
    iters = _iterator_returning(funcs_by_class, module_funcs, resolve_call)
    props = set()
    for cname, c in classes.items():
        for m in c.body:
            if isinstance(m, ast.FunctionDef) and any(unparse(d) == "property" for d in m.decorator_list):
                props.add((cname, m.name))
    hits = []
    for cname, c in list(classes.items()) + [(None, tree)]:
        scope_nodes = c.body if cname else [n for n in tree.body if not isinstance(n, ast.ClassDef)]
        for stmt in scope_nodes:
            for e in _truth_positions(stmt) if not isinstance(stmt, ast.ClassDef) else []:
                tgt = None
                if isinstance(e, ast.Attribute) and isinstance(e.value, ast.Name) and e.value.id == "self" and cname:
                    t = lookup(cname, e.attr)
                    if t in props and t in iters:
                        tgt = "%s.%s (a property returning an iterator)" % t
                elif isinstance(e, ast.Call):
                    t = resolve_call(e, cname)
                    if t in iters:
                        tgt = "%s()" % (".".join(x for x in t if x))
                    elif unparse(e.func) in ("iter", "chain", "itertools.chain", "map", "filter", "zip", "reversed"):
                        tgt = unparse(e.func) + "(...)"
                elif isinstance(e, ast.GeneratorExp):
                    tgt = "a generator expression"
                if tgt:
                    hits.append((e.lineno, unparse(e), tgt))
    return hits


def check_iterator_truth(chk, ix, rule="RF6"):
    chk.rule(rule, WHAT["RF6"])
    if not _rf6_scan(ast.parse(_RF6_CONTROL), None):
        raise AnalysisError("RF6 self-test: the positive control is not reported")
    n = 0
    for m in sorted(ix.modules.values(), key=lambda m_: m_.name):
        n += 1
        chk.instance(rule)
        hits = _rf6_scan(m.tree, None)
        if not hits:
            chk.ok(rule, {"module": m.name, "iterators used as truth values": 0}, nontrivial_key=m.name)
        for (line, text, tgt) in hits:
            chk.fail(Finding(rule, "%s:<line %d>" % (m.name, line), "truth value of %s" % text,
                             "%s is used as a truth value at %s:%d, but it is %s: an iterator object is always true, so the test can never "
                             "see an empty sequence" % (text, m.relpath, line, tgt), file=m.relpath, line=line, stmt=text))
    if n < 30:
        raise AnalysisError("RF6: only %d modules scanned" % n)


WHAT["RF7"] = "no return / break / continue leaves a finally block (it would silently discard the exception that is on its way through)"

_RF7_CONTROL = '''
def control(fn):
    try:
        return fn()
    finally:
        if not fn:
            return None
'''


def jumps_out_of_finally(func_node):
    """-> [(kind, line)]: return anywhere inside a finally block (not inside a nested function), break / continue
    inside a finally block whose loop is outside that block"""
    hits = []

    def scan(stmts, loops_inside):
        for s in stmts:
            if isinstance(s, (ast.FunctionDef, ast.AsyncFunctionDef, ast.ClassDef, ast.Lambda)):
                continue
            if isinstance(s, ast.Return):
                hits.append(("return", s.lineno))
            elif isinstance(s, (ast.Break, ast.Continue)) and loops_inside == 0:
                hits.append(("break" if isinstance(s, ast.Break) else "continue", s.lineno))
            inner = loops_inside + (1 if isinstance(s, (ast.For, ast.AsyncFor, ast.While)) else 0)
            for field in ("body", "orelse", "finalbody"):
                sub = getattr(s, field, None)
                if isinstance(sub, list):
                    # the else-branch of a loop is not inside the loop
                    scan(sub, loops_inside if (field == "orelse" and isinstance(s, (ast.For, ast.AsyncFor, ast.While))) else inner)
            for h in getattr(s, "handlers", []) or []:
                scan(h.body, inner)

    for n in ast.walk(func_node):
        if isinstance(n, ast.Try) and n.finalbody:
            owner = next((p for p in _parents(n) if isinstance(p, (ast.FunctionDef, ast.AsyncFunctionDef))), None)
            if owner is func_node or owner is None:
                scan(n.finalbody, 0)
    return hits


def check_finally_jumps(chk, ix, rule="RF7", modules=None):
    chk.rule(rule, WHAT["RF7"])
    ctl = ast.parse(_RF7_CONTROL).body[0]
    if not jumps_out_of_finally(ctl):
        raise AnalysisError("RF7 self-test: the positive control is not reported")
    n = 0
    for m in sorted(ix.modules.values(), key=lambda m_: m_.name):
        if modules is not None and not any(m.name.startswith(p) for p in modules):
            continue
        for node in ast.walk(m.tree):
            if not isinstance(node, (ast.FunctionDef, ast.AsyncFunctionDef)):
                continue
            if not any(isinstance(x, ast.Try) and x.finalbody for x in ast.walk(node)):
                continue
            n += 1
            chk.instance(rule)
            hits = jumps_out_of_finally(node)
            if not hits:
                chk.ok(rule, {"function": "%s:%s" % (m.name, node.name), "finally blocks": "no jump out"}, nontrivial_key=(m.name, node.name, node.lineno))
            for (kind, line) in hits:
                chk.fail(Finding(rule, "%s:%s" % (m.name, node.name), "%s in finally" % kind,
                                 "a %s statement at line %d leaves a finally block: an exception raised in the protected block (a failing hook, "
                                 "a failing step, KeyboardInterrupt) is discarded without a trace when that statement runs" % (kind, line),
                                 file=m.relpath, line=line, stmt="def " + node.name))
    if n < 5:
        raise AnalysisError("RF7: only %d functions with a finally block found" % n)


WHAT["RF8"] = "functions whose result must depend on their input alone keep no memory: nothing they run writes a module-level or class-level container (a memo would answer later calls from an earlier input)"

_RF8_CONTROL = '''
_SEEN = {}
def control(name):
    if name not in _SEEN:
        _SEEN[name] = len(name)
    return _SEEN[name]
'''

_CONTAINER_CALLS = {"dict", "list", "set", "OrderedDict", "defaultdict", "WeakValueDictionary", "WeakKeyDictionary", "Counter", "deque"}
_MUTATORS = {"append", "extend", "insert", "update", "setdefault", "add", "pop", "popitem", "clear", "remove", "discard", "appendleft", "__setitem__"}


def _is_container_expr(e):
    if isinstance(e, (ast.Dict, ast.List, ast.Set, ast.DictComp, ast.ListComp, ast.SetComp)):
        return True
    return isinstance(e, ast.Call) and unparse(e.func).split(".")[-1] in _CONTAINER_CALLS


def shared_container_writes(fnode, module_containers, class_containers, self_names=("self", "cls")):
    """writes in fnode's own body to NAME[...] / NAME.mutator(...) for a module-level container NAME, to
    self.ATTR[...] / cls.ATTR[...] / Class.ATTR[...] (and .mutator()) for a class-level container ATTR, and to globals"""
    hits = []
    globals_declared = set()

    def base_desc(e):
        # e: the expression that is subscripted / whose mutator is called
        if isinstance(e, ast.Name) and e.id in module_containers:
            return "module-level %s" % e.id
        if isinstance(e, ast.Attribute) and e.attr in class_containers:
            root = e.value
            if isinstance(root, ast.Name) and (root.id in self_names or root.id in class_containers[e.attr]):
                return "class-level %s.%s" % (sorted(class_containers[e.attr])[0], e.attr)
            if isinstance(root, ast.Attribute) and root.attr == "__class__":
                return "class-level %s" % e.attr
            if isinstance(root, ast.Call) and unparse(root.func) == "type":
                return "class-level %s" % e.attr
        return None

    def own(n):
        for c in ast.iter_child_nodes(n):
            if isinstance(c, (ast.FunctionDef, ast.AsyncFunctionDef, ast.ClassDef, ast.Lambda)):
                continue
            yield c
            for x in own(c):
                yield x
    for n in own(fnode):
        if isinstance(n, ast.Global):
            globals_declared.update(n.names)
        targets = []
        if isinstance(n, ast.Assign):
            targets = list(n.targets)
        elif isinstance(n, (ast.AugAssign, ast.AnnAssign)):
            targets = [n.target]
        elif isinstance(n, ast.Delete):
            targets = list(n.targets)
        flat = []
        for t in targets:
            flat.extend(t.elts if isinstance(t, (ast.Tuple, ast.List)) else [t])
        for t in flat:
            if isinstance(t, ast.Subscript):
                d = base_desc(t.value)
                if d:
                    hits.append((d, n.lineno))
            elif isinstance(t, ast.Name) and t.id in globals_declared:
                hits.append(("global %s" % t.id, n.lineno))
        if isinstance(n, ast.Call) and isinstance(n.func, ast.Attribute) and n.func.attr in _MUTATORS:
            d = base_desc(n.func.value)
            if d:
                hits.append((d, n.lineno))
    return hits


def check_memoryless(chk, ix, entries, rule="RF8", depth=3):
    """entries: 'module:function' / 'module:Class.method' names.  The functions they reach through resolvable calls
    (same package, up to `depth` levels) are scanned too."""
    from .index import FuncInfo, ClassInfo
    chk.rule(rule, WHAT["RF8"])
    ctl_mod = ast.parse(_RF8_CONTROL)
    if not shared_container_writes(ctl_mod.body[1], {"_SEEN"}, {}):
        raise AnalysisError("RF8 self-test: the positive control is not reported")
    mod_containers = {}
    class_containers = {}
    for m in ix.modules.values():
        mod_containers[m.name] = {k for k, v in m.consts.items() if _is_container_expr(v)}
        for ci in m.classes.values():
            for k, v in ci.class_consts.items():
                if _is_container_expr(v):
                    class_containers.setdefault(k, set()).add(ci.name)
    for entry in entries:
        f0 = ix.func(entry)
        if f0 is None:
            raise AnalysisError("anchor missing: %s" % entry)
        seen, work = {}, [(f0, 0, entry)]
        while work:
            f, d, via = work.pop()
            if f.fullname in seen:
                continue
            seen[f.fullname] = via
            if d >= depth:
                continue
            for c in ast.walk(f.node):
                if not isinstance(c, ast.Call):
                    continue
                tgt = None
                try:
                    r = ix.resolve_expr(f.module, c.func)
                except Exception:       # noqa
                    r = None
                if isinstance(r, FuncInfo):
                    tgt = r
                elif isinstance(r, ClassInfo):
                    tgt = r.lookup("__init__")
                elif isinstance(c.func, ast.Attribute) and isinstance(c.func.value, ast.Name) and c.func.value.id in ("self", "cls") and f.cls is not None:
                    tgt = f.cls.lookup(c.func.attr)
                if isinstance(tgt, FuncInfo) and tgt.fullname not in seen:
                    work.append((tgt, d + 1, via + " -> " + tgt.fullname.split(":")[-1]))
        chk.instance(rule)
        bad = []
        for fullname, via in sorted(seen.items()):
            f = ix.func(fullname)
            if f is None:
                continue
            for (what, line) in shared_container_writes(f.node, mod_containers.get(f.module.name, set()), class_containers):
                bad.append((f, what, line, via))
        if not bad:
            chk.ok(rule, {"entry": entry, "functions scanned": len(seen), "writes to shared containers": 0}, nontrivial_key=entry)
        for (f, what, line, via) in bad:
            chk.fail(Finding(rule, f.fullname, "writes %s" % what,
                             "%s (reached from %s) writes the %s container at line %d: what a call returns then depends on earlier calls "
                             "(another input with the same key, a file that changed meanwhile, another class using the same table)"
                             % (f.fullname, via, what, line), file=f.file, line=line, stmt="def " + f.node.name))


WHAT["RF9"] = "no mutable class-level container is filled through an instance (self.x.append(...) on a list defined in the class body): all instances - and all runs in one process - would share it"

_RF9_CONTROL = '''
class Control(object):
    seen = []
    def note(self, x):
        self.seen.append(x)
'''


def shared_class_containers(cls_node):
    """-> [(attr, method, line)]: class-body containers that a method mutates through self without any method (or the class's
    __init__) rebinding self.attr first"""
    containers = {}
    for n in cls_node.body:
        if isinstance(n, ast.Assign) and _is_container_expr(n.value) and not (isinstance(n.value, (ast.List, ast.Dict, ast.Set)) and (getattr(n.value, "elts", None) or getattr(n.value, "keys", None))):
            for t in n.targets:
                if isinstance(t, ast.Name):
                    containers[t.id] = n.lineno
    if not containers:
        return []
    rebound = set()
    hits = []
    # a property that just returns self.<container> is another name of it
    alias = {}
    for m in cls_node.body:
        if isinstance(m, ast.FunctionDef) and any(isinstance(d, ast.Name) and d.id == "property" for d in m.decorator_list) and m.args.args:
            rets = [n for n in ast.walk(m) if isinstance(n, ast.Return)]
            if len(rets) == 1 and isinstance(rets[0].value, ast.Attribute) and isinstance(rets[0].value.value, ast.Name) \
                    and rets[0].value.value.id == m.args.args[0].arg and rets[0].value.attr in containers:
                alias[m.name] = rets[0].value.attr
    for m in cls_node.body:
        if not isinstance(m, (ast.FunctionDef, ast.AsyncFunctionDef)) or not m.args.args:
            continue
        me = m.args.args[0].arg
        for n in ast.walk(m):
            if isinstance(n, (ast.Assign, ast.AnnAssign)):
                for t in (n.targets if isinstance(n, ast.Assign) else [n.target]):
                    if isinstance(t, ast.Attribute) and isinstance(t.value, ast.Name) and t.value.id == me and t.attr in containers:
                        rebound.add(t.attr)
    for m in cls_node.body:
        if not isinstance(m, (ast.FunctionDef, ast.AsyncFunctionDef)) or not m.args.args:
            continue
        if any(isinstance(d, ast.Name) and d.id in ("classmethod", "staticmethod") for d in m.decorator_list):
            continue
        me = m.args.args[0].arg
        for n in ast.walk(m):
            tgt = None
            if isinstance(n, ast.Call) and isinstance(n.func, ast.Attribute) and n.func.attr in _MUTATORS:
                tgt = n.func.value
            elif isinstance(n, (ast.Assign, ast.AugAssign)):
                for t in (n.targets if isinstance(n, ast.Assign) else [n.target]):
                    if isinstance(t, ast.Subscript):
                        tgt = t.value
            if isinstance(tgt, ast.Attribute) and isinstance(tgt.value, ast.Name) and tgt.value.id == me:
                attr = alias.get(tgt.attr, tgt.attr)
                if attr in containers and attr not in rebound:
                    hits.append((attr, m.name, n.lineno))
    return hits


def check_shared_class_state(chk, ix, modules, rule="RF9", floor=1):
    chk.rule(rule, WHAT["RF9"])
    ctl = ast.parse(_RF9_CONTROL).body[0]
    if not shared_class_containers(ctl):
        raise AnalysisError("RF9 self-test: the positive control is not reported")
    n = 0
    for m in sorted(ix.modules.values(), key=lambda m_: m_.name):
        if not any(m.name.startswith(p) for p in modules):
            continue
        for node in ast.walk(m.tree):
            if not isinstance(node, ast.ClassDef):
                continue
            n += 1
            chk.instance(rule)
            hits = shared_class_containers(node)
            if not hits:
                chk.ok(rule, {"class": "%s:%s" % (m.name, node.name), "class-level containers filled through self": 0}, nontrivial_key=(m.name, node.name))
            for (attr, meth, line) in hits:
                chk.fail(Finding(rule, "%s:%s.%s" % (m.name, node.name, meth), "%s.%s" % (node.name, attr),
                                 "%s.%s is a container defined in the class body and %s() fills it through self (line %d) without any method giving the "
                                 "instance its own: every instance of %s - every reporter, every run in the same process - shares and keeps "
                                 "its contents" % (node.name, attr, meth, line, node.name), file=m.relpath, line=line, stmt="def " + meth))
    if n < floor:
        raise AnalysisError("RF9: only %d classes found in %s" % (n, ", ".join(modules)))
