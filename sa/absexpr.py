# -*- coding: utf-8 -*-
"""Expression semantics of the abstract explorer (mixed into absint.Interp)."""
from __future__ import annotations

import ast

from .index import (AnalysisError, EnumVal, ClassInfo, FuncInfo, Module, NotConst,
                    unparse, dotted)
from .values import (Top, GE2, Ref, ClassVal, FuncVal, BoundMeth, Builtin, ModuleVal,
                     SuperVal, AbsSeq, LenOf, SymLen, HObj, Exc, State, vkey)

BUILTIN_NAMES = {
    "isinstance", "issubclass", "getattr", "setattr", "hasattr", "len", "set", "list", "tuple",
    "dict", "reversed", "iter", "bool", "sorted", "sum", "any", "all", "enumerate", "zip",
    "print", "str", "int", "float", "callable", "id", "type", "super", "repr", "min", "max",
    "frozenset", "next", "filter", "map", "object", "hash", "abs", "round", "range", "vars", "open",
    "ord", "chr", "unichr",
}
BUILTIN_EXC = None


def _builtin_exc_names():
    global BUILTIN_EXC
    if BUILTIN_EXC is None:
        import builtins
        BUILTIN_EXC = {n for n in dir(builtins)
                       if isinstance(getattr(builtins, n), type) and issubclass(getattr(builtins, n), BaseException)}
    return BUILTIN_EXC


_UNS = []


def U(interp):
    if not _UNS:
        from .absint import Unsupported
        _UNS.append(Unsupported)
    return _UNS[0]


def install(cls):
    for name, fn in list(globals().items()):
        if name.startswith(("e_", "x_", "get_")) and callable(fn):
            setattr(cls, name, fn)


# ----------------------------------------------------------------------
# atoms
# ----------------------------------------------------------------------
def e_Constant(self, st, node):
    return [(st, "val", node.value)]


def e_JoinedStr(self, st, node):
    parts = []
    for p in node.values:
        if isinstance(p, ast.Constant):
            parts.append(p.value)
        else:
            return [(st, "val", Top("fstring"))]
    return [(st, "val", "".join(str(p) for p in parts))]


def _local_names(fnode):
    """names bound in the body of a function (not in nested scopes), minus global / nonlocal declarations"""
    cached = getattr(fnode, "_locals", None)
    if cached is not None:
        return cached
    bound, declared = set(), set()

    def targets(t):
        if isinstance(t, ast.Name):
            bound.add(t.id)
        elif isinstance(t, (ast.Tuple, ast.List)):
            for e in t.elts:
                targets(e)
        elif isinstance(t, ast.Starred):
            targets(t.value)

    def walk(n):
        for c in ast.iter_child_nodes(n):
            if isinstance(c, (ast.FunctionDef, ast.AsyncFunctionDef, ast.ClassDef)):
                bound.add(c.name)
                continue
            if isinstance(c, (ast.Lambda, ast.ListComp, ast.SetComp, ast.DictComp, ast.GeneratorExp)):
                continue
            if isinstance(c, (ast.Global, ast.Nonlocal)):
                declared.update(c.names)
            elif isinstance(c, ast.Assign):
                for t in c.targets:
                    targets(t)
            elif isinstance(c, (ast.AugAssign, ast.AnnAssign)):
                targets(c.target)
            elif isinstance(c, (ast.For, ast.AsyncFor)):
                targets(c.target)
            elif isinstance(c, (ast.With, ast.AsyncWith)):
                for it_ in c.items:
                    if it_.optional_vars is not None:
                        targets(it_.optional_vars)
            elif isinstance(c, ast.ExceptHandler) and c.name:
                bound.add(c.name)
            elif isinstance(c, (ast.Import, ast.ImportFrom)):
                for a in c.names:
                    bound.add((a.asname or a.name).split(".")[0])
            elif isinstance(c, ast.NamedExpr):
                targets(c.target)
            walk(c)
    if isinstance(fnode, (ast.FunctionDef, ast.AsyncFunctionDef)):
        walk(fnode)
        a = fnode.args
        for p in a.posonlyargs + a.args + a.kwonlyargs + ([a.vararg] if a.vararg else []) + ([a.kwarg] if a.kwarg else []):
            bound.discard(p.arg)        # parameters are always bound
    fnode._locals = frozenset(bound - declared)
    return fnode._locals


def e_Name(self, st, node):
    name = node.id
    fr = st.frames[-1]
    if name in fr:
        return [(st, "val", fr[name])]
    # closures: search enclosing frames of nested functions (not used by targets)
    func = self.cur_func
    mod = func.module if func else None
    fnode = getattr(func, "node", None)
    if fnode is not None and fr.get("@body") == id(fnode) and name in _local_names(fnode):
        # a local of this function that no assignment has reached on this path
        return self.raise_exc(st, "UnboundLocalError", node, "unbound-local",
                              "local variable %r referenced before assignment" % name)
    v = self.x_global(st, mod, name, node)
    return [(st, "val", v)]


def x_global(self, st, mod, name, node=None):
    if name in ("True", "False", "None"):
        return {"True": True, "False": False, "None": None}[name]
    if mod is not None:
        r = self.ix.resolve_name(mod, name)
        if r is not None:
            return self.x_resolved(st, r, name)
    if name in _builtin_exc_names():
        return ClassVal(name)
    if name in BUILTIN_NAMES:
        return Builtin(name)
    raise U(self)("unresolved name %s at %s" % (name, self.loc(node) if node is not None else "?"))


def x_resolved(self, st, r, name):
    if isinstance(r, ClassInfo):
        return ClassVal(r)
    if isinstance(r, FuncInfo):
        return FuncVal(r)
    if isinstance(r, Module):
        return ModuleVal(r)
    if isinstance(r, tuple) and r[0] == "ext":
        dn = r[1]
        last = dn.split(".")[-1]
        if last in _builtin_exc_names() and dn.split(".")[0] in ("builtins", "exceptions", last):
            return ClassVal(last)
        return ModuleVal(dn)
    if isinstance(r, tuple) and r[0] == "const":
        try:
            v = self.ix.fold(r[2], r[1])
        except NotConst:
            rv = _abscall.fold_regex_const(self, r[2], r[1])
            if rv is not KeyError:
                return rv
            gk = "@mconst:%s.%s" % (r[1].name, name)
            cached = st.ghost.get(gk)
            if isinstance(cached, Ref) and cached.oid in st.heap:
                return cached       # a module-level object exists once (a sentinel made by object(), a table built by a call)
            rv = x_module_table(self, st, r[2], r[1])
            if rv is KeyError:
                rv = x_eval_module_expr(self, st, r[2], r[1])
            if rv is not KeyError:
                if isinstance(rv, Ref) and isinstance(r[2], ast.Call):
                    st.ghost[gk] = rv
                return rv
            return Top("global:" + name)
        return self.x_lift(st, v)
    raise U(self)("resolved %r" % (r,))


class _ModuleScope(object):
    """stands in for 'the current function' while a module-level expression is evaluated"""
    cls = None
    kind = "function"
    name = "<module>"

    def __init__(self, mod):
        self.module = mod
        self.file = mod.relpath
        self.fullname = mod.name + ":<module>"
        self.qualname = "<module>"
        self.node = mod.tree
        self.lineno = 1


def x_eval_module_expr(self, st, node, mod, ci=None):
    """A module-level constant computed by an expression (a comprehension over another table, a tuple(...) call ...):
    evaluated in the module's scope.  KeyError unless it evaluates to one value without forking."""
    if not isinstance(node, (ast.Call, ast.ListComp, ast.SetComp, ast.DictComp, ast.GeneratorExp, ast.BinOp, ast.Subscript)):
        return KeyError
    depth = getattr(self, "_modexpr_depth", 0)
    if depth > 3:
        return KeyError
    if isinstance(node, ast.Call) and isinstance(node.func, ast.Name) and node.func.id == "object" and not node.args and not node.keywords:
        return st.alloc(HObj("object", {}, label="sentinel"))
    if isinstance(node, ast.Call):
        fn = self.ix.resolve_expr(mod, node.func)
        ext_ok = isinstance(fn, tuple) and fn and fn[0] == "ext" and (
            fn[1] in ("collections.namedtuple", "functools.partial", "six.text_type", "six.u", "collections.OrderedDict", "collections.defaultdict")
            or fn[1].startswith("operator."))
        if not (isinstance(node.func, ast.Name) and node.func.id in ("tuple", "list", "dict", "set", "frozenset", "sorted")) and not isinstance(fn, FuncInfo) \
                and not ext_ok:
            return KeyError
    saved, saved_frames = self.cur_func, st.frames
    self.cur_func = _ModuleScope(mod)
    self._modexpr_depth = depth + 1
    frame = {}
    if ci is not None:
        # an expression in a class body sees the names defined earlier in that body
        for nm in ast.walk(node):
            if isinstance(nm, ast.Name) and isinstance(nm.ctx, ast.Load) and nm.id in ci.class_consts and nm.id not in frame:
                try:
                    o_ = self.get_attr(st, ClassVal(ci), nm.id, node)
                except AnalysisError:
                    o_ = []
                if len(o_) == 1 and o_[0][1] == "val" and o_[0][0] is st:
                    frame[nm.id] = o_[0][2]
    st.frames = [frame]
    try:
        outs = self.eval(st, node)
    except AnalysisError:
        outs = []
    finally:
        self.cur_func = saved
        self._modexpr_depth = depth
        st.frames = saved_frames
    if len(outs) == 1 and outs[0][1] == "val" and not isinstance(outs[0][2], Top):
        o = outs[0][0]
        if o is not st:
            # evaluated in a fork (a comprehension) that is the only outcome: this state continues as that fork
            st.heap, st.ghost, st.path, st.imprecise, st.trace, st.epoch = o.heap, o.ghost, o.path, o.imprecise, o.trace, o.epoch
        return outs[0][2]
    return KeyError


def x_module_table(self, st, node, mod, _depth=0, ci=None):
    """A module-level tuple/list/dict display whose members are constants or NAMES of classes / functions / other such
    tables of that module (dispatch tables): evaluated member by member.  KeyError when it is anything else."""
    if _depth > 4:
        return KeyError
    if isinstance(node, (ast.Tuple, ast.List)):
        out = []
        for e in node.elts:
            v = x_module_table(self, st, e, mod, _depth + 1, ci)
            if v is KeyError:
                return KeyError
            out.append(v)
        return tuple(out) if isinstance(node, ast.Tuple) else st.alloc(HObj("list", kind="list", items=out))
    if isinstance(node, ast.Dict):
        items = []
        for k, v in zip(node.keys, node.values):
            if k is None:
                return KeyError
            kk, vv = x_module_table(self, st, k, mod, _depth + 1, ci), x_module_table(self, st, v, mod, _depth + 1, ci)
            if kk is KeyError or vv is KeyError:
                return KeyError
            items.append((kk, vv))
        return st.alloc(HObj("dict", kind="dict", items=items))
    if isinstance(node, ast.Attribute) and isinstance(node.value, (ast.Name, ast.Attribute)):
        rb = self.ix.resolve_expr(mod, node.value)
        if isinstance(rb, ClassInfo) and rb.is_enum and node.attr in rb.class_consts and not node.attr.startswith("_"):
            a2 = _enum_canonical(rb, node.attr)
            return EnumVal(rb.name, a2, rb.enum_members.get(a2))        # Status.passed in a table
    if ci is not None and isinstance(node, ast.Name) and node.id in ci.methods:
        return FuncVal(ci.methods[node.id])         # a class-level table naming functions of the class body
    if isinstance(node, (ast.Name, ast.Attribute)):
        r = self.ix.resolve_expr(mod, node)
        if isinstance(r, (ClassInfo, FuncInfo)):
            return self.x_resolved(st, r, unparse(node))
        if isinstance(r, tuple) and r[0] == "ext":
            return self.x_resolved(st, r, unparse(node))
        if r is None and isinstance(node, ast.Name) and node.id in BUILTIN_NAMES:
            return Builtin(node.id)     # NAME = chr
    try:
        return self.x_lift(st, self.ix.fold(node, mod))
    except NotConst:
        pass
    if isinstance(node, ast.Call):
        return x_eval_module_expr(self, st, node, mod)       # methodcaller("walk_scenarios"), partial(...), namedtuple(...)
    if isinstance(node, ast.Lambda):
        saved, saved_frames = self.cur_func, st.frames
        self.cur_func = _ModuleScope(mod)
        st.frames = [{}]
        try:
            outs = self.eval(st, node)
        except AnalysisError:
            outs = []
        finally:
            self.cur_func = saved
            st.frames = saved_frames
        if len(outs) == 1 and outs[0][1] == "val" and outs[0][0] is st:
            return outs[0][2]
    return KeyError


def x_const(self, st, key, v):
    """A module- or class-level constant.  With `shared_consts` a mutable one (list/dict) is ONE object per state,
    as in Python: whoever gets it through the name gets the same object (a shallow copy shares its members)."""
    if getattr(self, "shared_consts", False) and isinstance(v, (list, dict)):
        gk = "@const:" + key
        r = st.ghost.get(gk)
        if r is None or r.oid not in st.heap:
            r = self.x_lift(st, v)
            st.ghost[gk] = r
        return r
    return self.x_lift(st, v)


def x_lift(self, st, v):
    """Python constant (from the folder) -> abstract value."""
    if isinstance(v, list):
        return st.alloc(HObj("list", kind="list", items=[self.x_lift(st, x) for x in v]))
    if isinstance(v, dict):
        return st.alloc(HObj("dict", kind="dict", items=[(k, self.x_lift(st, x)) for k, x in v.items()]))
    if isinstance(v, set):
        return frozenset(v)
    if isinstance(v, tuple):
        return tuple(self.x_lift(st, x) for x in v)
    return v


def e_Tuple(self, st, node):
    return [(s, k, tuple(v) if k == "val" else v) for (s, k, v) in self.eval_list(st, node.elts)]


def e_List(self, st, node):
    res = []
    for (s, k, v) in self.eval_list(st, node.elts):
        if k == "val":
            res.append((s, "val", s.alloc(HObj("list", kind="list", items=list(v)))))
        else:
            res.append((s, k, v))
    return res


def e_Set(self, st, node):
    res = []
    for (s, k, v) in self.eval_list(st, node.elts):
        if k == "val":
            res.append((s, "val", s.alloc(HObj("set", kind="set", items=list(v)))))
        else:
            res.append((s, k, v))
    return res


def e_Dict(self, st, node):
    if any(k is None for k in node.keys):
        return [(st, "val", Top("dict**"))]
    res = []
    for (s, k, ks) in self.eval_list(st, node.keys):
        if k != "val":
            res.append((s, k, ks))
            continue
        for (s2, k2, vs) in self.eval_list(s, node.values):
            if k2 != "val":
                res.append((s2, k2, vs))
                continue
            res.append((s2, "val", s2.alloc(HObj("dict", kind="dict", items=list(zip(ks, vs))))))
    return res


def e_Lambda(self, st, node):
    return [(st, "val", self.make_closure(st, node, "<lambda>"))]


def e_IfExp(self, st, node):
    res = []
    for (s, k, v) in self.eval(st, node.test):
        if k != "val":
            res.append((s, k, v))
            continue
        for (s2, b) in self.truth(s, v, node.test):
            res.extend(self.eval(s2, node.body if b else node.orelse))
    return res


def e_ListComp(self, st, node):
    # supported: single generator over a concrete iterable; otherwise unknown list
    if len(node.generators) == 1 and not node.generators[0].is_async:
        gen = node.generators[0]
        outs = self.eval(st, gen.iter)
        if len(outs) == 1 and outs[0][1] == "val":
            s, _, it = outs[0]
            try:
                kind, seq = self.iter_values(s, it, node)
            except AnalysisError:
                kind = None
            if kind == "concrete" and len(seq) <= 40:
                acc = [(s, [])]
                for elem in seq:
                    nxt = []
                    for (s1, items) in acc:
                        a = self.assign(s1, gen.target, elem)
                        for (s2, k2, _) in a:
                            if k2 != "next":
                                continue
                            conds = [(s2, True)]
                            for c in gen.ifs:
                                nc = []
                                for (s3, ok) in conds:
                                    if not ok:
                                        nc.append((s3, False))
                                        continue
                                    for (s4, k4, v4) in self.eval(s3, c):
                                        if k4 != "val":
                                            continue
                                        nc.extend(self.truth(s4, v4, c))
                                conds = nc
                            for (s3, ok) in conds:
                                if not ok:
                                    nxt.append((s3, items))
                                    continue
                                for (s4, k4, v4) in self.eval(s3, node.elt):
                                    if k4 == "val":
                                        nxt.append((s4, items + [v4]))
                    acc = nxt
                return [(s1, "val", s1.alloc(HObj("list", kind="list", items=items))) for (s1, items) in acc]
    if getattr(self, "desugar_comprehensions", True) and not any(g.is_async for g in node.generators):
        return x_comprehend(self, st, node, "list")
    ref = st.alloc(HObj("list", kind="list", items=None))
    st.wobj(ref).base = "comp@%s" % getattr(node, "lineno", 0)
    return [(st, "val", ref)]


def _comp_loops(node, innermost):
    """for/if nest of a comprehension's generators around the statement list `innermost`"""
    body = innermost
    for gen in reversed(node.generators):
        for c in reversed(gen.ifs):
            body = [ast.If(test=c, body=body, orelse=[])]
        body = [ast.For(target=gen.target, iter=gen.iter, body=body, orelse=[])]
    mod = ast.Module(body=body, type_ignores=[])
    for n in ast.walk(mod):
        if not hasattr(n, "lineno"):
            ast.copy_location(n, node)
        if not hasattr(n, "end_lineno"):
            n.end_lineno = getattr(node, "end_lineno", getattr(node, "lineno", 0))
        if not hasattr(n, "col_offset"):
            n.col_offset = 0
            n.end_col_offset = 0
    return mod.body


def x_run_comprehension(self, st, node, stmts, result):
    """Run desugared comprehension statements in a scope of their own (the enclosing frame's names are visible, the loop
    variables do not leak).  result(state, kind, value, frame) -> outcome for 'next'/'return' exits."""
    frame = dict(st.frames[-1])
    st.frames.append(frame)
    res = []
    for (s, k, v) in self.exec_block(st, stmts):
        fr = s.frames.pop()
        if k == "raise":
            res.append((s, k, v))
        elif k in ("next", "return"):
            res.append(result(s, k, v, fr))
    return res


class _AbstractIteration(Exception):
    """raised by the loop machinery when a comprehension with an accumulator meets an abstract iterable"""


def x_comprehend(self, st, node, kind):
    cache = getattr(node, "_desugared", None)
    if cache is None:
        acc = ast.Name(id="@acc", ctx=ast.Load())
        if kind == "dict":
            inner = [ast.Assign(targets=[ast.Subscript(value=acc, slice=node.key, ctx=ast.Store())], value=node.value)]
        else:
            inner = [ast.Expr(value=ast.Call(func=ast.Attribute(value=acc, attr="append" if kind == "list" else "add", ctx=ast.Load()),
                                             args=[node.elt], keywords=[]))]
        cache = node._desugared = _comp_loops(node, inner)
    # exact only when every iterable is concrete: an accumulator that grows inside an abstract loop never reaches a fixpoint
    probe = st.fork()
    ref = probe.alloc(HObj(kind, kind=kind, items=[]))
    probe.frames[-1]["@acc"] = ref
    self._in_comprehension = getattr(self, "_in_comprehension", 0) + 1
    try:
        outs = x_run_comprehension(self, probe, node, cache, lambda s, k, v, fr: (s, "val", fr.get("@acc", ref)))
    except _AbstractIteration:
        outs = None
    finally:
        self._in_comprehension -= 1
    if outs is None:
        r2 = st.alloc(HObj(kind, kind=kind, items=None))
        if kind == "list":
            st.wobj(r2).base = "comp@%s" % getattr(node, "lineno", 0)
        return [(st, "val", r2)]
    for (s, k, v) in outs:
        s.frames[-1].pop("@acc", None)
    return outs


def x_any_all(self, st, node, genexp, is_any):
    """any(<generator expression>) / all(...): the loops with an early return at the first deciding element."""
    key = "_desugared_any" if is_any else "_desugared_all"
    cache = getattr(genexp, key, None)
    if cache is None:
        test = genexp.elt if is_any else ast.UnaryOp(op=ast.Not(), operand=genexp.elt)
        inner = [ast.If(test=test, body=[ast.Return(value=ast.Constant(value=is_any))], orelse=[])]
        cache = _comp_loops(genexp, inner)
        setattr(genexp, key, cache)
    return x_run_comprehension(self, st, genexp, cache,
                               lambda s, k, v, fr: (s, "val", v if k == "return" else (not is_any)))


def e_GeneratorExp(self, st, node):
    # evaluated eagerly like a list comprehension (sound when it is consumed completely and
    # its element expressions have no side effects the consumer depends on)
    if getattr(self, "eager_genexp", True):
        lz = _lazy_genexp(self, st, node)
        if lz is not None:
            return lz
        outs = []
        for (s, k, v) in e_ListComp(self, st, node):
            if k == "val" and isinstance(v, Ref) and s.obj(v).kind == "list" and s.obj(v).items is not None:
                # an iterator over the values (consumed once, always true, usable with next())
                v = s.alloc(HObj("iterator", {"@pos": 0}, kind="iterator", items=list(s.obj(v).items)))
            outs.append((s, k, v))
        return outs
    return [(st, "val", Top("genexp@%s" % getattr(node, "lineno", 0)))]


def _lazy_genexp(self, st, node):
    """(f(x) for x in <abstract sequence> [if p(x)]) as a lazy map/filter iterator over that sequence, so that the consuming
    loop sees one element at a time (laziness is observable there).  None for every other shape."""
    if len(node.generators) != 1 or node.generators[0].is_async or not isinstance(node.generators[0].target, ast.Name):
        return None
    gen = node.generators[0]
    probe = st.fork()
    outs = self.eval(probe, gen.iter)
    if len(outs) != 1 or outs[0][1] != "val" or not isinstance(outs[0][2], Ref):
        return None
    s, _, src = outs[0]
    o = s.obj(src)
    lazy_source = o.kind == "iterator" and o.items is None and ("@op" in o.fields or "@seq" in o.fields)
    if not ((o.kind == "list" and o.items is None and "@seq" in o.fields) or lazy_source):
        return None
    lams = getattr(node, "_lazy_lambdas", None)
    if lams is None:
        def lam(body):
            n = ast.Lambda(args=ast.arguments(posonlyargs=[], args=[ast.arg(arg=gen.target.id)], kwonlyargs=[], kw_defaults=[],
                                              defaults=[]), body=body)
            ast.copy_location(n, node)
            ast.fix_missing_locations(n)
            return n
        test = None
        if gen.ifs:
            test = gen.ifs[0] if len(gen.ifs) == 1 else ast.BoolOp(op=ast.And(), values=list(gen.ifs))
        lams = node._lazy_lambdas = (lam(test) if test is not None else None, lam(node.elt))
    from . import lazyiter
    cur = src
    if lams[0] is not None:
        cur = lazyiter.lazy(self, s, "filter", self.make_closure(s, lams[0], "<genexpr>"), [cur], node)
    cur = lazyiter.lazy(self, s, "map", self.make_closure(s, lams[1], "<genexpr>"), [cur], node)
    return [(s, "val", cur)]


def e_SetComp(self, st, node):
    outs = []
    for (s, k, v) in e_ListComp(self, st, node):
        if k != "val" or not isinstance(v, Ref) or s.obj(v).items is None:
            outs.append((s, k, v) if k != "val" else (s, "val", s.alloc(HObj("set", kind="set", items=None))))
            continue
        items = []
        for x in s.obj(v).items:
            if not any(_abscall._same_member(self, s, x, y) for y in items):
                items.append(x)
        outs.append((s, "val", s.alloc(HObj("set", kind="set", items=items))))
    return outs


def e_DictComp(self, st, node):
    return x_comprehend(self, st, node, "dict")


# ----------------------------------------------------------------------
# operators
# ----------------------------------------------------------------------
def e_BoolOp(self, st, node):
    is_and = isinstance(node.op, ast.And)
    results = []

    def step(s, i):
        for (s1, k, v) in self.eval(s, node.values[i]):
            if k != "val":
                results.append((s1, k, v))
                continue
            if i == len(node.values) - 1:
                results.append((s1, "val", v))
                continue
            for (s2, b) in self.truth(s1, v, node.values[i]):
                if b != is_and:
                    # short-circuit: the value itself is the result
                    vv = v
                    if isinstance(v, Top):
                        vv = b if v.tag.startswith("bool:") else Top(v.tag, v.input, None, v.origin, truth=b)
                    results.append((s2, "val", vv))
                else:
                    step(s2, i + 1)
    step(st, 0)
    return results


def e_UnaryOp(self, st, node):
    res = []
    for (s, k, v) in self.eval(st, node.operand):
        if k != "val":
            res.append((s, k, v))
            continue
        if isinstance(node.op, ast.Not):
            for (s2, b) in self.truth(s, v, node.operand):
                res.append((s2, "val", not b))
        elif isinstance(node.op, ast.USub) and isinstance(v, (int, float)) and not isinstance(v, bool):
            res.append((s, "val", -v))
        else:
            res.append((s, "val", Top("unary", isinstance(v, Top) and v.input)))
    return res


def x_add(a, b):
    """Saturating addition on small naturals."""
    def nat(x):
        return (isinstance(x, int) and not isinstance(x, bool) and x >= 0) or x is GE2
    if nat(a) and nat(b):
        if a is GE2 or b is GE2:
            return GE2
        r = a + b
        return r if r < 2 else (GE2 if (a and b) or r > 2 else r)
    return None


def e_BinOp(self, st, node):
    res = []
    for (s, k, vals) in self.eval_list(st, [node.left, node.right]):
        if k != "val":
            res.append((s, k, vals))
            continue
        a, b = vals
        res.append((s, "val", self.x_binop(s, node.op, a, b, node)))
    return res


def x_binop(self, st, op, a, b, node):
    if isinstance(op, ast.Add):
        if isinstance(a, SymLen) and isinstance(b, int):
            r = x_add(a.added, b)
            if r is not None:
                return SymLen(a.base, r)
        r = x_add(a, b) if not (isinstance(a, int) and isinstance(b, int) and a + b <= 1) else a + b
        if isinstance(a, int) and isinstance(b, int) and not isinstance(a, bool) and not isinstance(b, bool):
            # exact small sums; saturate (default: from 2 upwards) so that counters in loops stay finite
            s = a + b
            sat = getattr(self, "int_sat", 2)
            if min(a, b) < 0 or s < sat:
                return s
            return GE2
        if r is not None:
            return r
        if isinstance(a, str) and isinstance(b, str):
            return a + b
        if isinstance(a, tuple) and isinstance(b, tuple):
            return a + b
        if isinstance(a, Ref) and isinstance(b, Ref):
            oa, ob = st.obj(a), st.obj(b)
            if oa.kind == "list" and ob.kind == "list" and oa.items is not None and ob.items is not None:
                return st.alloc(HObj("list", kind="list", items=list(oa.items) + list(ob.items)))
    if isinstance(op, ast.Mult) and isinstance(a, Ref) and isinstance(b, int) and not isinstance(b, bool):
        oa = st.obj(a)
        if oa.kind == "list" and oa.items is not None and 0 <= b <= 64:
            return st.alloc(HObj("list", kind="list", items=list(oa.items) * b))
    if isinstance(op, (ast.Sub, ast.BitOr, ast.BitAnd)) and isinstance(a, Ref) and isinstance(b, Ref):
        oa, ob = st.obj(a), st.obj(b)
        if oa.kind == "set" and ob.kind == "set" and oa.items is not None and ob.items is not None:
            def member(x, items_):
                return any(_abscall._same_member(self, st, x, y) for y in items_)
            if isinstance(op, ast.Sub):
                items = [x for x in oa.items if not member(x, ob.items)]
            elif isinstance(op, ast.BitAnd):
                items = [x for x in oa.items if member(x, ob.items)]
            else:
                items = list(oa.items) + [x for x in ob.items if not member(x, oa.items)]
            return st.alloc(HObj("set", kind="set", items=items))
    if isinstance(op, ast.Mod) and isinstance(a, str):
        b = x_strify(self, st, b)
        try:
            if _is_plain(b):
                return a % (b,) if not isinstance(b, tuple) else a % b
        except Exception:   # noqa
            pass
        return Top("strfmt", False)
    if isinstance(op, ast.Mult) and ((isinstance(a, str) and isinstance(b, int) and not isinstance(b, bool)) or
                                     (isinstance(b, str) and isinstance(a, int) and not isinstance(a, bool))):
        n_ = b if isinstance(a, str) else a
        if -1 <= n_ <= 10000:
            return a * b
    if isinstance(op, (ast.Sub, ast.Mult, ast.Div, ast.FloorDiv)) and all(
            isinstance(x, (int, float)) and not isinstance(x, bool) for x in (a, b)):
        try:
            if isinstance(op, ast.Sub):
                return a - b
            if isinstance(op, ast.Mult):
                return a * b
            if isinstance(op, ast.Div):
                return a / b
            return a // b
        except ZeroDivisionError:
            pass
    if isinstance(op, (ast.LShift, ast.RShift, ast.BitOr, ast.BitAnd, ast.BitXor, ast.Mod, ast.Pow)) and all(
            isinstance(x, int) and not isinstance(x, bool) for x in (a, b)) and getattr(self, "int_sat", 2) > 2:
        # exact integers (constant mode): the bit operations and % / ** of small operands
        try:
            if isinstance(op, ast.LShift) and 0 <= b <= 64:
                return a << b
            if isinstance(op, ast.RShift) and 0 <= b <= 64:
                return a >> b
            if isinstance(op, ast.BitOr):
                return a | b
            if isinstance(op, ast.BitAnd):
                return a & b
            if isinstance(op, ast.BitXor):
                return a ^ b
            if isinstance(op, ast.Mod) and b != 0:
                return a % b
            if isinstance(op, ast.Pow) and 0 <= b <= 64 and abs(a) <= 1 << 16:
                return a ** b
        except (ZeroDivisionError, OverflowError, ValueError):
            pass
    inp = any(isinstance(x, Top) and x.input for x in (a, b)) and not any(
        isinstance(x, Top) and not x.input for x in (a, b))
    return Top("binop:%s" % type(op).__name__, inp)


def x_strify(self, st, v):
    """objects of in-repo classes inside a %-format argument are replaced by the text their __str__ computes (when that
    is a constant), harness values with abs_str() by that text"""
    if isinstance(v, tuple):
        return tuple(x_strify(self, st, x) for x in v)
    if hasattr(v, "abs_str"):
        return v.abs_str()
    if isinstance(v, Ref):
        o = st.obj(v)
        if isinstance(o.cls, ClassInfo) and o.kind == "obj":
            m = o.cls.lookup("__str__")
            if m is not None:
                outs = self.call_function(st.fork(), m, [], {}, None, self_val=v)
                if len(outs) == 1 and outs[0][1] == "val" and isinstance(outs[0][2], str):
                    return outs[0][2]
    return v


def _is_plain(v):
    if isinstance(v, tuple):
        return all(_is_plain(x) for x in v)
    return isinstance(v, (str, int, float)) or v is None


def x_compare(self, st, op, a, b, node):
    """-> True | False | Top"""
    U_ = U(self)
    if isinstance(op, (ast.Is, ast.IsNot)):
        r = self.x_is(st, a, b)
        if isinstance(r, Top):
            return r
        return r if isinstance(op, ast.Is) else (not r)
    if isinstance(op, (ast.Eq, ast.NotEq)):
        r = self.x_eq(st, a, b)
        if isinstance(r, Top):
            return r
        return r if isinstance(op, ast.Eq) else (not r)
    if isinstance(op, (ast.In, ast.NotIn)):
        r = self.x_in(st, a, b, node)
        if isinstance(r, Top):
            return r
        return r if isinstance(op, ast.In) else (not r)
    # ordering
    r = self.x_order(st, op, a, b)
    return r


def x_is(self, st, a, b):
    if isinstance(a, Top) or isinstance(b, Top):
        t, o = (a, b) if isinstance(a, Top) else (b, a)
        if o is None and t.truth is True:
            return False
        if isinstance(o, Top):
            return Top("is", a.input and b.input)
        if o is None and not t.tag.startswith("bool:"):
            return Top("isnone:" + t.tag, t.input, None, t.origin)
        if isinstance(o, (Ref, EnumVal)) and t.truth is False:
            return False
        return Top("is:" + t.tag, t.input)
    if isinstance(a, Ref) or isinstance(b, Ref):
        return isinstance(a, Ref) and isinstance(b, Ref) and a.oid == b.oid
    if isinstance(a, EnumVal) or isinstance(b, EnumVal):
        return a == b
    if a is None or b is None:
        return a is None and b is None
    if isinstance(a, bool) or isinstance(b, bool):
        return a is b
    if isinstance(a, (ClassVal, FuncVal)) and isinstance(b, (ClassVal, FuncVal)):
        return vkey(a) == vkey(b)
    if isinstance(a, (int, str)) and isinstance(b, (int, str)):
        return a == b
    return vkey(a) == vkey(b)


def x_key_eq(self, st, k, key):
    """dict / set key identity: hash first.  An Enum member whose __eq__ accepts its name still hashes differently
    from the name string, so the two are different keys."""
    if (isinstance(k, EnumVal) and isinstance(key, str)) or (isinstance(key, EnumVal) and isinstance(k, str)):
        return False
    return self.x_eq(st, k, key)


def x_eq(self, st, a, b):
    if isinstance(a, Top) or isinstance(b, Top):
        t, o = (a, b) if isinstance(a, Top) else (b, a)
        inp = t.input and (not isinstance(o, Top) or o.input)
        return Top("eq:" + t.tag, inp)
    if isinstance(a, EnumVal) and isinstance(b, str):
        return a.name == b       # Status.__eq__ supports names
    if isinstance(b, EnumVal) and isinstance(a, str):
        return b.name == a
    if isinstance(a, EnumVal) or isinstance(b, EnumVal):
        return a == b
    if a is GE2 or b is GE2:
        o = b if a is GE2 else a
        if o is GE2:
            return Top("eq:ge2", False)
        if isinstance(o, int) and o < 2:
            return False
        return Top("eq:ge2", False)
    if isinstance(a, LenOf) or isinstance(b, LenOf):
        ln, o = (a, b) if isinstance(a, LenOf) else (b, a)
        return self.x_len_eq(st, ln, o)
    if isinstance(a, SymLen) or isinstance(b, SymLen):
        if isinstance(a, SymLen) and isinstance(b, SymLen) and a.base == b.base:
            if a.added is GE2 and b.added is GE2:
                return Top("eq:symlen", False)
            return a.added == b.added
        return Top("eq:symlen", True)
    if isinstance(a, Ref) and isinstance(b, Ref):
        if a.oid == b.oid:
            return True
        oa, ob = st.obj(a), st.obj(b)
        if isinstance(oa.cls, ClassInfo) and oa.kind == "obj":
            m = oa.cls.lookup("__eq__")
            if m is not None:
                outs = self.call_function(st.fork(), m, [b], {}, None, self_val=a)
                if len(outs) == 1 and outs[0][1] == "val" and isinstance(outs[0][2], bool):
                    return outs[0][2]
                return Top("eq:__eq__", False)
        if oa.kind == ob.kind and oa.kind in ("list", "set", "dict") and oa.items is not None and ob.items is not None:
            return vkey(oa.items) == vkey(ob.items)
        return Top("eq:objects", False)
    if isinstance(a, Ref) or isinstance(b, Ref):
        r, o = (a, b) if isinstance(a, Ref) else (b, a)
        ob = st.obj(r)
        if ob.kind == "list" and ob.items is not None and isinstance(o, (tuple, list)):
            return False if isinstance(o, tuple) else vkey(list(ob.items)) == vkey(list(o))
        if o is None or isinstance(o, (bool, int, str)) or (callable(o) and not isinstance(o, type)):
            return False
        if ob.kind == "closure":
            return False
        return Top("eq:obj", False)
    try:
        return a == b
    except Exception:   # noqa
        return Top("eq", False)


def x_len_eq(self, st, ln, other):
    """len(seq) == counter: decided from the loop's counter tracking."""
    facts = st.ghost.get("#len:" + ln.seq)
    if facts is None:
        return Top("eq:len", False)
    # which local holds `other`?  match by tracked names whose current value is `other`
    fr = st.frames[-1]
    for (name, rel) in facts:
        if name in fr and (fr[name] is other or fr[name] == other):
            cands = [n for (n, _) in facts if n in fr and (fr[n] is other or fr[n] == other)]
            rels = {r for (n, r) in facts if n in cands}
            if len(rels) == 1:
                return rel == "eq"
    return Top("eq:len", False)


def _set_items(st, v):
    """Members of a fully known set value (heap set or frozenset constant), else None."""
    if isinstance(v, frozenset):
        return list(v)
    if isinstance(v, Ref) and v.oid in st.heap:
        o = st.obj(v)
        if o.kind == "set" and o.items is not None and not any(isinstance(x, Top) for x in o.items):
            return list(o.items)
    return None


def x_order(self, st, op, a, b):
    def num(x):
        return isinstance(x, (int, float)) and not isinstance(x, bool)
    if num(a) and num(b):
        return {ast.Lt: a < b, ast.LtE: a <= b, ast.Gt: a > b, ast.GtE: a >= b}[type(op)]
    if a is GE2 and num(b):
        if b <= 1:
            return isinstance(op, (ast.Gt, ast.GtE))
        if b == 2:
            if isinstance(op, ast.GtE):
                return True
            if isinstance(op, ast.Lt):
                return False
        return Top("order:ge2", False)
    if b is GE2 and num(a):
        flip = {ast.Lt: ast.Gt, ast.LtE: ast.GtE, ast.Gt: ast.Lt, ast.GtE: ast.LtE}[type(op)]()
        return self.x_order(st, flip, b, a)
    if isinstance(a, SymLen) and isinstance(b, SymLen) and a.base == b.base:
        x, y = a.added, b.added
        if x is GE2 and y is GE2:
            return Top("order:symlen", False)
        if x is GE2:
            return isinstance(op, (ast.Gt, ast.GtE))
        if y is GE2:
            return isinstance(op, (ast.Lt, ast.LtE))
        return {ast.Lt: x < y, ast.LtE: x <= y, ast.Gt: x > y, ast.GtE: x >= y}[type(op)]
    if isinstance(a, SymLen) and num(b) and b == 0:
        if a.added in (1, GE2):
            return isinstance(op, (ast.Gt, ast.GtE))
        if isinstance(op, ast.GtE):
            return True
        if isinstance(op, ast.Lt):
            return False
        return Top("len>0:" + str(a.base), True)
    if isinstance(a, str) and isinstance(b, str):
        return {ast.Lt: a < b, ast.LtE: a <= b, ast.Gt: a > b, ast.GtE: a >= b}[type(op)]
    sa_, sb_ = _set_items(st, a), _set_items(st, b)
    if sa_ is not None and sb_ is not None:
        sub = _abscall.set_relation(self, st, "issubset", sa_, sb_)
        sup = _abscall.set_relation(self, st, "issuperset", sa_, sb_)
        return {ast.Lt: sub and not sup, ast.LtE: sub, ast.Gt: sup and not sub, ast.GtE: sup}[type(op)]
    inp = all((not isinstance(x, Top)) or x.input for x in (a, b)) and any(isinstance(x, Top) for x in (a, b))
    return Top("order", inp)


def x_in(self, st, a, b, node):
    if hasattr(b, "abs_contains_in"):
        return b.abs_contains_in(st, a)
    if hasattr(b, "abs_contains"):
        r = b.abs_contains(a)
        if r is not None:
            return r
        return Top("in:" + repr(b), True)
    if isinstance(b, Ref):
        o = st.obj(b)
        if o.kind == "set" and o.items is not None and isinstance(a, Ref):
            return any(_abscall._same_member(self, st, a, x) for x in o.items)
        if o.kind in ("list", "set") and o.items is not None:
            b = tuple(o.items)
        elif o.kind == "dict" and o.items is not None:
            if isinstance(a, Top):
                return Top("in:" + a.tag, a.input)
            unknown = False
            for k, _ in o.items:
                r = self.x_key_eq(st, k, a)
                if r is True:
                    return True
                if isinstance(r, Top):
                    unknown = r
            return unknown if unknown else False
        elif o.kind == "dict":
            if ("k", vkey(a)) in o.fields:
                return True
            return Top("in:dict", o.open)
        else:
            hook = self.stubs.get((o.clsname() or "") + ".__contains__")
            if hook is not None:
                return hook(self, st, b, a, node)
            if isinstance(o.cls, ClassInfo):
                m = o.cls.lookup("__contains__")
                if m is not None:
                    outs = self.call_function(st.fork(), m, [a], {}, node, self_val=b)
                    if len(outs) == 1 and outs[0][1] == "val" and isinstance(outs[0][2], bool):
                        return outs[0][2]
                    return Top("in:__contains__", False)
            return Top("in:obj", o.open)
    if isinstance(b, (tuple, frozenset, list, set)):
        if isinstance(a, Top):
            return Top("in:" + a.tag, a.input)
        unknown = False
        for x in b:
            r = self.x_eq(st, a, x)
            if r is True:
                return True
            if isinstance(r, Top):
                unknown = r
        return unknown if unknown else False
    if isinstance(b, str) and isinstance(a, str):
        return a in b
    if isinstance(b, Top):
        return Top("in:" + b.tag, b.input and (not isinstance(a, Top) or a.input))
    if isinstance(a, Top):
        return Top("in:" + a.tag, a.input)
    if isinstance(b, str):
        return Top("in:str", False)
    raise U(self)("'in' on %r at %s" % (b, self.loc(node)))


def e_Compare(self, st, node):
    res = []
    operands = [node.left] + list(node.comparators)
    for (s, k, vals) in self.eval_list(st, operands):
        if k != "val":
            res.append((s, k, vals))
            continue
        # chain: all pairwise must hold
        states = [(s, True)]
        for i, op in enumerate(node.ops):
            nxt = []
            for (s1, acc) in states:
                if acc is False:
                    nxt.append((s1, False))
                    continue
                a, b = vals[i], vals[i + 1]
                # enum __eq__/__contains__ aside, concretize finite-domain unknowns first
                pend = [(s1, a, b)]
                for which in (0, 1):
                    np_ = []
                    for (s2, a2, b2) in pend:
                        v = (a2, b2)[which]
                        if isinstance(v, Top) and v.domain is not None:
                            for (s3, c) in self.concretize(s2, v, node):
                                np_.append((s3, c, b2) if which == 0 else (s3, a2, c))
                        else:
                            np_.append((s2, a2, b2))
                    pend = np_
                for (s2, a2, b2) in pend:
                    r = None
                    if isinstance(op, (ast.Eq, ast.NotEq)) and (isinstance(a2, LenOf) or isinstance(b2, LenOf)):
                        ln, other_node = (a2, operands[i + 1]) if isinstance(a2, LenOf) else (b2, operands[i])
                        if isinstance(other_node, ast.Name):
                            facts = dict(s2.ghost.get("#len:" + ln.seq) or ())
                            if other_node.id in facts:
                                r = facts[other_node.id] == "eq"
                                if isinstance(op, ast.NotEq):
                                    r = not r
                    if r is None:
                        r = self.x_compare(s2, op, a2, b2, node)
                    if isinstance(r, Top):
                        if len(node.ops) == 1:
                            nxt.append((s2, r))
                        else:
                            for (s3, bb) in self.truth(s2, r, node):
                                nxt.append((s3, acc and bb))
                    else:
                        nxt.append((s2, (acc and r) if not isinstance(acc, Top) else acc))
            states = nxt
        res.extend((s1, "val", acc) for (s1, acc) in states)
    return res


# ----------------------------------------------------------------------
# attribute access
# ----------------------------------------------------------------------
def _wrapped_function(self, lc, owner):
    """class-level `name = staticmethod(f)` / `classmethod(f)` / `name = f` with f a function of the module or the class"""
    ci, node = lc[0], lc[1]
    kind = None
    if isinstance(node, ast.Call) and isinstance(node.func, ast.Name) and node.func.id in ("staticmethod", "classmethod") \
            and len(node.args) == 1 and not node.keywords:
        kind, node = node.func.id, node.args[0]
    if not isinstance(node, ast.Name):
        return None
    f = ci.methods.get(node.id) or ci.module.functions.get(node.id)
    if f is None:
        return None
    if kind == "classmethod":
        return BoundMeth(owner if isinstance(owner, ClassVal) else ClassVal(ci), f)
    if kind == "staticmethod":
        return FuncVal(f)
    return None


def e_Attribute(self, st, node):
    res = []
    for (s, k, base) in self.eval(st, node.value):
        if k != "val":
            res.append((s, k, base))
            continue
        res.extend(self.get_attr(s, base, node.attr, node))
    return res


def get_attr(self, st, base, attr, node, default=KeyError):
    """-> outcomes.  ``default`` != KeyError: value for a missing attribute (getattr with default)."""
    U_ = U(self)
    if isinstance(base, Top) and base.domain is not None:
        res = []
        for (s2, c) in self.concretize(st, base, node):
            res.extend(self.get_attr(s2, c, attr, node, default))
        return res
    if isinstance(base, Ref):
        o = st.obj(base)
        if attr in o.fields:
            v = o.fields[attr]
            if isinstance(v, Top) and v.domain is not None:
                # finite-domain unknown: decide it at the first read (no stale aliases)
                if v.origin is None:
                    v = Top(v.tag, v.input, v.domain, ("field", base.oid, attr), v.truth)
                return [(s2, "val", c) for (s2, c) in self.concretize(st, v, node)]
            return [(st, "val", v)]
        if o.kind in ("list", "dict", "set"):
            if isinstance(o.cls, ClassInfo):
                m = o.cls.lookup(attr)
                if m is not None and m.kind == "method":
                    return [(st, "val", BoundMeth(base, m))]
                if m is not None and m.kind == "property":
                    return self.call_function(st, m, [], {}, node, self_val=base)
            return [(st, "val", BoundMeth(base, None, attr))]
        if attr == "__class__":
            return [(st, "val", ClassVal(o.cls))]
        if attr == "__dict__":
            from .values import ObjDict
            return [(st, "val", ObjDict(base))]
        if isinstance(o.cls, ClassInfo):
            for c in o.cls.mro():
                if isinstance(c, ClassInfo) and (c.name + "." + attr) in self.attr_stubs:
                    return self.attr_stubs[c.name + "." + attr](self, st, base, node)
            hook = self.stubs.get(o.cls.name + ".__getattr__")
            m = o.cls.lookup(attr)
            if m is not None:
                if m.kind == "property":
                    return self.call_function(st, m, [], {}, node, self_val=base)
                if m.kind == "staticmethod":
                    return [(st, "val", FuncVal(m))]
                if m.kind == "classmethod":
                    return [(st, "val", BoundMeth(ClassVal(o.cls), m))]
                return [(st, "val", BoundMeth(base, m))]
            for anc in o.cls.mro():
                ck = "@c:%s.%s" % (getattr(anc, "name", anc), attr)
                if ck in st.ghost:
                    return [(st, "val", st.ghost[ck])]       # a class attribute written at run time
            lc = o.cls.lookup_const(attr)
            if lc is not None:
                wf = _wrapped_function(self, lc, ClassVal(o.cls))
                if wf is not None:
                    return [(st, "val", wf)]
                try:
                    return [(st, "val", self.x_const(st, "%s.%s" % (lc[0].fullname, attr), self.ix.fold(lc[1], lc[0].module)))]
                except NotConst:
                    rv = _abscall.fold_regex_const(self, lc[1], lc[0].module)
                    if rv is not KeyError:
                        return [(st, "val", rv)]
                    rv = x_module_table(self, st, lc[1], lc[0].module, ci=lc[0])       # class-level dispatch table
                    if rv is not KeyError:
                        return [(st, "val", rv)]
                    rv = x_eval_module_expr(self, st, lc[1], lc[0].module, ci=lc[0])
                    if rv is not KeyError:
                        return [(st, "val", rv)]
                    return [(st, "val", Top("classconst:" + attr))]
            if hook is not None:
                return hook(self, st, [base, attr, default], {}, node)
            ga = o.cls.lookup("__getattr__")
            if ga is not None and not attr.startswith("__"):
                res = []
                for (s2, k2, v2) in self.call_function(st, ga, [attr], {}, node, self_val=base):
                    if k2 == "raise" and default is not KeyError and v2.clsname() == "AttributeError":
                        res.append((s2, "val", default))
                    else:
                        res.append((s2, k2, v2))
                return res
        if (o.clsname() or "") + "." + attr in self.attr_stubs:
            return self.attr_stubs[(o.clsname() or "") + "." + attr](self, st, base, node)
        if (o.clsname() or "") + "." + attr in self.stubs:
            return [(st, "val", BoundMeth(base, None, attr))]
        if o.open:
            dom = o.field_domains.get(attr)
            tag = ("bool:" if dom == "bool" else "") + "%s.%s" % (o.label or o.clsname() or "obj", attr)
            if dom == "bool":
                dom = (False, True)
            v = Top(tag, True, dom, ("field", base.oid, attr))
            o = st.wobj(base)
            o.fields[attr] = v
            if dom is not None:
                return [(s2, "val", c) for (s2, c) in self.concretize(st, v, node)]
            return [(st, "val", v)]
        # a stubbed method name on a class-less object?
        if (o.clsname() or "") + "." + attr in self.stubs:
            return [(st, "val", BoundMeth(base, None, attr))]
        if default is not KeyError:
            return [(st, "val", default)]
        if o.synthetic:
            # an object made up by the analysis harness: its field set proves nothing about the program
            raise U_("the analysis harness' %s token (%s) has no attribute %r (read at %s): the code under analysis uses "
                     "something the harness does not model" % (o.clsname(), o.label, attr, self.loc(node)))
        return self.raise_exc(st, "AttributeError", node, "missing-attr",
                              "%s object has no attribute %s" % (o.clsname(), attr))
    if base is None:
        if attr == "__class__":
            return [(st, "val", ClassVal("NoneType"))]
        if default is not KeyError:
            return [(st, "val", default)]
        return self.raise_exc(st, "AttributeError", node, "none-attr", "None.%s" % attr)
    if isinstance(base, Top):
        if base.truth is False:
            if default is not KeyError:
                return [(st, "val", default)]
            return self.raise_exc(st, "AttributeError", node, "none-attr", "%s.%s on falsy value" % (base.tag, attr))
        return [(st, "val", Top(base.tag + "." + attr, base.input))]
    if isinstance(base, EnumVal):
        if attr == "name":
            return [(st, "val", base.name)]
        if attr == "value":
            return [(st, "val", base.value)]
        ci = self.ix.cls(base.cls)
        m = ci.lookup(attr)
        if m is not None:
            if m.kind == "property":
                return self.call_function(st, m, [], {}, node, self_val=base)
            return [(st, "val", BoundMeth(base, m))]
        if attr == "__class__":
            return [(st, "val", ClassVal(ci))]
        if attr in ci.class_consts and not attr.startswith("_"):
            a2 = _enum_canonical(ci, attr)
            return [(st, "val", EnumVal(ci.name, a2, ci.enum_members.get(a2)))]
        fv = _enum_init_field(self, st, ci, base, attr)
        if fv is not KeyError:
            return [(st, "val", fv)]
        raise U_("enum attribute %s.%s" % (base, attr))
    if isinstance(base, ClassVal):
        ci = base.cls
        ck = "@c:%s.%s" % (base.name(), attr)
        if ck in st.ghost:
            return [(st, "val", st.ghost[ck])]
        if isinstance(ci, ClassInfo):
            for anc in ci.mro()[1:]:
                ck2 = "@c:%s.%s" % (getattr(anc, "name", anc), attr)
                if ck2 in st.ghost:
                    return [(st, "val", st.ghost[ck2])]
        if not isinstance(ci, ClassInfo) and attr in ("__name__", "__qualname__"):
            return [(st, "val", base.name())]
        if isinstance(ci, ClassInfo):
            if ci.is_enum and attr in ci.class_consts:
                attr = _enum_canonical(ci, attr)
                return [(st, "val", EnumVal(ci.name, attr, ci.enum_members.get(attr)))]
            if attr == "__name__":
                return [(st, "val", ci.name)]
            m = ci.lookup(attr)
            if m is not None:
                if m.kind == "classmethod":
                    return [(st, "val", BoundMeth(base, m))]
                return [(st, "val", FuncVal(m))]
            if attr == "__init__":
                return [(st, "val", Builtin("noop"))]
            lc = ci.lookup_const(attr)
            if lc is not None:
                wf = _wrapped_function(self, lc, base)
                if wf is not None:
                    return [(st, "val", wf)]
                try:
                    return [(st, "val", self.x_const(st, "%s.%s" % (lc[0].fullname, attr), self.ix.fold(lc[1], lc[0].module)))]
                except NotConst:
                    rv = _abscall.fold_regex_const(self, lc[1], lc[0].module)
                    if rv is not KeyError:
                        return [(st, "val", rv)]
                    rv = x_module_table(self, st, lc[1], lc[0].module, ci=lc[0])       # class-level dispatch table
                    if rv is not KeyError:
                        return [(st, "val", rv)]
                    rv = x_eval_module_expr(self, st, lc[1], lc[0].module, ci=lc[0])
                    if rv is not KeyError:
                        return [(st, "val", rv)]
                    return [(st, "val", Top("classconst:" + attr))]
            if attr == "__members__" and ci.is_enum:
                return [(st, "val", st.alloc(HObj("dict", kind="dict", items=[
                    (n, EnumVal(ci.name, n, v)) for n, v in ci.enum_members.items()])))]
            if ci.name + "." + attr in self.stubs:
                return [(st, "val", BoundMeth(base, None, attr))]
            if default is not KeyError:
                return [(st, "val", default)]
            if all(isinstance(c, ClassInfo) or str(c).split(".")[-1] in ("object", "Enum", "IntEnum") for c in ci.mro()):
                # every base is known: the class really has no such attribute
                return self.raise_exc(st, "AttributeError", node, "class-attr", "type object %r has no attribute %r" % (ci.name, attr))
            raise U_("class attribute %s.%s at %s" % (ci.name, attr, self.loc(node)))
        if attr == "__name__":
            return [(st, "val", base.name())]
        return [(st, "val", Top("%s.%s" % (base.name(), attr)))]
    if isinstance(base, ModuleVal):
        gk = "@g:%s.%s" % (base.mod.name if isinstance(base.mod, Module) else base.mod, attr)
        if gk in st.ghost:
            return [(st, "val", st.ghost[gk])]
        if isinstance(base.mod, Module):
            ov = getattr(self, "module_attrs", {}).get((base.mod.name, attr))
            if ov is not None:
                return [(st, "val", ov)]
            r = self.ix.resolve_name(base.mod, attr)
            if r is None:
                raise U_("module attribute %s.%s" % (base.mod.name, attr))
            return [(st, "val", self.x_resolved(st, r, attr))]
        dn = base.mod + "." + attr
        if base.mod == "string" and attr in ("ascii_letters", "ascii_lowercase", "ascii_uppercase", "digits", "hexdigits", "octdigits",
                                             "punctuation", "whitespace", "printable"):
            import string as _string
            return [(st, "val", getattr(_string, attr))]
        if base.mod == "logging" and getattr(self, "int_sat", 2) > 2:
            import logging as _logging
            if attr in ("NOTSET", "DEBUG", "INFO", "WARN", "WARNING", "ERROR", "CRITICAL", "FATAL"):
                return [(st, "val", getattr(_logging, attr))]
            if default is not KeyError and not hasattr(_logging, attr):
                return [(st, "val", default)]        # the stdlib module has no such attribute
        if dn in ("six.PY2",):
            return [(st, "val", False)]
        if dn in ("six.PY3",):
            return [(st, "val", True)]
        if dn in ("six.string_types",):
            return [(st, "val", (ClassVal("str"),))]
        if dn in ("six.text_type",):
            return [(st, "val", ClassVal("str"))]
        if dn in ("six.binary_type",):
            return [(st, "val", ClassVal("bytes"))]
        if dn in ("six.integer_types",):
            return [(st, "val", (ClassVal("int"),))]
        if dn == "sys.maxunicode":
            return [(st, "val", 0x10FFFF)]
        if dn == "sys.maxsize" and getattr(self, "int_sat", 2) > 2:
            import sys as _sys
            return [(st, "val", _sys.maxsize)]
        return [(st, "val", ModuleVal(dn))]
    if isinstance(base, SuperVal):
        mro = base.self_val_cls_mro if hasattr(base, "self_val_cls_mro") else None
        scls = self.x_class_of(st, base.self_val)
        chain = scls.mro() if isinstance(scls, ClassInfo) else []
        if base.cls in chain:
            chain = chain[chain.index(base.cls) + 1:]
        for c in chain:
            if isinstance(c, ClassInfo) and attr in c.methods:
                return [(st, "val", BoundMeth(base.self_val, c.methods[attr]))]
        if attr == "__init__":
            return [(st, "val", Builtin("noop"))]
        return [(st, "val", BoundMeth(base.self_val, None, "super." + attr))]
    if hasattr(base, "abs_getattr"):
        r = base.abs_getattr(self, st, attr)
        if r is not KeyError:
            return [(st, "val", r)]
    if isinstance(base, (str, tuple, frozenset, int, float, bytes)) or hasattr(base, "abs_call"):
        return [(st, "val", BoundMeth(base, None, attr))]
    if isinstance(base, BoundMeth) or isinstance(base, FuncVal):
        if attr in ("__name__",):
            return [(st, "val", base.name if isinstance(base, BoundMeth) else base.func.name)]
        return [(st, "val", Top("funcattr:" + attr))]
    if isinstance(base, (LenOf, SymLen, AbsSeq)) or base is GE2:
        return [(st, "val", Top("attr:" + attr))]
    if isinstance(base, Exc):
        return [(st, "val", Top("exc." + attr, True))]
    if callable(base) and not isinstance(base, type) and getattr(base, "__name__", None):
        # a harness-provided callable standing for a user function: it has no attributes beyond its name
        if attr == "__name__":
            return [(st, "val", base.__name__)]
        if default is not KeyError:
            return [(st, "val", default)]
        return self.raise_exc(st, "AttributeError", node, "missing-attr", "function object has no attribute %s" % attr)
    if isinstance(base, Builtin) and base.name == "dict" and attr == "fromkeys":
        from .values import PyFn
        return [(st, "val", PyFn("dict.fromkeys", ()))]
    raise U_("attribute %s on %r at %s" % (attr, base, self.loc(node)))


def _enum_canonical(ci, attr):
    """NAME = OTHER_MEMBER inside an Enum body is an alias of OTHER_MEMBER"""
    seen = set()
    while attr not in seen:
        seen.add(attr)
        v = ci.class_consts.get(attr)
        if isinstance(v, ast.Name) and v.id in ci.class_consts:
            attr = v.id
        else:
            break
    return attr


def _enum_init_field(self, st, ci, member, attr):
    """member.<attr> where the Enum's __init__ stores its value tuple: self.<attr> = <param>"""
    init = ci.lookup("__init__")
    vnode = ci.class_consts.get(_enum_canonical(ci, member.name))
    if init is None or vnode is None:
        return KeyError
    params = [a.arg for a in init.node.args.args[1:]]
    elts = list(vnode.elts) if isinstance(vnode, ast.Tuple) else [vnode]
    if len(elts) != len(params):
        return KeyError
    me = init.node.args.args[0].arg
    for n in ast.walk(init.node):
        if isinstance(n, ast.Assign) and len(n.targets) == 1 and isinstance(n.targets[0], ast.Attribute) and \
                isinstance(n.targets[0].value, ast.Name) and n.targets[0].value.id == me and n.targets[0].attr == attr and \
                isinstance(n.value, ast.Name) and n.value.id in params:
            e = elts[params.index(n.value.id)]
            if isinstance(e, ast.Name):
                return self.x_global(st, ci.module, e.id, e)
            try:
                return self.x_lift(st, self.ix.fold(e, ci.module))
            except NotConst:
                return Top("enum-field:" + attr)
    return KeyError


def x_class_of(self, st, v):
    if isinstance(v, Ref):
        return st.obj(v).cls
    if isinstance(v, EnumVal):
        return self.ix.cls(v.cls)
    if isinstance(v, ClassVal):
        return v.cls
    return None


def e_Subscript(self, st, node):
    res = []
    for (s, k, base) in self.eval(st, node.value):
        if k != "val":
            res.append((s, k, base))
            continue
        if isinstance(node.slice, ast.Slice):
            res.append((s, "val", self.x_slice(s, base, node)))
            continue
        for (s2, k2, idx) in self.eval(s, node.slice):
            if k2 != "val":
                res.append((s2, k2, idx))
                continue
            res.extend(self.get_item(s2, base, idx, node))
    return res


def x_slice(self, st, base, node):
    if hasattr(base, "abs_item"):
        return base.abs_item(self, st, "slice", node)
    sl = node.slice
    def cv(e):
        if e is None:
            return None
        outs = self.eval(st, e)
        if len(outs) == 1 and outs[0][1] == "val" and isinstance(outs[0][2], int):
            return outs[0][2]
        return KeyError
    lo, hi, stp = cv(sl.lower), cv(sl.upper), cv(sl.step)
    if KeyError not in (lo, hi, stp):
        if isinstance(base, (str, tuple)):
            return base[lo:hi:stp]
        if isinstance(base, Ref):
            o = st.obj(base)
            if o.kind == "list" and o.items is not None:
                return st.alloc(HObj("list", kind="list", items=list(o.items[lo:hi:stp])))
    if isinstance(base, Top):
        return Top(base.tag + "[:]", base.input)
    return Top("slice", False)


def get_item(self, st, base, idx, node):
    if isinstance(base, Ref):
        o = st.obj(base)
        if o.kind == "dict":
            if o.items is not None:
                for k, v in o.items:
                    r = self.x_key_eq(st, k, idx)
                    if r is True:
                        return [(st, "val", v)]
                if isinstance(idx, Top):
                    return [(st, "val", Top("dict[%s]" % idx.tag, idx.input))]
                factory = o.fields.get("@default_factory")
                if factory is not None:
                    # collections.defaultdict: the missing value is made, stored and returned
                    res = []
                    for (s2, k2, v2) in _abscall.apply(self, st, factory, [], {}, node):
                        if k2 == "val":
                            w = s2.wobj(base)
                            w.items = list(w.items) + [(idx, v2)]
                        res.append((s2, k2, v2))
                    return res
                return self.raise_exc(st, "KeyError", node, "key", "missing key %r" % (idx,))
            kk = ("k", vkey(idx))
            if kk in o.fields:
                return [(st, "val", o.fields[kk])]
            return [(st, "val", Top("dict[]", o.open))]
        if o.kind == "list":
            if o.items is not None:
                if isinstance(idx, bool):
                    idx = int(idx)          # seq[True] is seq[1]
                if isinstance(idx, int):
                    if -len(o.items) <= idx < len(o.items):
                        return [(st, "val", o.items[idx])]
                    return self.raise_exc(st, "IndexError", node, "index", "index %d of list of %d" % (idx, len(o.items)))
                return [(st, "val", Top("list[?]", False))]
            n = self.abs_len(st, base)
            if n == 0:
                return self.raise_exc(st, "IndexError", node, "index", "index into empty list")
            if isinstance(n, SymLen) and n.added == 0 and o.base == "split":
                # possibly empty (e.g. str.split() of unknown text): both outcomes
                s2 = st.fork()
                s2.note("%s: the list may be empty here" % self.loc(node))
                empty = self.raise_exc(s2, "IndexError", node, "index", "index into a possibly empty list (%s)" % (o.label or "list"))
                w = st.wobj(base)
                w.count = 1
                elem = w.fields.get("@elem")
                if callable(elem) and not isinstance(elem, type):
                    elem = elem(st)
                return empty + [(st, "val", elem if elem is not None else Top("list[]", o.open))]
            elem = o.fields.get("@elem")
            if callable(elem) and not isinstance(elem, type):
                elem = elem(st)
            return [(st, "val", elem if elem is not None else Top("list[]", o.open))]
        if isinstance(o.cls, ClassInfo):
            m = o.cls.lookup("__getitem__")
            if m is not None:
                return self.call_function(st, m, [idx], {}, node, self_val=base)
        key = (o.clsname() or "") + ".__getitem__"
        if key in self.stubs:
            return self.stubs[key](self, st, [base, idx], {}, node)
        return [(st, "val", Top("obj[]", o.open))]
    if isinstance(base, (tuple, str)):
        if isinstance(idx, bool):
            idx = int(idx)
        if isinstance(idx, int):
            if -len(base) <= idx < len(base):
                return [(st, "val", base[idx])]
            return self.raise_exc(st, "IndexError", node, "index", "index %d out of range" % idx)
        return [(st, "val", Top("tuple[?]", False))]
    if isinstance(base, Top):
        return [(st, "val", Top(base.tag + "[]", base.input))]
    if hasattr(base, "abs_item"):
        return [(st, "val", base.abs_item(self, st, idx, node))]
    if isinstance(base, ModuleVal) or isinstance(base, ClassVal):
        return [(st, "val", Top("ext[]", False))]
    raise U(self)("subscript on %r at %s" % (base, self.loc(node)))


def e_Starred(self, st, node):
    raise U(self)("starred expression at %s" % self.loc(node))


def e_Yield(self, st, node):
    handlers = getattr(self, "_yield_handlers", None)
    handler = handlers[-1] if handlers else None
    if handler is None and not getattr(self, "eager_generators", False):
        raise U(self)("yield at %s" % self.loc(node))
    res = []
    outs = self.eval(st, node.value) if node.value is not None else [(st, "val", None)]
    for (s, k, v) in outs:
        if k == "val" and handler is not None:
            res.extend(handler(s, v))       # the consumer's loop body runs here (sa.absint.loop_generator)
            continue
        if k == "val":
            s.frames[-1]["@yield"] = tuple(s.frames[-1].get("@yield", ())) + (v,)
            res.append((s, "val", None))
        else:
            res.append((s, k, v))
    return res


def e_Await(self, st, node):
    raise U(self)("await at %s" % self.loc(node))


def e_NamedExpr(self, st, node):
    res = []
    for (s, k, v) in self.eval(st, node.value):
        if k == "val":
            s.frames[-1][node.target.id] = v
        res.append((s, k, v))
    return res


from . import abscall as _abscall     # noqa: E402


def e_Call(self, st, node):
    return _abscall.eval_call(self, st, node)
