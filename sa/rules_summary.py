# -*- coding: utf-8 -*-
"""C14 Summary conservation.

  Y1  status-keyed summary tables contain every status an element kind can end with
  Y2/Y3  both tree walkers (SummaryReporterV1.process_*, ModelVisitor/SummaryCollector)
      count every feature, rule, scenario (outline rows included) and step of a token
      tree exactly once under its status - also after empty containers
  Y5  the failing / errored scenario lists are exactly the failure / error-class ones
  Y6  the summary line formats iterate STATUS_ORDER over the same table; only the
      optional statuses may be hidden when zero
"""
from __future__ import annotations

import ast

from .index import AnalysisError, ClassInfo, EnumVal, unparse, NotConst
from .values import Top, HObj, Ref, Exc, State, ClassVal, GE2
from .absint import Interp
from .report import Finding
from .world import S
from . import oracle

WHAT = {
    "Y7": "every summary line format (v1, v1A, v1B, v2, v3) prints the counts of the summary it is given",
    "Y1": "status-keyed summary tables cover every status the element kind can end with (and STATUS_ORDER prints them)",
    "Y2": "tree walkers visit every feature/rule/scenario/outline row/step of a model tree exactly once, under its status",
    "Y5": "scenarios listed as failing / errored are exactly those with failure / error-class status",
    "Y6": "only optional statuses (never passed / failed) may be hidden from a summary line when their count is zero",
}


def _fail(chk, rule, fullname, file, line, witness, text, path=()):
    chk.fail(Finding(rule, fullname, witness, text, file=file, line=line, path=list(path)))


def build_tree(ix, st):
    """Feature F[ Scenario S0(no steps), Scenario S1(st1,st2), Rule R0(empty), Rule R1[ S2(st3), Outline O[rows O1(st4), O2(st5)] ], S3(st6) ]"""
    fc, rc, sc, oc, stc = (ix.cls("behave.model:" + n) for n in ("Feature", "Rule", "Scenario", "ScenarioOutline", "Step"))
    elems = {}

    def lst(items, label=None):
        return st.alloc(HObj("list", kind="list", items=list(items), label=label))

    def step(name, status):
        r = st.alloc(HObj(stc, {"status": S(status), "hook_failed": False, "name": name, "duration": 0}, label=name))
        elems[name] = ("step", status, r)
        return r

    def scenario(name, status, steps, title=None):
        r = st.alloc(HObj(sc, {"st": S(status), "steps": lst(steps), "background": None, "_background_steps": None,
                               "hook_failed": False, "name": title or name, "keyword": "Scenario", "location": name + ":1",
                               "_use_background": True}, label=name))
        elems[name] = ("scenario", status, r)
        return r

    s0 = scenario("S0", "skipped", [])
    s1 = scenario("S1", "passed", [step("st1", "passed"), step("st2", "pending_warn")])
    # S1 also runs one background step: it is part of the scenario (iteration), not of scenario.steps
    st.wobj(s1).fields["_background_steps"] = lst([step("bg1", "passed")], "S1 background steps")
    st.wobj(s1).fields["background"] = st.alloc(HObj("BackgroundTok", {"name": "bg"}, label="background"))
    s2 = scenario("S2", "failed", [step("st3", "failed")])
    o1 = scenario("O1", "error", [step("st4", "error")])
    o2 = scenario("O2", "hook_error", [step("st5", "hook_error")])
    s3 = scenario("S3", "untested", [step("st6", "untested"), step("st7", "undefined"), step("st8", "skipped")])
    # two more scenarios that carry the SAME title as S2 / O1 (another rule of the feature): equal by (keyword, name), different objects
    s2twin = scenario("S2-twin", "failed", [step("st9", "failed")], title="S2")
    o1twin = scenario("O1-twin", "error", [step("st10", "error")], title="O1")
    rows = lst([o1, o2], "outline rows")
    o = st.alloc(HObj(oc, {"st": S("error"), "_scenarios": lst([], "_scenarios (not built)"), "rows": rows, "steps": lst([]),
                           "background": None, "hook_failed": False, "name": "O", "_background_steps": None}, label="O"))
    # 'scenarios' are the direct children (an outline is ONE object there); 'run_items' is what runs, in order
    r0 = st.alloc(HObj(rc, {"st": S("skipped"), "run_items": lst([]), "scenarios": lst([]), "background": None,
                            "hook_failed": False, "name": "R0"}, label="R0"))
    r1 = st.alloc(HObj(rc, {"st": S("failed"), "run_items": lst([s2, o]), "scenarios": lst([s2, o]), "background": None,
                            "hook_failed": False, "name": "R1"}, label="R1"))
    r2 = st.alloc(HObj(rc, {"st": S("failed"), "run_items": lst([s2twin, o1twin]), "scenarios": lst([s2twin, o1twin]), "background": None,
                            "hook_failed": False, "name": "R2"}, label="R2"))
    elems["R2"] = ("rule", "failed", r2)
    f = st.alloc(HObj(fc, {"st": S("error"), "run_items": lst([s0, s1, r0, r1, s3, r2]), "scenarios": lst([s0, s1, s3]),
                           "rules": lst([r0, r1, r2]), "background": None, "hook_failed": False, "name": "F"}, label="F"))
    elems["R0"] = ("rule", "skipped", r0)
    elems["R1"] = ("rule", "failed", r1)
    elems["F"] = ("feature", "error", f)
    return f, elems


def _attr_stubs():
    return {
        "TagAndStatusStatement.status": lambda it, s, b, n: [(s, "val", s.obj(b).fields["st"])],
        "ScenarioOutline.scenarios": lambda it, s, b, n: [(s, "val", s.obj(b).fields["rows"])],
        "ScenarioContainer.duration": lambda it, s, b, n: [(s, "val", 0)],
        "Scenario.duration": lambda it, s, b, n: [(s, "val", 0)],
        "AbstractSummaryReporter.duration": lambda it, s, b, n: [(s, "val", 0)],
    }


def _expected(elems):
    want = {}
    for name, (kind, status, _) in elems.items():
        want.setdefault(kind, {}).setdefault(status, []).append(name)
    return want


def check_reporter_walk(chk, ix):
    for r in ("Y1", "Y2", "Y5"):
        chk.rule(r, WHAT[r])
    rc = ix.cls("behave.reporter.summary:SummaryReporterV1")
    stubs = {"@with": "transparent", "AbstractSummaryReporter.__init__": lambda it, s, a, k, n: [(s, "val", None)]}
    it = Interp(ix, stubs=stubs, attr_stubs=_attr_stubs(), name="SummaryReporterV1")
    it.list_cap = 64        # the count tables are built from lists of status names
    st = State()
    st.frames = []
    rep = st.alloc(HObj(rc, {"_failed_scenarios": st.alloc(HObj("list", kind="list", items=[])),
                             "_errored_scenarios": st.alloc(HObj("list", kind="list", items=[])), "_duration": 0}, label="reporter"))
    init = rc.methods.get("__init__")
    outs = it.call_function(st, init, [Top("config", True)], {}, None, self_val=rep)
    if len(outs) != 1 or outs[0][1] != "val":
        raise AnalysisError("SummaryReporterV1.__init__ not evaluable: %r" % ([(k, v) for _, k, v in outs][:2],))
    st = outs[0][0]
    tables = {}
    for kind, attr in (("feature", "feature_summary"), ("rule", "rule_summary"), ("scenario", "scenario_summary"), ("step", "step_summary")):
        v = st.obj(rep).fields.get(attr)
        if not isinstance(v, Ref) or st.obj(v).items is None:
            raise AnalysisError("SummaryReporterV1.%s is not a literal table" % attr)
        tables[kind] = v
        keys = {k for k, _ in st.obj(v).items}
        produced = oracle.STEP_STATUSES if kind == "step" else oracle.SCENARIO_STATUSES
        chk.instance("Y1")
        missing = [s for s in produced if s not in keys]
        if missing:
            _fail(chk, "Y1", init.fullname, init.file, init.lineno, "%s lacks %s" % (attr, ",".join(missing)),
                  "SummaryReporterV1.%s has no entry for status %s, which a %s can end with: counting it raises KeyError" % (attr, missing, kind))
        else:
            chk.ok("Y1", {"table": attr, "keys": sorted(keys)}, nontrivial_key=attr)
    f, elems = build_tree(ix, st)
    pf = rc.lookup("process_feature")
    outs = it.call_function(st, pf, [f], {}, None, self_val=rep)
    chk.absorb(it)
    chk.instance("Y2")
    bad = [o for o in outs if o[1] != "val"]
    if bad or len(outs) != 1:
        _fail(chk, "Y2", pf.fullname, pf.file, pf.lineno, "walk raises %s" % (bad[0][2].clsname() if bad else "?"),
              "the summary reporter's tree walk fails on a model tree with empty containers / every element kind: %r" % (bad[:1],),
              bad[0][0].path if bad else ())
        return
    s = outs[0][0]
    want = _expected(elems)
    for kind, tref in tables.items():
        got = {k: v for k, v in s.obj(tref).items if k != "all"}
        for status in sorted(set(got) | set(want.get(kind, {}))):
            n_want = len(want.get(kind, {}).get(status, []))
            n_got = got.get(status, 0)
            chk.instance("Y2")
            same = (n_got == n_want) or (n_want >= 2 and n_got is GE2) or (n_want == 2 and n_got == 2)
            if same:
                chk.ok("Y2", {"walker": "SummaryReporterV1", "kind": kind, "status": status, "count": n_want},
                       nontrivial_key=("rep", kind, status))
            else:
                _fail(chk, "Y2", pf.fullname, pf.file, pf.lineno, "%s %s: counted %r, tree has %d" % (kind, status, n_got, n_want),
                      "summary reporter counts %r %s(s) with status %s; the model tree has %d (%s)" % (
                          n_got, kind, status, n_want, want.get(kind, {}).get(status, [])))
    # Y5
    chk.instance("Y5")
    failed = [s.obj(x).label for x in s.obj(s.obj(rep).fields["_failed_scenarios"]).items]
    errored = [s.obj(x).label for x in s.obj(s.obj(rep).fields["_errored_scenarios"]).items]
    wf = [n for n, (k, stt, _) in elems.items() if k == "scenario" and stt in oracle.FAILURE]
    we = [n for n, (k, stt, _) in elems.items() if k == "scenario" and stt in oracle.ERROR_CLASS]
    if sorted(failed) == sorted(wf) and sorted(errored) == sorted(we):
        chk.ok("Y5", {"walker": "SummaryReporterV1", "failing": failed, "errored": errored}, nontrivial_key="rep lists")
    else:
        osc = rc.lookup("on_scenario")
        _fail(chk, "Y5", osc.fullname, osc.file, osc.lineno, "failing=%s errored=%s" % (failed, errored),
              "summary reporter lists failing=%s errored=%s; by status they are failing=%s errored=%s" % (failed, errored, wf, we))


def check_collector_walk(chk, ix):
    for r in ("Y2", "Y5"):
        chk.rule(r, WHAT[r])
    cc = ix.cls("behave.summary:SummaryCollector")
    counted = []

    def increment(it, s, a, k, n):
        kind = s.obj(a[0]).fields["kind"]
        v = a[1] if len(a) > 1 else k.get("status")
        counted.append((kind, v.name if isinstance(v, EnumVal) else repr(v)))
        return [(s, "val", None)]
    stubs = {"@with": "transparent", "CounterStub.increment": increment}
    it = Interp(ix, stubs=stubs, attr_stubs=_attr_stubs(), name="SummaryCollector")
    st = State()
    st.frames = []

    def lst():
        return st.alloc(HObj("list", kind="list", items=[]))
    counts = st.alloc(HObj("CountsStub", {k: st.alloc(HObj("CounterStub", {"kind": k[:-1] if k != "hook_errors" else "hook"}, label=k))
                                          for k in ("features", "rules", "scenarios", "steps", "hook_errors")}, label="summary_counts"))
    col = st.alloc(HObj(cc, {"summary_counts": counts, "duration": 0, "failed_features": lst(), "failed_scenarios": lst(),
                             "errored_features": lst(), "errored_scenarios": lst(), "visitor": None}, label="collector"))
    st.wobj(col).fields["visitor"] = col
    f, elems = build_tree(ix, st)
    vf = cc.lookup("visit_feature")
    outs = it.call_function(st, vf, [f], {}, None, self_val=col)
    chk.absorb(it)
    chk.instance("Y2")
    bad = [o for o in outs if o[1] != "val"]
    if bad or len(outs) != 1:
        _fail(chk, "Y2", vf.fullname, vf.file, vf.lineno, "walk raises", "the visitor walk fails: %r" % (bad[:1],))
        return
    s = outs[0][0]
    want = _expected(elems)
    got = {}
    for kind, status in counted:
        got.setdefault(kind, {}).setdefault(status, 0)
        got[kind][status] += 1
    for kind in ("feature", "rule", "scenario", "step"):
        for status in sorted(set(got.get(kind, {})) | set(want.get(kind, {}))):
            n_want = len(want.get(kind, {}).get(status, []))
            n_got = got.get(kind, {}).get(status, 0)
            chk.instance("Y2")
            if n_got == n_want:
                chk.ok("Y2", {"walker": "ModelVisitor+SummaryCollector", "kind": kind, "status": status, "count": n_want},
                       nontrivial_key=("col", kind, status))
            else:
                _fail(chk, "Y2", vf.fullname, vf.file, vf.lineno, "%s %s: counted %d, tree has %d" % (kind, status, n_got, n_want),
                      "summary collector counts %d %s(s) with status %s; the model tree has %d (%s) - elements after an "
                      "empty container / not-built outline rows are lost or counted twice" % (
                          n_got, kind, status, n_want, want.get(kind, {}).get(status, [])))
    chk.instance("Y5")
    failed = [s.obj(x).label for x in s.obj(s.obj(col).fields["failed_scenarios"]).items]
    errored = [s.obj(x).label for x in s.obj(s.obj(col).fields["errored_scenarios"]).items]
    wf = [n for n, (k, stt, _) in elems.items() if k == "scenario" and stt in oracle.FAILURE]
    we = [n for n, (k, stt, _) in elems.items() if k == "scenario" and stt in oracle.ERROR_CLASS]
    if sorted(failed) == sorted(wf) and sorted(errored) == sorted(we):
        chk.ok("Y5", {"walker": "SummaryCollector", "failing": failed, "errored": errored}, nontrivial_key="col lists")
    else:
        osc = cc.lookup("on_scenario")
        _fail(chk, "Y5", osc.fullname, osc.file, osc.lineno, "failing=%s errored=%s" % (failed, errored),
              "summary collector lists failing=%s errored=%s; by status they are failing=%s errored=%s" % (failed, errored, wf, we))


def check_tables_and_formats(chk, ix):
    chk.rule("Y1", WHAT["Y1"])
    chk.rule("Y6", WHAT["Y6"])
    sm = ix.module("behave.summary")
    rm = ix.module("behave.reporter.summary")
    try:
        order = ix.fold(sm.consts["STATUS_ORDER"], sm)
    except (KeyError, NotConst) as e:
        raise AnalysisError("behave.summary.STATUS_ORDER not a literal tuple: %s" % e)
    names = [m.name for m in order]
    produced = sorted(set(oracle.STEP_STATUSES) | set(oracle.SCENARIO_STATUSES))
    chk.instance("Y1")
    missing = [s for s in produced if s not in names]
    if missing:
        _fail(chk, "Y1", "behave.summary:STATUS_ORDER", sm.relpath, 1, "STATUS_ORDER lacks %s" % ",".join(missing),
              "STATUS_ORDER lacks %s: elements with that status are counted but never printed (the printed counts do not add up)" % missing)
    else:
        chk.ok("Y1", {"table": "STATUS_ORDER", "members": names}, nontrivial_key="STATUS_ORDER")
    sc = ix.cls("behave.summary:StatusCounts")
    lc = sc.lookup_const("ZERO")
    chk.instance("Y1")
    try:
        zero = ix.fold(lc[1], lc[0].module)
        zkeys = {k.name for k in zero}
    except Exception as e:      # noqa
        raise AnalysisError("StatusCounts.ZERO not a literal table: %s" % e)
    missing = [s for s in produced if s not in zkeys]
    if missing:
        _fail(chk, "Y1", "behave.summary:StatusCounts.ZERO", sm.relpath, sc.node.lineno, "ZERO lacks %s" % ",".join(missing),
              "StatusCounts.ZERO lacks %s" % missing)
    else:
        chk.ok("Y1", {"table": "StatusCounts.ZERO", "keys": sorted(zkeys)}, nontrivial_key="ZERO")
    # Y6: optional sets may hide only statuses that are not passed/failed; formats iterate STATUS_ORDER
    for cname in ("OPTIONAL_STATUS_PARTS_V1", "OPTIONAL_STATUS_PARTS_V2"):
        chk.instance("Y6")
        try:
            opt = [m.name for m in ix.fold(rm.consts[cname], rm)]
        except (KeyError, NotConst) as e:
            raise AnalysisError("%s not a literal tuple: %s" % (cname, e))
        bad = [s for s in opt if s in ("passed", "failed")]
        if bad:
            _fail(chk, "Y6", "behave.reporter.summary:" + cname, rm.relpath, 1, "%s hides %s" % (cname, bad),
                  "%s lets %s be hidden when zero" % (cname, bad))
        else:
            chk.ok("Y6", {"optional": cname, "members": opt}, nontrivial_key=cname)
    # that every format prints the numbers of the summary it is given - whichever way it walks the statuses - is decided by
    # Y7 (check_formats_concrete): every entry of OUTPUT_FORMAT_MAP is evaluated on concrete summaries


def check_formats_concrete(chk, ix):
    """Y7: every summary line format prints the numbers of the summary it is given (constant folding on name-keyed
    summaries as the wired reporter builds them)."""
    import re as _re
    chk.rule("Y7", WHAT["Y7"])
    rm = ix.module("behave.reporter.summary")
    fmap = rm.consts.get("OUTPUT_FORMAT_MAP")
    if not isinstance(fmap, ast.Dict):
        raise AnalysisError("anchor missing: OUTPUT_FORMAT_MAP literal")
    formats = {k.value: unparse(v) for k, v in zip(fmap.keys, fmap.values)}
    summaries = [
        {"passed": 3, "failed": 1, "error": 0, "skipped": 2, "untested": 0},
        {"passed": 1, "failed": 0, "error": 2, "hook_error": 1, "skipped": 0, "untested": 4, "undefined": 1, "pending": 0},
        {"passed": 0, "failed": 0, "error": 0, "skipped": 0, "untested": 0},
        {"passed": 12, "failed": 3, "skipped": 1, "undefined": 2, "untested_undefined": 1, "pending_warn": 1},
    ]
    for fname, target in sorted(formats.items()):
        f = rm.functions.get(target)
        if f is None:
            raise AnalysisError("OUTPUT_FORMAT_MAP[%r] = %s is not a function of the module" % (fname, target))
        for summ in summaries:
            it = Interp(ix, name="summary format " + fname)
            it.int_sat = 100000
            it.list_cap = 100
            st = State()
            st.frames = []
            d = st.alloc(HObj("dict", kind="dict", items=list(summ.items()), label="summary"))
            outs = it.call_function(st, f, ["scenario", d], {}, None)
            chk.absorb(it)
            chk.instance("Y7")
            if len(outs) != 1 or outs[0][1] != "val" or not isinstance(outs[0][2], str):
                raise AnalysisError("summary format %s not foldable: %r" % (fname, [(k, v) for _, k, v in outs][:2]))
            text = outs[0][2]
            total = sum(summ.values())
            problems = []
            # every number printed next to a status name is that status' count; a non-zero count of passed/failed is printed
            for m in _re.finditer(r"(\d+) (?:scenarios? )?([a-z_]+)\b|([a-z_]+): (\d+)", text):
                n, name = (m.group(1), m.group(2)) if m.group(1) else (m.group(4), m.group(3))
                if name in summ and int(n) != summ[name]:
                    problems.append("prints %s for %s (summary: %d)" % (n, name, summ[name]))
                if name in ("scenario", "scenarios") and int(n) != total:
                    problems.append("prints the total %s (summary: %d)" % (n, total))
            # conservation: a status with a non-zero count is never left out of the line
            for name in sorted(summ):
                if summ.get(name) and not _re.search(r"\b%d (?:scenarios? )?%s\b|\b%s: %d\b" % (summ[name], name, name, summ[name]), text):
                    problems.append("does not print the %d %s" % (summ[name], name))
            if not problems:
                chk.ok("Y7", {"format": fname, "summary": summ, "line": text}, nontrivial_key=(fname, tuple(sorted(summ.items()))))
            else:
                _fail(chk, "Y7", f.fullname, f.file, f.lineno, "%s on %s: %s" % (fname, summ, problems[0]),
                      "summary format %s renders %r as %r: %s" % (fname, summ, text, "; ".join(problems)))
