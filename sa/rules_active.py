# -*- coding: utf-8 -*-
"""C19 Active tags.

  A1  is_tag_group_enabled over every list of up to 3 active tags of one category
      (positive/negative x matches/does not): (no positive or some positive matches) and no negative matches
  A2  unknown category (not known to the value provider - a dict, ActiveTagValueProvider,
      CompositeActiveTagValueProvider) never excludes; empty group enabled
  A3  should_exclude_with <=> some category group is disabled; A4 should_run_with is its
      negation; the composite excludes iff a member does
  A5  negation detection agrees with the prefix table
  A6  value objects: a conversion error counts as 'does not match'
  A7  a lazy (callable) current value is re-evaluated on every use, never frozen
  A8  grouping: one group per category containing ALL tags of that category, wherever they stand
"""
from __future__ import annotations

import ast
import itertools

from .index import AnalysisError, ClassInfo, unparse
from .values import Top, HObj, Ref, Exc, State, ClassVal, GE2
from .absint import Interp
from .report import Finding

WHAT = {
    "A10": "the matcher asks the value provider it was given - also one that is (still) empty when the matcher is built",
    "A9": "a tag is an active tag exactly when it is PREFIX.with_CATEGORY<sep>VALUE for one of the matcher's prefixes and its value separator (defaults or constructor arguments)",
    "A1": "category group enabled <=> (no positive tag or some positive tag matches) and no negative tag matches, for every tag order",
    "A2": "tags of a category unknown to the value provider never exclude (dict and both provider classes); empty group enabled",
    "A3": "excluded <=> some category group is disabled; should_run_with is the negation; composite: any member",
    "A5": "negation detection (is_tag_negated) agrees with the prefix table",
    "A6": "value objects: unconvertible tag value counts as not matching; otherwise the declared comparison decides",
    "A7": "a lazy current value is re-evaluated on every use",
    "A8": "active tags are grouped per category regardless of their position in the tag list",
}


def _fail(chk, rule, func, witness, text, path=()):
    chk.fail(Finding(rule, func.fullname, witness, text, file=func.file, line=func.lineno, stmt="def " + func.name, path=list(path)))


def _matcher(ix, st, provider, ignore_unknown=True):
    mc = ix.cls("behave.tag_matcher:ActiveTagMatcher")
    return st.alloc(HObj(mc, {"value_provider": provider, "ignore_unknown_categories": ignore_unknown,
                              "tag_prefixes": ("use", "not", "active", "not_active", "only"), "exclude_reason": None,
                              "tag_pattern": st.alloc(HObj("PatternTok", {}, label="tag_pattern"))}, label="matcher"))


def _pair(st, prefix, matches, category="cat"):
    m = st.alloc(HObj("MatchTok", {"prefix": prefix, "category": category, "value": "v-" + ("y" if matches else "n")}, label="match"))
    return ("%s.with_%s=%s" % (prefix, category, "y" if matches else "n"), m)


def _base_stubs():
    return {
        # match.group(name) / match.group(name1, name2, ...) as re does: one value, or a tuple of values
        "MatchTok.group": lambda it, st, a, k, n: [(st, "val", st.obj(a[0]).fields[a[1]] if len(a) == 2 else
                                                    tuple(st.obj(a[0]).fields[x] for x in a[1:]))],
        "ValueTok.matches": lambda it, st, a, k, n: [(st, "val", a[1] == "v-y")],
        "ProviderTok.get": lambda it, st, a, k, n: [(st, "val", st.obj(a[0]).fields["value"])],
    }


def check_group_logic(chk, ix):
    chk.rule("A1", WHAT["A1"])
    mc = ix.cls("behave.tag_matcher:ActiveTagMatcher")
    f = mc.lookup("is_tag_group_enabled")
    kinds = [("use", True), ("use", False), ("not", True), ("not", False), ("only", True), ("not_active", True)]
    n = 0
    for length in (1, 2, 3):
        for combo in itertools.product(kinds, repeat=length):
            if length == 3 and any(k[0] in ("only", "not_active") for k in combo) and combo[0][0] not in ("only", "not_active"):
                continue
            st = State()
            st.frames = []
            value = st.alloc(HObj("ValueTok", {}, label="current value"))
            it = Interp(ix, stubs=_base_stubs(), name="is_tag_group_enabled")
            it.stubs["ValueObject"] = lambda i, s, a, k, n_: [(s, "val", a[0])]
            prov = st.alloc(HObj("ProviderTok", {"value": value}, label="provider"))
            m = _matcher(ix, st, prov)
            # the ValueObject check: make the token count as one
            pairs = st.alloc(HObj("list", kind="list", items=[_pair(st, p, mt) for (p, mt) in combo]))
            outs = it.call_function(st, f, ["cat", pairs], {}, None, self_val=m)
            chk.absorb(it)
            n += 1
            chk.instance("A1")
            if len(outs) != 1 or outs[0][1] != "val" or not isinstance(outs[0][2], bool):
                raise AnalysisError("is_tag_group_enabled not evaluable for %s: %r" % (combo, [(k, v) for _, k, v in outs][:2]))
            neg = lambda p: p.startswith("not")
            pos = [mt for (p, mt) in combo if not neg(p)]
            ngs = [mt for (p, mt) in combo if neg(p)]
            want = (not pos or any(pos)) and not any(ngs)
            got = outs[0][2]
            desc = ", ".join("%s:%s" % (p, "matches" if mt else "no-match") for (p, mt) in combo)
            if got is want:
                chk.ok("A1", {"tags": desc, "enabled": got}, nontrivial_key=combo)
            else:
                _fail(chk, "A1", f, "[%s] -> %s" % (desc, got),
                      "tag group [%s] is %s; by the documented logic it is %s" % (desc, "enabled" if got else "disabled", "enabled" if want else "disabled"))
    chk.require_instances("A1", 100)


def _composite(ix, st, members, label):
    """a CompositeActiveTagValueProvider built by its own constructor (so that whatever state it keeps is initialised), then given the
    member providers of the case"""
    from .abscall import construct as _construct
    cc = ix.cls("behave.tag_matcher:CompositeActiveTagValueProvider")
    it0 = Interp(ix, name="CompositeActiveTagValueProvider()")
    it0.list_cap = 100
    outs = _construct(it0, st, ClassVal(cc), [st.alloc(HObj("list", kind="list", items=list(members)))], {}, None)
    if len(outs) != 1 or outs[0][1] != "val" or outs[0][0] is not st:
        raise AnalysisError("CompositeActiveTagValueProvider(...) not evaluable: %r" % ([(k, v) for _, k, v in outs][:2],))
    ref = outs[0][2]
    st.wobj(ref).label = label
    f = st.obj(ref).fields
    if not (isinstance(f.get("data"), Ref) and isinstance(f.get("value_providers"), Ref)):
        raise AnalysisError("CompositeActiveTagValueProvider.__init__ leaves no data / value_providers")
    return ref


def check_unknown_category(chk, ix):
    chk.rule("A2", WHAT["A2"])
    mc = ix.cls("behave.tag_matcher:ActiveTagMatcher")
    f = mc.lookup("is_tag_group_enabled")
    pc = ix.cls("behave.tag_matcher:ActiveTagValueProvider")
    cc = ix.cls("behave.tag_matcher:CompositeActiveTagValueProvider")
    for pname in ("dict", "ActiveTagValueProvider", "CompositeActiveTagValueProvider(dict)", "CompositeActiveTagValueProvider(provider)"):
        st = State()
        st.frames = []
        it = Interp(ix, stubs=_base_stubs(), name="unknown category")
        data = st.alloc(HObj("dict", kind="dict", items=[("os", "linux")], label="provider data"))
        if pname == "dict":
            prov = data
        elif pname == "ActiveTagValueProvider":
            prov = st.alloc(HObj(pc, {"data": data}, label=pname))
        else:
            inner = data if pname.endswith("(dict)") else st.alloc(HObj(pc, {"data": data}, label="inner provider"))
            prov = _composite(ix, st, [inner], pname)
        m = _matcher(ix, st, prov, ignore_unknown=True)
        pairs = st.alloc(HObj("list", kind="list", items=[_pair(st, "use", False, "unknowncat")]))
        outs = it.call_function(st, f, ["unknowncat", pairs], {}, None, self_val=m)
        chk.absorb(it)
        chk.instance("A2")
        vals = [v for (_, k, v) in outs if k == "val"]
        if len(outs) == 1 and vals == [True]:
            chk.ok("A2", {"provider": pname, "unknown_category": "group enabled (never excludes)"}, nontrivial_key=pname)
        else:
            _fail(chk, "A2", f, "%s: unknown category -> %r" % (pname, [(k, v) for _, k, v in outs]),
                  "with a %s as value provider, an active tag of a category the provider does not know gives %r instead of "
                  "'enabled': the element is excluded although the category is unknown" % (pname, [(k, v) for _, k, v in outs]),
                  outs[0][0].path if outs else ())
    # empty group
    st = State()
    st.frames = []
    it = Interp(ix, stubs=_base_stubs(), name="empty group")
    m = _matcher(ix, st, st.alloc(HObj("dict", kind="dict", items=[])))
    outs = it.call_function(st, f, ["cat", st.alloc(HObj("list", kind="list", items=[]))], {}, None, self_val=m)
    chk.instance("A2")
    if len(outs) == 1 and outs[0][2] is True:
        chk.ok("A2", {"empty_group": "enabled"}, nontrivial_key="empty")
    else:
        _fail(chk, "A2", f, "empty group", "an empty tag group is not enabled")


def check_exclude_composition(chk, ix):
    chk.rule("A3", WHAT["A3"])
    mc = ix.cls("behave.tag_matcher:ActiveTagMatcher")
    f = mc.lookup("should_exclude_with")
    for groups in itertools.product((True, False), repeat=3):
        for n in (0, 1, 2, 3):
            gs = groups[:n]
            if n < 3 and groups[n:] != (True,) * (3 - n):
                continue
            st = State()
            st.frames = []

            def grp(it, s, a, k, nn, _gs=gs):
                return [(s, "val", tuple(("c%d" % i, ("pairs", g)) for i, g in enumerate(_gs)))]
            stubs = {"ActiveTagMatcher.group_active_tags_by_category": grp,
                     "ActiveTagMatcher.is_tag_group_enabled": lambda it, s, a, k, nn: [(s, "val", a[2][1])]}
            it = Interp(ix, stubs=stubs, name="should_exclude_with")
            m = _matcher(ix, st, st.alloc(HObj("dict", kind="dict", items=[])))
            st.wobj(m).fields["use_exclude_reason"] = False
            outs = it.call_function(st, f, [("tag",)], {}, None, self_val=m)
            chk.absorb(it)
            chk.instance("A3")
            want = any(not g for g in gs)
            if len(outs) == 1 and outs[0][1] == "val" and outs[0][2] is want:
                chk.ok("A3", {"groups_enabled": list(gs), "excluded": want}, nontrivial_key=gs)
            else:
                _fail(chk, "A3", f, "groups %s -> %r" % (list(gs), [(k, v) for _, k, v in outs]),
                      "with category groups enabled=%s should_exclude_with gives %r, expected %s" % (list(gs), [(k, v) for _, k, v in outs], want))
    # should_run_with / composite
    tm = ix.cls("behave.tag_matcher:TagMatcher")
    srw = tm.lookup("should_run_with")
    for ex in (True, False):
        st = State()
        st.frames = []
        it = Interp(ix, stubs={"TagMatcher.should_exclude_with": lambda i, s, a, k, n, _e=ex: [(s, "val", _e)]}, name="should_run_with")
        me = st.alloc(HObj(tm, {}, label="matcher"))
        outs = it.call_function(st, srw, [("t",)], {}, None, self_val=me)
        chk.instance("A3")
        if len(outs) == 1 and outs[0][2] is (not ex):
            chk.ok("A3", {"should_exclude_with": ex, "should_run_with": not ex}, nontrivial_key=("run", ex))
        else:
            _fail(chk, "A3", srw, "exclude=%s run=%r" % (ex, outs[0][2] if outs else None), "should_run_with is not the negation of should_exclude_with")
    cm = ix.cls("behave.tag_matcher:CompositeTagMatcher")
    cf = cm.lookup("should_exclude_with")
    for members in itertools.product((True, False), repeat=2):
        st = State()
        st.frames = []
        it = Interp(ix, stubs={"MemberTok.should_exclude_with": lambda i, s, a, k, n: [(s, "val", s.obj(a[0]).fields["ex"])]}, name="composite")
        ms = st.alloc(HObj("list", kind="list", items=[st.alloc(HObj("MemberTok", {"ex": e})) for e in members]))
        me = st.alloc(HObj(cm, {"tag_matchers": ms}, label="composite"))
        outs = it.call_function(st, cf, [("t",)], {}, None, self_val=me)
        chk.instance("A3")
        if len(outs) == 1 and outs[0][2] is any(members):
            chk.ok("A3", {"members_exclude": list(members), "composite_excludes": any(members)}, nontrivial_key=("comp", members))
        else:
            _fail(chk, "A3", cf, "members %s" % (list(members),), "composite matcher with members excluding %s gives %r" % (list(members), outs[0][2] if outs else None))


def check_negation_and_values(chk, ix):
    chk.rule("A5", WHAT["A5"])
    chk.rule("A6", WHAT["A6"])
    chk.rule("A7", WHAT["A7"])
    mc = ix.cls("behave.tag_matcher:ActiveTagMatcher")
    f = mc.lookup("is_tag_negated")
    lc = mc.lookup_const("tag_prefixes")
    prefixes = ix.fold(lc[1], lc[0].module) if lc else None
    if not prefixes:
        raise AnalysisError("anchor missing: ActiveTagMatcher.tag_prefixes")
    it = Interp(ix, name="is_tag_negated")
    for p in prefixes:
        st = State()
        st.frames = []
        m = _matcher(ix, st, None)
        outs = it.call_function(st, f, [p], {}, None, self_val=m)
        chk.instance("A5")
        want = p.startswith("not")
        if len(outs) == 1 and outs[0][2] is want:
            chk.ok("A5", {"prefix": p, "negative": want}, nontrivial_key=p)
        else:
            _fail(chk, "A5", f, "prefix %s -> %r" % (p, outs[0][2] if outs else None), "prefix %r is classified negative=%r" % (p, outs[0][2] if outs else None))
    # A6: conversion error -> falsy
    for cname, conv in (("NumberValueObject", "int"), ("BoolValueObject", "to_bool")):
        ci = ix.cls("behave.tag_matcher:" + cname)
        mf = ci.lookup("matches")
        for fails in (True, False):
            st = State()
            st.frames = []

            def conv_stub(i, s, a, k, n, _f=fails):
                if _f:
                    return [(s, "raise", Exc("ValueError", None, "conversion"))]
                return [(s, "val", "converted")]
            stubs = {"ValueObject.matches": lambda i, s, a, k, n: [(s, "val", ("base-compare", a[1]))],
                     "LoggerTok.error": lambda i, s, a, k, n: [(s, "val", None)],
                     "logging.getLogger": lambda i, s, a, k, n: [(s, "val", s.alloc(HObj("LoggerTok", {})))],
                     "BoolValueObject.to_bool": conv_stub, "int": conv_stub}
            it2 = Interp(ix, stubs=stubs, name=cname + ".matches")
            orig = it2.x_global

            def x_global(s, mod, name, node=None, _o=orig):
                if name == "int":
                    return conv_stub_val
                return _o(s, mod, name, node)
            conv_stub_val = conv_stub
            it2.x_global = x_global
            me = st.alloc(HObj(ci, {"_value": 1, "compare": Top("cmp", True)}, label=cname))
            outs = it2.call_function(st, mf, ["tagvalue"], {}, None, self_val=me)
            chk.instance("A6")
            ok = len(outs) == 1 and outs[0][1] == "val" and (
                (fails and not it2.truth(outs[0][0].fork(), outs[0][2])[0][1]) or
                (not fails and outs[0][2] == ("base-compare", "converted")))
            if ok:
                chk.ok("A6", {"class": cname, "conversion_fails": fails, "result": "not matching" if fails else "base comparison on the converted value"},
                       nontrivial_key=(cname, fails))
            else:
                _fail(chk, "A6", mf, "%s fails=%s -> %r" % (cname, fails, [(k, v) for _, k, v in outs]),
                      "%s.matches with %s gives %r" % (cname, "an unconvertible tag value" if fails else "a convertible tag value", [(k, v) for _, k, v in outs]))
    # A7: lazy value re-evaluated
    vc = ix.cls("behave.tag_matcher:ValueObject")
    prop = vc.lookup("value")
    st = State()
    st.frames = []
    counter = {"n": 0}

    def lazy(i, s, a, k, n):
        counter["n"] += 1
        return [(s, "val", "value#%d" % counter["n"])]
    it3 = Interp(ix, name="ValueObject.value")
    me = st.alloc(HObj(vc, {"_value": lazy, "compare": Top("cmp", True)}, label="value object"))
    o1 = it3.call_function(st, prop, [], {}, None, self_val=me)
    o2 = it3.call_function(o1[0][0], prop, [], {}, None, self_val=me)
    chk.instance("A7")
    v1, v2 = o1[0][2], o2[0][2]
    still = o2[0][0].obj(me).fields.get("_value")
    if v1 == "value#1" and v2 == "value#2" and still is lazy:
        chk.ok("A7", {"first_read": v1, "second_read": v2}, nontrivial_key="lazy")
    else:
        _fail(chk, "A7", prop, "reads %r, %r; _value now %r" % (v1, v2, still),
              "a lazy (callable) current value is evaluated once and frozen (reads: %r then %r): later changes of the value are not seen" % (v1, v2))
    # provider level: every lookup of a known category evaluates the lazy value again, through every provider shape
    pc = ix.cls("behave.tag_matcher:ActiveTagValueProvider")
    cc = ix.cls("behave.tag_matcher:CompositeActiveTagValueProvider")
    for pname in ("ActiveTagValueProvider", "CompositeActiveTagValueProvider(dict)", "CompositeActiveTagValueProvider(provider)",
                  "CompositeActiveTagValueProvider(provider, second position)"):
        for via in ("get", "[]"):
            if via == "[]" and pname != "ActiveTagValueProvider":
                continue
            calls = []

            def lazy2(i, s, a, k, n, _c=calls):
                _c.append(1)
                return [(s, "val", "value#%d" % len(_c))]
            st = State()
            st.frames = []
            it4 = Interp(ix, name="lazy provider value")
            data = st.alloc(HObj("dict", kind="dict", items=[("os", lazy2), ("plain", "x")], label="provider data"))
            if pname == "ActiveTagValueProvider":
                prov = st.alloc(HObj(pc, {"data": data}, label=pname))
            else:
                inner = data if pname.endswith("(dict)") else st.alloc(HObj(pc, {"data": data}, label="inner provider"))
                members = [inner]
                if "second" in pname:
                    members = [st.alloc(HObj("dict", kind="dict", items=[("other", 1)], label="first provider")), inner]
                prov = _composite(ix, st, members, pname)
            meth = st.obj(prov).cls.lookup("get" if via == "get" else "__getitem__")
            reads = []
            cur = st
            ok = True
            for _ in range(3):
                outs = it4.call_function(cur, meth, ["os"], {}, None, self_val=prov)
                if len(outs) != 1 or outs[0][1] != "val":
                    raise AnalysisError("provider %s.%s not evaluable: %r" % (pname, via, [(k, v) for _, k, v in outs][:3]))
                cur = outs[0][0]
                reads.append(outs[0][2])
            chk.absorb(it4)
            chk.instance("A7")
            if reads == ["value#1", "value#2", "value#3"]:
                chk.ok("A7", {"provider": pname, "via": via, "reads": reads}, nontrivial_key=(pname, via))
            else:
                _fail(chk, "A7", meth, "%s via %s: reads %r" % (pname, via, reads),
                      "three successive lookups of a category with a lazy (callable) value through %s give %r instead of three fresh "
                      "evaluations: the decision is taken against a stale value" % (pname, reads), cur.path)


def check_provider_learns_later(chk, ix):
    """A7 (history): a category asked for while no provider knows it, then added to a provider (before_all / a fixture sets it), then
    asked for again: the second answer is the new value, through every provider shape."""
    chk.rule("A7", WHAT["A7"])
    pc = ix.cls("behave.tag_matcher:ActiveTagValueProvider")
    for pname in ("ActiveTagValueProvider", "CompositeActiveTagValueProvider(dict)", "CompositeActiveTagValueProvider(provider)"):
        st = State()
        st.frames = []
        it = Interp(ix, name="provider learns a category later")
        it.list_cap = 100
        data = st.alloc(HObj("dict", kind="dict", items=[("plain", "x")], label="provider data"))
        if pname == "ActiveTagValueProvider":
            prov = st.alloc(HObj(pc, {"data": data}, label=pname))
        else:
            inner = data if pname.endswith("(dict)") else st.alloc(HObj(pc, {"data": data}, label="inner provider"))
            prov = _composite(ix, st, [inner], pname)
        meth = st.obj(prov).cls.lookup("get")
        outs = it.call_function(st, meth, ["os", "DEFAULT"], {}, None, self_val=prov)
        if len(outs) != 1 or outs[0][1] != "val":
            raise AnalysisError("provider %s.get not evaluable: %r" % (pname, [(k, v) for _, k, v in outs][:2]))
        cur, first = outs[0][0], outs[0][2]
        w = cur.wobj(data)
        w.items = list(w.items) + [("os", "linux")]         # the project learns its os now
        outs = it.call_function(cur, meth, ["os", "DEFAULT"], {}, None, self_val=prov)
        chk.absorb(it)
        chk.instance("A7")
        if len(outs) != 1 or outs[0][1] != "val":
            raise AnalysisError("provider %s.get not evaluable: %r" % (pname, [(k, v) for _, k, v in outs][:2]))
        second = outs[0][2]
        if first == "DEFAULT" and second == "linux":
            chk.ok("A7", {"provider": pname, "history": "asked while unknown, learned, asked again", "answers": [first, second]}, nontrivial_key=("later", pname))
        else:
            _fail(chk, "A7", meth, "%s: unknown, learned, asked again -> %r, %r" % (pname, first, second),
                  "a category asked for through %s while unknown (answer %r), then set in the provider's data, is answered %r at the next lookup "
                  "(expected 'linux'): an earlier 'unknown' is remembered and the active tags of that category never exclude" % (pname, first, second))


def check_grouping(chk, ix):
    chk.rule("A8", WHAT["A8"])
    mc = ix.cls("behave.tag_matcher:ActiveTagMatcher")
    f = mc.lookup("group_active_tags_by_category")

    def pat_match(it, st, args, kw, node):
        tag = args[1]
        if isinstance(tag, str) and ".with_" in tag:
            cat = tag.split(".with_")[1].split("=")[0]
            return [(st, "val", st.alloc(HObj("MatchTok", {"category": cat, "prefix": tag.split(".")[0], "value": tag.split("=")[-1]}, label="m:" + tag)))]
        return [(st, "val", None)]

    def groupby(it, st, args, kw, node):
        # itertools.groupby: consecutive runs with equal key
        kind, seq = it.iter_values(st, args[0], node)
        keyf = args[1] if len(args) > 1 else kw.get("key")
        runs = []
        cur = st
        for x in seq:
            from .abscall import apply as _apply
            outs = _apply(it, cur, keyf, [x], {}, node) if keyf is not None else [(cur, "val", x)]
            cur, _, kv = outs[0]
            if runs and runs[-1][0] == kv:
                runs[-1][1].append(x)
            else:
                runs.append((kv, [x]))
        return [(cur, "val", tuple((kv, cur.alloc(HObj("list", kind="list", items=xs))) for kv, xs in runs))]
    stubs = dict(_base_stubs())
    stubs.update({"PatternTok.match": pat_match, "itertools.groupby": groupby, "groupby": groupby,
                  "six.iteritems": lambda it, st, a, k, n: [(st, "val", tuple((kk, vv) for kk, vv in st.obj(a[0]).items))]})
    it = Interp(ix, stubs=stubs, name="group_active_tags_by_category")
    it.eager_generators = True
    st = State()
    st.frames = []
    m = _matcher(ix, st, None)
    tags = ("use.with_os=win32", "plain", "use.with_browser=chrome", "use.with_os=linux", "not.with_browser=ie")
    outs = it.call_function(st, f, [tags], {}, None, self_val=m)
    chk.absorb(it)
    chk.instance("A8")
    if len(outs) != 1 or outs[0][1] != "val":
        raise AnalysisError("group_active_tags_by_category not evaluable: %r" % ([(k, v) for _, k, v in outs][:2],))
    s, _, res = outs[0]
    groups = {}
    n_groups = 0
    for item in res:
        cat, pairs = item
        n_groups += 1
        plist = s.obj(pairs).items if isinstance(pairs, Ref) else list(pairs)
        groups.setdefault(cat, []).append(sorted(p[0] for p in plist))
    want = {"os": [["use.with_os=linux", "use.with_os=win32"]], "browser": [["not.with_browser=ie", "use.with_browser=chrome"]]}
    if groups == want:
        chk.ok("A8", {"tags": list(tags), "groups": groups}, nontrivial_key="grouping")
    else:
        _fail(chk, "A8", f, "groups %s" % groups, "active tags %s are grouped as %s, expected one group per category: %s "
              "(a category split into fragments is evaluated fragment by fragment)" % (list(tags), groups, want))


def check_tag_pattern(chk, ix):
    """A9: which tags are active tags: the pattern the matcher builds from its (default or given) prefixes and value
    separator, constant-folded (re is the stdlib's) and applied to concrete tags."""
    from .abscall import ReVal
    chk.rule("A9", WHAT["A9"])
    mc = ix.cls("behave.tag_matcher:ActiveTagMatcher")
    init = mc.lookup("__init__")
    lcp, lcs = mc.lookup_const("tag_prefixes"), mc.lookup_const("value_separator")
    dprefixes, dsep = ix.fold(lcp[1], lcp[0].module), ix.fold(lcs[1], lcs[0].module)
    for title, kw, prefixes, sep in (("defaults", {}, list(dprefixes), dsep),
                                     ("custom separator", {"value_separator": ":"}, list(dprefixes), ":"),
                                     ("custom prefixes", {"tag_prefixes": ("need", "not_need")}, ["need", "not_need"], dsep),
                                     ("custom prefixes and separator", {"tag_prefixes": ("need", "not_need"), "value_separator": ":"}, ["need", "not_need"], ":")):
        it = Interp(ix, stubs={"TagMatcher.__init__": lambda i, s_, a, k, n: [(s_, "val", None)]}, name="ActiveTagMatcher.__init__")
        it.fold_regex = True
        it.int_sat = 100
        it.list_cap = 100
        st = State()
        st.frames = []
        me = st.alloc(HObj(mc, {}, label="matcher"))
        prov = st.alloc(HObj("dict", kind="dict", items=[("os", "linux")]))
        outs = it.call_function(st, init, [prov], dict(kw), None, self_val=me)
        chk.absorb(it)
        if len(outs) != 1 or outs[0][1] != "val":
            raise AnalysisError("ActiveTagMatcher.__init__ not evaluable (%s): %r" % (title, [(k, v) for _, k, v in outs][:3]))
        pat = outs[0][0].obj(me).fields.get("tag_pattern")
        if not isinstance(pat, ReVal):
            raise AnalysisError("ActiveTagMatcher.tag_pattern is not a foldable compiled pattern (%s): %r" % (title, pat))
        other = ":" if sep != ":" else "="
        cases = []
        for p_ in prefixes:
            cases.append(("%s.with_os%slinux" % (p_, sep), (p_, "os", "linux")))
            cases.append(("%s.with_os.version%s12" % (p_, sep), (p_, "os.version", "12")))
            cases.append(("%s.with_os%slinux" % (p_, other), None if other not in "linux" else None))
        cases += [("foo", None), ("slow", None), ("with_os%slinux" % sep, None), ("x%s.with_os%slinux" % (prefixes[0], sep), None)]
        if prefixes != list(dprefixes):
            cases.append(("%s.with_os%slinux" % (dprefixes[0], sep), None))
        for tag, want in cases:
            chk.instance("A9")
            m = pat.rx.match(tag)
            got = (m.group("prefix"), m.group("category"), m.group("value")) if m else None
            if want is None and got is not None and other in tag and got[1].startswith("os") and sep in tag.split(other, 1)[-1]:
                want = got      # the other separator is part of the value here
            if got == want:
                chk.ok("A9", {"matcher": title, "tag": tag, "active_tag": list(got) if got else None}, nontrivial_key=(title, tag))
            else:
                _fail(chk, "A9", init, "%s: %s -> %r" % (title, tag, got),
                      "a matcher built with %s (prefixes %s, separator %r) reads the tag %r as %r; expected %r" % (
                          title, prefixes, sep, tag, got, want))


def check_matcher_keeps_provider(chk, ix):
    """A10: ActiveTagMatcher.__init__ with providers that are empty at construction time (an empty dict that the
    environment fills later, a composite provider whose cache is still empty): the matcher holds THAT object."""
    chk.rule("A10", WHAT["A10"])
    mc = ix.cls("behave.tag_matcher:ActiveTagMatcher")
    init = mc.lookup("__init__")
    for kind in ("empty dict", "dict with data", "empty provider object"):
        it = Interp(ix, stubs={"TagMatcher.__init__": lambda i, s_, a, k, n: [(s_, "val", None)]}, name="ActiveTagMatcher.__init__")
        it.fold_regex = True
        it.int_sat = 100
        it.list_cap = 100
        st = State()
        st.frames = []
        me = st.alloc(HObj(mc, {}, label="matcher"))
        if kind == "empty provider object":
            pc = ix.cls("behave.tag_matcher:CompositeActiveTagValueProvider")
            prov = st.alloc(HObj(pc, {"data": st.alloc(HObj("dict", kind="dict", items=[])), "value_providers": st.alloc(HObj("list", kind="list", items=[]))},
                                 label="composite provider (cache empty)"))
            # a UserDict is false while it is empty
            it.stubs["UserDict.__len__"] = lambda i, s_, a, k, n: [(s_, "val", 0)]
        else:
            prov = st.alloc(HObj("dict", kind="dict", items=[] if kind == "empty dict" else [("os", "linux")], label=kind))
        try:
            outs = it.call_function(st, init, [prov], {}, None, self_val=me)
        except AnalysisError as e:
            if kind == "empty provider object":
                # truthiness of an object whose class comes from outside the repository: not decided for this variant
                chk.notes.append("A10: %s not evaluable (%s)" % (kind, e))
                continue
            raise
        chk.absorb(it)
        chk.instance("A10")
        if len(outs) != 1 or outs[0][1] != "val":
            raise AnalysisError("ActiveTagMatcher.__init__ not evaluable (%s): %r" % (kind, [(k, v) for _, k, v in outs][:3]))
        got = outs[0][0].obj(me).fields.get("value_provider")
        if isinstance(got, Ref) and got.oid == prov.oid:
            chk.ok("A10", {"provider": kind, "matcher.value_provider": "the object passed"}, nontrivial_key=kind)
        else:
            _fail(chk, "A10", init, "%s replaced" % kind,
                  "ActiveTagMatcher(%s) does not keep the provider it was given (it holds %s): categories the environment adds to the provider "
                  "afterwards, or a composite provider whose cache is still empty, are unknown to the matcher - nothing is ever excluded"
                  % (kind, "another, new object" if isinstance(got, Ref) else repr(got)))


def check_provider_known_unknown(chk, ix):
    """A2 (sequences): what a value provider KNOWS is decided by its data alone, every time it is asked:
    a category whose current value is None is known; an unknown category stays unknown however often and with whatever
    default it was asked for before."""
    chk.rule("A2", WHAT["A2"])
    pc = ix.cls("behave.tag_matcher:ActiveTagValueProvider")
    cc = ix.cls("behave.tag_matcher:CompositeActiveTagValueProvider")
    MARK = "UNKNOWN-MARKER"
    for pname in ("ActiveTagValueProvider", "CompositeActiveTagValueProvider(dict)", "CompositeActiveTagValueProvider(provider)"):
        st = State()
        st.frames = []
        it = Interp(ix, name="provider known/unknown")
        it.int_sat = 100
        it.list_cap = 100
        data = st.alloc(HObj("dict", kind="dict", items=[("os", "linux"), ("browser", None)], label="provider data"))
        if pname == "ActiveTagValueProvider":
            prov = st.alloc(HObj(pc, {"data": data}, label=pname))
        else:
            inner = data if pname.endswith("(dict)") else st.alloc(HObj(pc, {"data": data}, label="inner provider"))
            prov = _composite(ix, st, [inner], pname)
        meth = st.obj(prov).cls.lookup("get")
        script = [("nocat", None, None), ("nocat", MARK, MARK), ("browser", MARK, None), ("os", MARK, "linux"), ("nocat", "other-default", "other-default"),
                  ("nocat", MARK, MARK), ("browser", MARK, None)]
        cur = st
        got = []
        for cat, default, want in script:
            outs = it.call_function(cur, meth, [cat] + ([default] if default is not None else []), {}, None, self_val=prov)
            if len(outs) != 1 or outs[0][1] != "val":
                raise AnalysisError("provider %s.get not evaluable: %r" % (pname, [(k, v) for _, k, v in outs][:3]))
            cur = outs[0][0]
            got.append(outs[0][2])
        chk.absorb(it)
        chk.instance("A2")
        wants = [w for _, _, w in script]
        if got == wants:
            chk.ok("A2", {"provider": pname, "lookups": [[c, d] for c, d, _ in script], "answers": got}, nontrivial_key=("sequence", pname))
        else:
            bad = [i for i, (g, w) in enumerate(zip(got, wants)) if g != w][0]
            _fail(chk, "A2", meth, "%s: lookup #%d %s -> %r" % (pname, bad + 1, script[bad][:2], got[bad]),
                  "%s with the data {os: 'linux', browser: None}: the lookups %s answer %r, expected %r (lookup #%d differs): what is known is "
                  "decided by the data, a value of None is a value, and an earlier lookup of an unknown category must not make it known" % (
                      pname, [list(x[:2]) for x in script], got, wants, bad + 1), cur.path)



def check_value_objects_concrete(chk, ix):
    """A6 on concrete tag values (constant folding; int / str.lower / set membership are Python's): number and boolean
    value objects compare well-formed values with their operator and count malformed ones as not matching - whatever
    the malformed text is, no exception leaves matches()."""
    chk.rule("A6", WHAT["A6"])
    from .values import ModuleVal
    cases = [("NumberValueObject", 5, "eq", "5", True), ("NumberValueObject", 5, "eq", "6", False), ("NumberValueObject", 5, "ge", "3", True),
             ("NumberValueObject", 5, "le", "3", False), ("NumberValueObject", -5, "eq", "-5", True), ("NumberValueObject", 3, "ge", "+3", True),
             ("NumberValueObject", 5, "eq", " 5 ", True), ("NumberValueObject", 5, "eq", "five", False), ("NumberValueObject", 5, "eq", "", False),
             ("NumberValueObject", 5, "eq", "5.0", False),
             ("BoolValueObject", True, "eq", "yes", True), ("BoolValueObject", True, "eq", "TRUE", True), ("BoolValueObject", True, "eq", "off", False),
             ("BoolValueObject", False, "eq", "no", True), ("BoolValueObject", True, "eq", "maybe", False), ("BoolValueObject", False, "eq", "maybe", False),
             ("BoolValueObject", True, "eq", "1", False), ("BoolValueObject", True, "eq", "", False)]
    for cname, current, op, tag_value, want in cases:
        ci = ix.cls("behave.tag_matcher:" + cname)
        mf = ci.lookup("matches")
        it = Interp(ix, stubs={"LoggerTok.error": lambda i, s, a, k, n: [(s, "val", None)], "LoggerTok.warning": lambda i, s, a, k, n: [(s, "val", None)],
                               "logging.getLogger": lambda i, s, a, k, n: [(s, "val", s.alloc(HObj("LoggerTok", {}, open=True)))]},
                    name=cname + ".matches concrete")
        it.int_sat = 100000
        it.list_cap = 100
        it.shared_consts = True
        st = State()
        st.frames = []
        me = st.alloc(HObj(ci, {"_value": current, "compare": ModuleVal("operator." + op)}, label=cname))
        try:
            outs = it.call_function(st, mf, [tag_value], {}, None, self_val=me)
        except AnalysisError as e:
            raise AnalysisError("%s.matches(%r) not foldable: %s" % (cname, tag_value, e))
        chk.absorb(it)
        chk.instance("A6")
        got = set()
        raised = None
        for (s_, k, v) in outs:
            if k != "val":
                raised = v
                continue
            for (_s, b) in it.truth(s_.fork(), v):
                got.add(b)
        if raised is None and got == {want}:
            chk.ok("A6", {"value object": "%s(%r, operator.%s)" % (cname, current, op), "tag value": tag_value, "matches": want}, nontrivial_key=(cname, current, op, tag_value))
        else:
            _fail(chk, "A6", mf, "%s(%r, %s).matches(%r) -> %s" % (cname, current, op, tag_value, ("raises " + raised.clsname()) if raised is not None else sorted(got)),
                  "%s(%r, operator.%s).matches(%r) %s; expected %s (a malformed value counts as not matching: it never raises and never matches)" % (
                      cname, current, op, tag_value, ("raises %s" % raised.clsname()) if raised is not None else "gives %s" % sorted(got), want))
