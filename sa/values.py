# -*- coding: utf-8 -*-
"""Abstract values, heap objects and states of the abstract explorer."""
from __future__ import annotations

import itertools

from .index import EnumVal, ClassInfo, FuncInfo, AnalysisError


class Top(object):
    """Unknown value.  input=True: a free input of the analysed function
    (genuine nondeterminism); input=False: precision loss of the abstraction.
    ``domain``: optional tuple of concrete candidates (forked on demand).
    ``origin``: where to write a refinement back: ('field', oid, name) / ('local', depth, name)."""
    __slots__ = ("tag", "input", "domain", "origin", "truth")

    def __init__(self, tag, input=False, domain=None, origin=None, truth=None):
        self.tag = tag
        self.input = input
        self.domain = tuple(domain) if domain is not None else None
        self.origin = origin
        self.truth = truth

    def key(self):
        return ("Top", self.tag, self.input, self.domain is not None and tuple(vkey(d) for d in self.domain), self.truth)

    def __repr__(self):
        return "Top(%s%s%s)" % (self.tag, ",in" if self.input else ",prec",
                                "" if self.truth is None else ",truth=%s" % self.truth)


class GE2Type(object):
    """Saturated counter: an integer >= 2."""
    _inst = None

    def __new__(cls):
        if cls._inst is None:
            cls._inst = object.__new__(cls)
        return cls._inst

    def __repr__(self):
        return "GE2"


GE2 = GE2Type()


class Ref(object):
    __slots__ = ("oid",)

    def __init__(self, oid):
        self.oid = oid

    def __eq__(self, other):
        return isinstance(other, Ref) and other.oid == self.oid

    def __ne__(self, other):
        return not self.__eq__(other)

    def __hash__(self):
        return hash(("Ref", self.oid))

    def __repr__(self):
        return "Ref(%s)" % self.oid


class ClassVal(object):
    """A class as a value: in-repo ClassInfo or external/builtin name."""
    __slots__ = ("cls",)

    def __init__(self, cls):
        self.cls = cls

    def name(self):
        return self.cls.name if isinstance(self.cls, ClassInfo) else str(self.cls)

    def __eq__(self, other):
        return isinstance(other, ClassVal) and other.cls == self.cls

    def __hash__(self):
        return hash(("ClassVal", self.name()))

    def __repr__(self):
        return "Class(%s)" % self.name()


class FuncVal(object):
    __slots__ = ("func",)

    def __init__(self, func):
        self.func = func

    def __repr__(self):
        return "Func(%s)" % self.func.fullname


class BoundMeth(object):
    __slots__ = ("self_val", "func", "name")

    def __init__(self, self_val, func, name=None):
        self.self_val = self_val
        self.func = func            # FuncInfo or None (stub dispatch by name)
        self.name = name or (func.name if func else None)

    def __repr__(self):
        return "Bound(%r.%s)" % (self.self_val, self.name)


class Builtin(object):
    __slots__ = ("name",)

    def __init__(self, name):
        self.name = name

    def __repr__(self):
        return "Builtin(%s)" % self.name


class PyFn(object):
    """A callable of the standard library's functional vocabulary (operator.methodcaller / attrgetter / itemgetter,
    functools.partial): kind + the values it was built from.  Called through sa.lazyiter.pyfn_call."""
    __slots__ = ("kind", "parts")

    def __init__(self, kind, parts):
        self.kind = kind
        self.parts = parts

    def __call__(self, interp, st, args, kwargs, node):
        from .lazyiter import pyfn_call
        return pyfn_call(self, interp, st, args, kwargs, node)

    def __repr__(self):
        return "PyFn(%s)" % self.kind


class ObjDict(object):
    """obj.__dict__ of a heap object: a live view of its instance attributes"""
    __slots__ = ("ref",)
    abs_type = "dict"

    def __init__(self, ref):
        self.ref = ref

    def __repr__(self):
        return "ObjDict(%r)" % (self.ref,)

    def _fields(self, st):
        return st.obj(self.ref).fields

    def abs_item(self, interp, st, idx, node):
        f = self._fields(st)
        if isinstance(idx, str) and idx in f and not idx.startswith("@"):
            return f[idx]
        if isinstance(idx, str):
            from .absint import Unsupported
            raise Unsupported("obj.__dict__[%r]: no such instance attribute at %s" % (idx, interp.loc(node)))
        return Top("__dict__[]", False)

    def abs_setitem(self, interp, st, idx, v, node):
        if not isinstance(idx, str):
            from .absint import Unsupported
            raise Unsupported("obj.__dict__[<non-constant>] = ... at %s" % interp.loc(node))
        st.wobj(self.ref).fields[idx] = v

    def abs_contains_in(self, st, key):
        f = self._fields(st)
        return isinstance(key, str) and key in f and not key.startswith("@")

    def abs_call(self, interp, st, name, args, kwargs, node):
        f = [(k, v) for k, v in self._fields(st).items() if not k.startswith("@")]
        if name == "items" and not args:
            return [(st, "val", tuple(f))]
        if name == "keys" and not args:
            return [(st, "val", tuple(k for k, _ in f))]
        if name == "values" and not args:
            return [(st, "val", tuple(v for _, v in f))]
        if name == "get" and args and isinstance(args[0], str):
            d = dict(f)
            return [(st, "val", d.get(args[0], args[1] if len(args) > 1 else None))]
        if name == "copy" and not args:
            return [(st, "val", st.alloc(HObj("dict", kind="dict", items=f)))]
        if name == "update" and len(args) == 1 and isinstance(args[0], Ref) and st.obj(args[0]).kind == "dict" and st.obj(args[0]).items is not None \
                and all(isinstance(k, str) for k, _ in st.obj(args[0]).items):
            for k, v in st.obj(args[0]).items:
                st.wobj(self.ref).fields[k] = v
            return [(st, "val", None)]
        from .absint import Unsupported
        raise Unsupported("obj.__dict__.%s(...) at %s" % (name, interp.loc(node)))


class ModuleVal(object):
    __slots__ = ("mod",)        # index.Module or external dotted name (str)

    def __init__(self, mod):
        self.mod = mod

    def __repr__(self):
        return "Module(%s)" % (getattr(self.mod, "name", self.mod))


class SuperVal(object):
    __slots__ = ("cls", "self_val")

    def __init__(self, cls, self_val):
        self.cls = cls
        self.self_val = self_val


class AbsSeq(object):
    """Abstract sequence: zero or more fresh elements produced by ``factory``.
    factory(interp, state) -> list of (state, element value, symbol label)."""
    __slots__ = ("name", "factory", "nonempty")

    def __init__(self, name, factory, nonempty=False):
        self.name = name
        self.factory = factory
        self.nonempty = nonempty

    def __repr__(self):
        return "AbsSeq(%s)" % self.name


class LenOf(object):
    """len() of an abstract sequence."""
    __slots__ = ("seq",)

    def __init__(self, seq):
        self.seq = seq

    def __repr__(self):
        return "LenOf(%s)" % self.seq


class SymLen(object):
    """len() of an abstract list: unknown base + saturating number of appends."""
    __slots__ = ("base", "added")

    def __init__(self, base, added):
        self.base = base
        self.added = added

    def __repr__(self):
        return "SymLen(%s+%r)" % (self.base, self.added)


class HObj(object):
    """Heap object.  kind: obj | list | dict | set | exc.
    ``open``: unknown fields read as fresh input Tops (materialised on first read).
    Heap objects are shared between forked states (copy-on-write): mutate only the
    object returned by ``State.wobj``."""
    __slots__ = ("cls", "fields", "kind", "open", "items", "count", "base", "label", "field_domains",
                 "owner", "_kc", "synthetic")

    def __init__(self, cls=None, fields=None, kind="obj", open=False, items=None, label=None,
                 field_domains=None):
        self.cls = cls              # ClassInfo | str | None
        self.fields = dict(fields or {})
        self.kind = kind
        self.open = open
        self.items = items          # list of values for concrete lists; None = abstract contents
        self.count = 0              # abstract list: saturating number of appends (0,1,GE2)
        self.base = None            # abstract list: symbolic base length name, or None (exact)
        self.label = label
        self.field_domains = field_domains or {}
        self.owner = None
        self._kc = None             # cached (key id, out refs) - reset by State.wobj
        self.synthetic = True       # built by a harness (field set not authoritative) unless constructed from source

    def copy(self):
        o = HObj(self.cls, self.fields, self.kind, self.open,
                 list(self.items) if self.items is not None else None, self.label, self.field_domains)
        o.count = self.count
        o.base = self.base
        o.synthetic = self.synthetic
        return o

    def clsname(self):
        if isinstance(self.cls, ClassInfo):
            return self.cls.name
        return self.cls


class Exc(object):
    """A raised exception (abstract): class + optional heap object."""
    __slots__ = ("cls", "ref", "origin", "internal")

    def __init__(self, cls, ref=None, origin=None, internal=None):
        self.cls = cls              # ClassInfo or builtin name (str)
        self.ref = ref
        self.origin = origin        # text: where it was raised
        self.internal = internal    # None | 'assert' | 'none-attr' | 'key' | 'index'

    def clsname(self):
        return self.cls.name if isinstance(self.cls, ClassInfo) else self.cls

    def __repr__(self):
        return "Exc(%s%s)" % (self.clsname(), (" @" + self.origin) if self.origin else "")


def _vkey_slow(v, ren=None):
    if isinstance(v, (tuple, list)):
        return ("T" if isinstance(v, tuple) else "L",) + tuple(vkey(x, ren) for x in v)
    if isinstance(v, (set, frozenset)):
        return ("S",) + tuple(sorted((vkey(x, ren) for x in v), key=repr))
    if isinstance(v, dict):
        return ("D",) + tuple(sorted(((vkey(k, ren), vkey(x, ren)) for k, x in v.items()), key=repr))
    if isinstance(v, ClassVal):
        return ("C", v.name())
    if isinstance(v, FuncVal):
        return ("F", v.func.fullname)
    if isinstance(v, BoundMeth):
        return ("B", vkey(v.self_val, ren), v.name)
    if isinstance(v, Builtin):
        return ("BI", v.name)
    if isinstance(v, ModuleVal):
        return ("M", getattr(v.mod, "name", v.mod))
    if isinstance(v, AbsSeq):
        return ("AS", v.name)
    if isinstance(v, PyFn):
        return ("PF", v.kind, vkey(v.parts, ren))
    if isinstance(v, ObjDict):
        return ("OD", vkey(v.ref, ren))
    if isinstance(v, LenOf):
        return ("LEN", v.seq)
    if isinstance(v, SymLen):
        return ("SL", v.base, vkey(v.added))
    if isinstance(v, SuperVal):
        return ("SUP", v.cls.name, vkey(v.self_val, ren))
    if v is GE2:
        return ("GE2",)
    if isinstance(v, Exc):
        return ("X", v.clsname(), vkey(v.ref, ren))
    if isinstance(v, (str, int, float, bool, bytes)) or v is None:
        return (type(v).__name__, v)
    if callable(v):
        return ("PY", getattr(v, "__name__", repr(v)))
    return ("?", repr(v))


_ATOMS = (str, int, float, bool, bytes, type(None))


def vkey(v, ren=None):
    """Hashable canonical key of a value (Refs renamed through ``ren``)."""
    t = type(v)
    if t in _ATOMS:
        return (t.__name__, v)
    if t is Ref:
        return ("R", ren.get(v.oid, v.oid) if ren is not None else v.oid)
    if t is EnumVal:
        return ("E", v.cls, v.name)
    if t is Top:
        return v.key()
    return _vkey_slow(v, ren)


def refs_in(v, out):
    t = type(v)
    if t in _ATOMS or t is EnumVal:
        return
    if isinstance(v, Ref):
        out.append(v.oid)
    elif isinstance(v, (tuple, list, set, frozenset)):
        for x in v:
            refs_in(x, out)
    elif isinstance(v, dict):
        for k, x in v.items():
            refs_in(k, out)
            refs_in(x, out)
    elif isinstance(v, BoundMeth):
        refs_in(v.self_val, out)
    elif isinstance(v, PyFn):
        refs_in(v.parts, out)
    elif isinstance(v, ObjDict):
        refs_in(v.ref, out)
    elif isinstance(v, SuperVal):
        refs_in(v.self_val, out)
    elif isinstance(v, Exc):
        refs_in(v.ref, out)
    elif isinstance(v, Top) and v.origin and v.origin[0] == "field":
        out.append(v.origin[1])


_INTERN = {}


def _intern(k):
    v = _INTERN.get(k)
    if v is None:
        v = len(_INTERN) + 1
        _INTERN[k] = v
    return v


DEBUG_COW = bool(__import__("os").environ.get("VERIF_DEBUG_COW"))


class State(object):
    """Abstract machine state: call stack of local frames, heap (copy-on-write),
    ghost (monitor) variables, the decision path that led here and flags."""

    _oid = itertools.count(1)
    _epoch = itertools.count(1)

    def __init__(self):
        self.frames = []        # list of dict
        self.heap = {}          # oid -> HObj (shared between forks; see wobj)
        self.ghost = {}         # name -> hashable value
        self.path = ()          # decisions (witness)
        self.imprecise = ()     # expressions whose precision loss was branched on
        self.trace = ()         # bounded event trace (witness only)
        self.pinned = ()        # oids kept alive across gc (harness roots)
        self.epoch = next(State._epoch)
        self.base_oid = 0       # oids <= base_oid: allocated by the harness before exploring

    def freeze_base(self):
        self.base_oid = max(self.heap) if self.heap else 0

    def fork(self):
        s = State()
        s.frames = [dict(f) for f in self.frames]
        s.heap = dict(self.heap)
        s.ghost = dict(self.ghost)
        s.path = self.path
        s.imprecise = self.imprecise
        s.trace = self.trace
        s.pinned = self.pinned
        s.base_oid = self.base_oid
        # neither side owns the shared objects any more
        self.epoch = next(State._epoch)
        return s

    # -- heap --
    def alloc(self, obj):
        oid = next(State._oid)
        obj.owner = self.epoch
        self.heap[oid] = obj
        return Ref(oid)

    def obj(self, ref):
        """Read access (do NOT mutate the result; use wobj)."""
        try:
            return self.heap[ref.oid]
        except KeyError:
            raise AnalysisError("dangling reference %r" % ref)

    def wobj(self, ref):
        """Write access: a private copy of the object if it is shared."""
        oid = ref.oid if isinstance(ref, Ref) else ref
        try:
            o = self.heap[oid]
        except KeyError:
            raise AnalysisError("dangling reference %r" % ref)
        if o.owner != self.epoch:
            o = o.copy()
            o.owner = self.epoch
            self.heap[oid] = o
        o._kc = None
        return o

    def note(self, text):
        self.path = self.path + (text,)

    def event(self, ev):
        if len(self.trace) < 60:
            self.trace = self.trace + (ev,)

    def mark_imprecise(self, what):
        if what not in self.imprecise:
            self.imprecise = self.imprecise + (what,)

    # -- canonical key (for loop fixpoints / merging) --
    @staticmethod
    def _obj_key(o, ren):
        return (o.clsname(), o.kind, o.open,
                tuple(sorted(((repr(k), vkey(v, ren)) for k, v in o.fields.items()))),
                vkey(o.items, ren) if o.items is not None else None,
                vkey(o.count), o.base)

    def _okc(self, o):
        """cached (interned key with raw oids, outgoing refs, refers to fresh objects?)"""
        kc = o._kc
        if kc is None or DEBUG_COW:
            out = []
            for k in o.fields:
                refs_in(o.fields[k], out)
            if o.items is not None:
                refs_in(o.items, out)
            fresh = any(r > self.base_oid for r in out)
            new = (_intern(self._obj_key(o, None)), tuple(out), fresh)
            if DEBUG_COW and kc is not None and kc != new and o.owner != self.epoch:
                raise AnalysisError("copy-on-write violated: shared %s object mutated in place" % o.clsname())
            o._kc = kc = new
        return kc

    def gc(self):
        """Drop unreachable objects allocated during the exploration; returns the
        reachable fresh oids in canonical (discovery) order."""
        roots = []
        for f in self.frames:
            for k in sorted(f):
                refs_in(f[k], roots)
        for k in sorted(self.ghost):
            refs_in(self.ghost[k], roots)
        roots.extend(self.pinned)
        base = self.base_oid
        heap = self.heap
        for oid in heap:
            if oid <= base:
                kc = self._okc(heap[oid])
                if kc[2]:
                    roots.extend(r for r in kc[1] if r > base)
        order = []
        seen = set()
        stack = [r for r in reversed(roots) if r > base]
        while stack:
            oid = stack.pop()
            if oid in seen or oid not in heap:
                continue
            seen.add(oid)
            order.append(oid)
            kc = self._okc(heap[oid])
            stack.extend(r for r in reversed(kc[1]) if r > base)
        if len(seen) + sum(1 for o in heap if o <= base) != len(heap):
            self.heap = {oid: o for oid, o in heap.items() if oid <= base or oid in seen}
        return order

    def key(self):
        order = self.gc()
        base = self.base_oid
        ren = {oid: -(i + 1) for i, oid in enumerate(order)}
        fr = tuple(tuple((k, vkey(f[k], ren)) for k in sorted(f)) for f in self.frames)
        hp = []
        heap = self.heap
        for oid in sorted(o for o in heap if o <= base):
            o = heap[oid]
            kc = self._okc(o)
            if kc[2]:
                hp.append((oid, _intern(self._obj_key(o, ren))))
            else:
                hp.append((oid, kc[0]))
        for oid in order:
            hp.append((ren[oid], _intern(self._obj_key(heap[oid], ren))))
        gh = tuple((k, vkey(self.ghost[k], ren)) for k in sorted(self.ghost))
        return (fr, tuple(hp), gh, bool(self.imprecise))
