# -*- coding: utf-8 -*-
"""Oracles written from the property statements and the documentation
(DESIGN.md appendix A) - deliberately NOT derived from the implementation."""
from __future__ import annotations

# A.1 status classes
PASSED_LIKE = ("passed", "xfailed", "xpassed", "pending_warn")
FAILURE = ("failed",)
ERROR_CLASS = ("error", "hook_error", "cleanup_error", "undefined", "pending")
SKIPPED = ("skipped",)
UNTESTED_CLASS = ("untested", "untested_pending", "untested_undefined")
RESERVED = ("unknown", "executing")
ALL_STATUS = RESERVED[:1] + ("untested", "executing") + SKIPPED + PASSED_LIKE[:3] + FAILURE + \
    ("error", "hook_error", "cleanup_error", "undefined", "pending", "pending_warn",
     "untested_pending", "untested_undefined")
HAS_FAILED = FAILURE + ERROR_CLASS
PENDING_CLASS = ("pending", "pending_warn", "untested_pending")
UNDEFINED_CLASS = ("undefined", "untested_undefined")

# statuses an element kind may end a run with
STEP_STATUSES = tuple(s for s in ALL_STATUS if s not in RESERVED + ("xfailed", "xpassed", "cleanup_error"))
SCENARIO_STATUSES = ("untested", "skipped", "passed", "failed", "error", "hook_error")
CONTAINER_STATUSES = SCENARIO_STATUSES


def status_class(name):
    for cls, members in (("passed", PASSED_LIKE), ("failure", FAILURE), ("error", ERROR_CLASS),
                         ("skipped", SKIPPED), ("untested", UNTESTED_CLASS), ("reserved", RESERVED)):
        if name in members:
            return cls
    raise KeyError(name)


# documented "From Inner Status to Outer Status" (docs/appendix.status.rst), as a function
def outer_from_inner(name):
    c = status_class(name)
    if c == "error":
        return "error"
    if c == "failure":
        return "failed"
    if name == "pending_warn":
        return "passed"
    if c == "untested":
        return "untested"
    return name


# A.2 step outcome table.  outcome: what the step function did.
def stepfunc_exc_status(ix, exc):
    """What the property says a raising step function means (by exception class)."""
    def sub(a, b):
        ca = ix.cls(a) if a in ix.classes_by_name else a
        cb = ix.cls(b) if b in ix.classes_by_name else b
        return ix.exc_is_subclass(ca, cb)
    if sub(exc, "AssertionError"):
        return "failed"
    # the two documented ways of saying "this step is pending" - named here, not derived from the class hierarchy
    # (the hierarchy is part of what is being checked)
    if exc in ("StepNotImplementedError", "PendingStepError") or sub(exc, "StepNotImplementedError"):
        return "pending"
    if sub(exc, "KeyboardInterrupt"):
        return "error"
    if sub(exc, "Exception"):
        return "error"
    return None         # non-Exception BaseException: not the runner's business


def expected_step_result(ix, found, before_failed, outcome, wip, dry, after_failed):
    """-> (set of acceptable final statuses, expected return value, aborted?) or 'escapes'."""
    if not found:
        return ({"untested_undefined"} if dry else {"undefined"}, False, False)
    aborted = False
    if before_failed:
        status = {"hook_error"}
    else:
        if outcome == "return":
            status = {"passed"}
        elif outcome == "skip-scenario":
            status = {"skipped"}
        else:
            base = stepfunc_exc_status(ix, outcome)
            if base is None:
                return "escapes"
            status = {base}
            if base == "pending":
                if dry:
                    status = set(PENDING_CLASS)
                elif wip:
                    status = {"pending_warn"}
            if outcome == "KeyboardInterrupt":
                aborted = True
    if after_failed:
        status = {"hook_error"}
    ret = not all(s in HAS_FAILED for s in status)
    if any(s in HAS_FAILED for s in status) and any(s not in HAS_FAILED for s in status):
        ret = None      # dry-run pending: either is acceptable
    return (status, ret, aborted)
