# -*- coding: utf-8 -*-
"""Abstract environment ("world") for exploring behave's run methods:
runner / config / context / formatter / registry stand-ins, user-code stubs that
are maximally nondeterministic, and the event vocabulary used by monitors.

Events emitted (tuples):
  ('hook', name, target_oid|None, failed:bool)
  ('push', layer) ('pop', raised:bool)
  ('capture', 'setup'|'start'|'stop'|'teardown')
  ('fmt', formatter_index, method, arg_oid|None)
  ('step.run', step_oid, result_kind)   ('stepfunc', outcome)
  ('child.run', oid, failed:bool)
  ('reporter', idx, method) ('abort',) ('undefined+',) ('root', attr, value)
"""
from __future__ import annotations

from .index import EnumVal, ClassInfo, AnalysisError
from .values import (Top, GE2, Ref, ClassVal, FuncVal, BoundMeth, HObj, Exc, State, AbsSeq)

# exception classes user code may raise (one representative per handler-relevant class)
USER_EXC = ["AssertionError", "StepNotImplementedError", "PendingStepError", "KeyboardInterrupt",
            "RuntimeError", "NotImplementedError", "StepParseError", "Exception", "SystemExit",
            "GeneratorExit"]

BOOL = "bool"


def S(name):
    return EnumVal("Status", name)


class World(object):
    """Builds states and stubs.  ``ix``: Index."""

    def __init__(self, ix, n_formatters=2):
        self.ix = ix
        self.n_formatters = n_formatters
        self.stubs = {}
        self._install_common()

    # ------------------------------------------------------------------
    # objects
    # ------------------------------------------------------------------
    def new_state(self):
        st = State()
        st.frames = []
        st.ghost["aborted"] = "entry"     # entry value unknown until first read
        return st

    def make_config(self, st, **fixed):
        dom = {k: BOOL for k in ("dry_run", "stop", "show_skipped", "junit", "verbose", "wip",
                                 "stdout_capture", "stderr_capture", "log_capture")}
        o = HObj("ConfigStub", {}, open=True, label="config", field_domains=dom)
        o.fields["tag_expression"] = st.alloc(HObj("TagExprStub", {}, label="tag_expression"))
        o.fields["name_re"] = st.alloc(HObj("NameReStub", {}, label="name_re"))
        o.fields["reporters"] = st.alloc(HObj("list", kind="list", items=[
            st.alloc(HObj("ReporterStub", {"idx": i}, label="reporter%d" % i)) for i in range(2)]))
        for k, v in fixed.items():
            o.fields[k] = v
        return st.alloc(o)

    def make_context(self, st):
        return st.alloc(HObj("ContextStub", {}, label="context"))

    def make_formatters(self, st):
        return st.alloc(HObj("list", kind="list", items=[
            st.alloc(HObj("FormatterStub", {"idx": i}, label="fmt%d" % i)) for i in range(self.n_formatters)]))

    def make_runner(self, st, config=None, real_class=None):
        cfg = config if config is not None else self.make_config(st)
        fields = {
            "config": cfg,
            "context": self.make_context(st),
            "formatters": self.make_formatters(st),
            "step_registry": st.alloc(HObj("RegistryStub", {}, label="registry")),
            "capture_controller": st.alloc(HObj("CaptureCtlStub", {}, open=True, label="capture_controller")),
        }
        und = HObj("list", kind="list", items=None, label="undefined_steps")
        und.base = "undef0"
        und.open = True         # what earlier scenarios left in it is an input
        if real_class is not None:
            fields["_undefined_steps"] = st.alloc(und)
            fields["hooks"] = st.alloc(HObj("HooksStub", {}, label="hooks"))
            fields["hook_failures"] = Top("hook_failures0", True)
            fields["features"] = st.alloc(HObj("list", kind="list", items=[]))
            fields["feature"] = None
            o = HObj(real_class, fields, label="runner")
        else:
            fields["undefined_steps"] = st.alloc(und)
            o = HObj("RunnerStub", fields, label="runner")
        r = st.alloc(o)
        st.pinned = st.pinned + (r.oid,)
        return r

    def make_step(self, st, status=None, label="step"):
        ci = self.ix.cls("behave.model:Step")
        o = HObj(ci, {
            "status": status if status is not None else Top("step.status0", True),
            "hook_failed": Top("bool:step.hook_failed0", True),
            "error_message": Top("step.error_message0", True),
            "exception": Top("step.exception0", True),
            "exc_traceback": Top("step.exc_traceback0", True),
            "duration": Top("step.duration0", True),
            "text": Top("step.text", True),
            "table": Top("step.table", True),
            "name": Top("step.name", True),
            "keyword": Top("step.keyword", True),
            "step_type": Top("step.step_type", True),
            "captured": st.alloc(HObj("CapturedStub", {}, label="captured")),
            "location": Top("step.location", True),
        }, label=label)
        return st.alloc(o)

    # ------------------------------------------------------------------
    # stubs
    # ------------------------------------------------------------------
    def _install_common(self):
        s = self.stubs

        def ret(v=None):
            return lambda it, st, args, kw, node: [(st, "val", v)]

        # -- formatter protocol: every method is an event
        for m in ("uri", "feature", "rule", "background", "scenario", "step", "match", "result",
                  "eof", "rule_finished", "close"):
            def fmt(it, st, args, kw, node, _m=m):
                f = st.obj(args[0])
                arg = args[1] if len(args) > 1 else None
                it.emit(st, ("fmt", f.fields.get("idx"), _m, arg.oid if isinstance(arg, Ref) else None))
                return [(st, "val", None)]
            s["FormatterStub." + m] = fmt
        for m in ("feature", "end"):
            def rep(it, st, args, kw, node, _m=m):
                f = st.obj(args[0])
                arg = args[1] if len(args) > 1 else None
                it.emit(st, ("reporter", f.fields.get("idx"), _m, arg.oid if isinstance(arg, Ref) else None))
                return [(st, "val", None)]
            s["ReporterStub." + m] = rep

        # -- context
        def ctx_push(it, st, args, kw, node):
            layer = kw.get("layer", args[1] if len(args) > 1 else None)
            it.emit(st, ("push", layer))
            return [(st, "val", None)]

        def ctx_pop(it, st, args, kw, node):
            s2 = st.fork()
            it.emit(st, ("pop", False))
            s2.note("%s: context._pop() raises (cleanup error)" % it.loc(node))
            it.emit(s2, ("pop", True))
            return [(st, "val", None), (s2, "raise", Exc("RuntimeError", None, "cleanup function"))]

        def ctx_do_cleanups(it, st, args, kw, node):
            s2 = st.fork()
            it.emit(st, ("cleanups", False))
            s2.note("%s: context._do_cleanups() raises" % it.loc(node))
            it.emit(s2, ("cleanups", True))
            return [(st, "val", None), (s2, "raise", Exc("RuntimeError", None, "cleanup function"))]

        def ctx_set_root(it, st, args, kw, node):
            it.emit(st, ("root", args[1], args[2]))
            if args[1] == "aborted":
                if args[2] is True:
                    st.ghost["aborted"] = True
                    it.emit(st, ("abort",))
            return [(st, "val", None)]

        def ctx_abort(it, st, args, kw, node):
            st.ghost["aborted"] = True
            it.emit(st, ("abort",))
            return [(st, "val", None)]
        s["ContextStub._push"] = ctx_push
        s["ContextStub._pop"] = ctx_pop
        s["ContextStub._do_cleanups"] = ctx_do_cleanups
        s["ContextStub._set_root_attribute"] = ctx_set_root
        s["ContextStub.abort"] = ctx_abort

        # -- runner (stub class)
        def run_hook(it, st, args, kw, node):
            return self.hook_summary(it, st, args[1], args[3] if len(args) > 3 else None, node)
        s["RunnerStub.run_hook"] = run_hook
        for m in ("setup", "start", "stop", "teardown"):
            def cap(it, st, args, kw, node, _m=m):
                it.emit(st, ("capture", _m))
                return [(st, "val", None)]
            s["RunnerStub.%s_capture" % m] = cap

        def abort(it, st, args, kw, node):
            st.ghost["aborted"] = True
            it.emit(st, ("abort",))
            return [(st, "val", None)]
        s["RunnerStub.abort"] = abort

        # -- registry / match
        def find_match(it, st, args, kw, node):
            s2 = st.fork()
            s2.note("%s: no step definition matches" % it.loc(node))
            s2.ghost["found"] = False
            it.emit(s2, ("find_match", False))
            m = st.alloc(HObj("MatchStub", {}, label="match"))
            st.note("%s: a step definition matches" % it.loc(node))
            st.ghost["found"] = True
            it.emit(st, ("find_match", True))
            return [(st, "val", m), (s2, "val", None)]
        s["RegistryStub.find_match"] = find_match
        s["MatchStub.run"] = self.user_step_function
        s["NoMatch"] = lambda it, st, args, kw, node: [(st, "val", st.alloc(HObj("MatchStub", {"nomatch": True}, label="nomatch")))]

        # -- selection
        s["TagExprStub.check"] = lambda it, st, args, kw, node: [(st, "val", Top("bool:tags-select", True))]
        s["NameReStub.search"] = lambda it, st, args, kw, node: [(st, "val", Top("name-match", True))]

        # -- captured
        s["CapturedStub.reset"] = ret(None)
        s["CapturedStub.make_report"] = lambda it, st, args, kw, node: [(st, "val", Top("capture-report", True))]
        s["behave.textutil.text"] = lambda it, st, args, kw, node: [(st, "val", "<text>")]
        s["text"] = s["behave.textutil.text"]
        s["time.time"] = lambda it, st, args, kw, node: [(st, "val", Top("time", True))]
        s["BasicStatement.store_exception_context"] = self.store_exc

    def store_exc(self, it, st, args, kw, node):
        o = st.wobj(args[0])
        o.fields["exception"] = args[1]
        o.fields["exc_traceback"] = Top("traceback", True)
        return [(st, "val", None)]

    # -- the aborted flag: unknown at entry, sticky once read/set
    def read_aborted(self, it, st, node=None):
        v = st.ghost.get("aborted")
        if v == "entry":
            s2 = st.fork()
            st.ghost["aborted"] = False
            st.note("%s: run not aborted so far" % (it.loc(node) if node is not None else "entry"))
            s2.ghost["aborted"] = True
            s2.ghost["aborted_at_entry"] = True
            s2.note("%s: run already aborted" % (it.loc(node) if node is not None else "entry"))
            return [(st, "val", False), (s2, "val", True)]
        return [(st, "val", v)]

    # -- summary of ModelRunner.run_hook (obligation H1 proves it on the real source)
    def hook_summary(self, it, st, name, target, node):
        """dry-run: no call.  Otherwise user code runs: returns or raises; an Exception
        is contained: target.hook_failed = True (tag hooks: the current element),
        hook_failures += 1, *_all hooks abort.  Non-Exception BaseException escapes."""
        outs = []
        cfgs = it.get_attr(st, st.frames[-1].get("runner") if False else self._runner_of(st), "config", node)
        for (s0, _, cfg) in cfgs:
            for (s1, _, dry) in it.get_attr(s0, cfg, "dry_run", node):
                for (s2, d) in it.truth(s1, dry, node):
                    if d:
                        outs.append((s2, "val", None))
                        continue
                    # hook may be absent: then no call either (same as a hook that returns)
                    tgt = target
                    if isinstance(name, str) and "tag" in name:
                        tgt = s2.ghost.get("current_element")
                        tgt = Ref(tgt) if tgt is not None else None
                    # (a0) an after-hook first READS the status of its element (element.status computes and caches a final value)
                    starts = [s2]
                    if s2.ghost.get("hooks_may_peek") and isinstance(name, str) and name.startswith("after_") and name != "after_all" \
                            and isinstance(tgt, Ref) and isinstance(s2.obj(tgt).cls, ClassInfo) and s2.obj(tgt).cls.lookup("status") is not None:
                        sp = s2.fork()
                        peeked = [x for x in it.get_attr(sp, tgt, "status", node) if x[1] == "val"]
                        for (s_p, _, _) in peeked:
                            s_p.ghost["hook_peeked_status"] = True
                            s_p.note("%s: hook %s reads the status of its element" % (it.loc(node), name))
                            starts.append(s_p)
                    if len(starts) > 1:
                        outs_all = []
                        for s_start in starts[1:]:
                            s_start.ghost["hooks_may_peek"] = False
                            outs_all.extend(self.hook_summary(it, s_start, name, target, node))
                        for (s_x, _, _) in outs_all:
                            s_x.ghost["hooks_may_peek"] = True
                        outs.extend(outs_all)
                    # (a) returns normally
                    sa = s2.fork()
                    it.emit(sa, ("hook", name, tgt.oid if isinstance(tgt, Ref) else None, False))
                    sa.note("%s: hook %s returns" % (it.loc(node), name))
                    outs.append((sa, "val", None))
                    if not sa.ghost.get("no_user_abort"):
                        sab = sa.fork()
                        sab.ghost["aborted"] = True
                        sab.note("%s: hook %s calls context.abort()" % (it.loc(node), name))
                        it.emit(sab, ("abort",))
                        outs.append((sab, "val", None))
                    # (a') a before-hook of a feature/rule/scenario skips its element (element.skip() / mark_skipped())
                    if s2.ghost.get("hooks_may_skip") and isinstance(name, str) and name.startswith("before_") and \
                            name not in ("before_all", "before_step") and isinstance(tgt, Ref):
                        ss = s2.fork()
                        it.emit(ss, ("hook", name, tgt.oid, False))
                        ss.wobj(tgt).fields["should_skip"] = True
                        ss.ghost["hook_skipped_element"] = True
                        ss.note("%s: hook %s calls skip() on its element and returns" % (it.loc(node), name))
                        outs.append((ss, "val", None))
                    # (b) raises Exception: contained
                    sb = s2.fork()
                    sb.note("%s: hook %s raises an Exception" % (it.loc(node), name))
                    it.emit(sb, ("hook", name, tgt.oid if isinstance(tgt, Ref) else None, True))
                    sb.ghost["hook_failures"] = True
                    if isinstance(name, str) and "all" in name:
                        sb.ghost["aborted"] = True
                        it.emit(sb, ("abort",))
                    elif isinstance(tgt, Ref):
                        sb.wobj(tgt).fields["hook_failed"] = True
                    outs.append((sb, "val", None))
                    # (c) raises non-Exception BaseException: escapes run_hook
                    if s2.ghost.get("hooks_may_raise_base"):
                        sc = s2.fork()
                        sc.note("%s: hook %s raises KeyboardInterrupt" % (it.loc(node), name))
                        it.emit(sc, ("hook", name, tgt.oid if isinstance(tgt, Ref) else None, "base"))
                        outs.append((sc, "raise", Exc("KeyboardInterrupt", None, "hook " + str(name))))
        return outs

    def _runner_of(self, st):
        for oid in st.pinned:
            o = st.heap.get(oid)
            if o is not None and o.label == "runner":
                return Ref(oid)
        raise AnalysisError("world: no runner object")

    # -- user step function: every outcome class the runner distinguishes
    def user_step_function(self, it, st, args, kw, node):
        outs = []
        ok = st.fork()
        ok.note("%s: step function returns" % it.loc(node))
        it.emit(ok, ("stepfunc", "return"))
        outs.append((ok, "val", None))
        # the step function skipped its scenario (and thereby itself)
        cur = st.ghost.get("current_scenario")
        step = st.ghost.get("current_step")
        if step is not None:
            sk = st.fork()
            sk.note("%s: step function calls scenario.skip() and returns" % it.loc(node))
            # Scenario.skip() marks the steps that are not executed yet (status untested / skipped) - the running step
            # among them, as long as Step.run has left it in one of these states
            now = sk.obj(Ref(step)).fields.get("status")
            if isinstance(now, EnumVal) and now.name not in ("untested", "skipped"):
                sk.note("%s: scenario.skip() does not touch the running step: its status is %s while the step function runs" % (it.loc(node), now.name))
            else:
                sk.wobj(Ref(step)).fields["status"] = S("skipped")
            if cur is not None:
                sk.wobj(Ref(cur)).fields["should_skip"] = True
            it.emit(sk, ("stepfunc", "skip-scenario"))
            outs.append((sk, "val", None))
        for exc in USER_EXC:
            se = st.fork()
            se.note("%s: step function raises %s" % (it.loc(node), exc))
            it.emit(se, ("stepfunc", exc))
            cls = exc
            if exc in self.ix.classes_by_name:
                cls = self.ix.cls(exc)
            outs.append((se, "raise", Exc(cls, None, "step function")))
        return outs


def status_members(ix):
    return [m for m in ix.enum_members("Status")]
