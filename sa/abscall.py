# -*- coding: utf-8 -*-
"""Call semantics of the abstract explorer: dispatch, builtins, container methods."""
from __future__ import annotations

import ast

from .index import (AnalysisError, EnumVal, ClassInfo, FuncInfo, Module, NotConst, unparse, dotted)
from .values import (Top, GE2, Ref, ClassVal, FuncVal, BoundMeth, Builtin, ModuleVal,
                     SuperVal, AbsSeq, LenOf, SymLen, HObj, Exc, State, vkey)


from . import lazyiter as _lazyiter

_UNS = []


def _U():
    if not _UNS:
        from .absint import Unsupported
        _UNS.append(Unsupported)
    return _UNS[0]


LIST_CAP = 3
MUTATORS = {"append", "extend", "insert", "pop", "clear", "sort", "reverse", "remove", "update",
            "setdefault", "add", "discard"}
PURE_STR_METHODS = {"strip", "lstrip", "rstrip", "lower", "upper", "startswith", "endswith", "format",
                    "split", "splitlines", "join", "replace", "index", "find", "encode", "decode",
                    "rsplit", "title", "capitalize", "isdigit", "count", "ljust", "rjust", "partition",
                    "rpartition", "isspace", "expandtabs", "zfill", "center", "isalnum", "isalpha"}


def eval_call(self, st, node):
    res = []
    if isinstance(node.func, ast.Name) and node.func.id in ("any", "all") and len(node.args) == 1 and not node.keywords \
            and isinstance(node.args[0], ast.GeneratorExp) and node.func.id not in st.frames[-1] and node.func.id not in self.stubs:
        return self.x_any_all(st, node, node.args[0], node.func.id == "any")
    # -- evaluate callee
    for (s, k, fn) in self.eval(st, node.func):
        if k != "val":
            res.append((s, k, fn))
            continue
        # -- positional args
        for (s2, k2, args) in self.eval_list(s, node.args):
            if k2 != "val":
                res.append((s2, k2, args))
                continue
            kw_nodes = [kw.value for kw in node.keywords]
            for (s3, k3, kwvals) in self.eval_list(s2, kw_nodes):
                if k3 != "val":
                    res.append((s3, k3, kwvals))
                    continue
                kwargs = {}
                for kw, v in zip(node.keywords, kwvals):
                    if kw.arg is None:
                        if isinstance(v, tuple) and len(v) == 2 and v[0] == "kwargs":
                            kwargs.update(dict(v[1]))
                        elif isinstance(v, Ref) and s3.obj(v).kind == "dict" and s3.obj(v).items is not None:
                            kwargs.update({kk: vv for kk, vv in s3.obj(v).items})
                        else:
                            kwargs["**"] = v
                    else:
                        kwargs[kw.arg] = v
                if ((isinstance(fn, Top) and fn.domain is None) or (isinstance(fn, ModuleVal) and not isinstance(fn.mod, Module)) or
                        (isinstance(fn, Builtin) and isinstance(node.func, ast.Name) and fn.name == node.func.id)) \
                        and isinstance(node.func, ast.Name) and node.func.id in self.stubs and callable(self.stubs[node.func.id]):
                    # a module-level alias the index cannot resolve (NAME = module.attr): the harness stub by that name
                    res.extend(self.stubs[node.func.id](self, s3, list(args), kwargs, node))
                    continue
                if isinstance(fn, Top) and not fn.input and fn.domain is None and isinstance(node.func, ast.Attribute) \
                        and node.func.attr in MUTATORS and args and not getattr(self, "allow_guess", False) \
                        and getattr(self, "strict_unknown_mutation", True):
                    # x.append(...) on a value the interpreter could not determine: the effect would be lost silently
                    raise _U()("%s() on a value the interpreter does not know (%s) at %s: its effect cannot be followed"
                               % (node.func.attr, fn.tag, self.loc(node)))
                res.extend(apply(self, s3, fn, list(args), kwargs, node))
    return res


def apply(self, st, fn, args, kwargs, node):
    """Call an abstract callable. -> outcomes ('val' | 'raise')."""
    U = _U()
    if isinstance(fn, Top) and fn.domain is not None:
        out = []
        for (s2, c) in self.concretize(st, fn, node):
            out.extend(apply(self, s2, c, args, kwargs, node))
        return out
    if isinstance(fn, FuncVal):
        return self.call_function(st, fn.func, args, kwargs, node)
    if isinstance(fn, BoundMeth):
        return call_bound(self, st, fn, args, kwargs, node)
    if isinstance(fn, Builtin):
        return call_builtin(self, st, fn.name, args, kwargs, node)
    if isinstance(fn, ClassVal):
        return construct(self, st, fn, args, kwargs, node)
    if isinstance(fn, ModuleVal):
        return call_external(self, st, _modname(fn), args, kwargs, node)
    if isinstance(fn, Top):
        if fn.truth is False:
            return self.raise_exc(st, "TypeError", node, "none-call", "call of falsy value %s" % fn.tag)
        self.stats["opaque_calls"].add("unknown:" + fn.tag)
        return [(st, "val", Top("call:" + fn.tag, fn.input))]
    if fn is None:
        return self.raise_exc(st, "TypeError", node, "none-call", "call of None")
    if isinstance(fn, Ref) and st.obj(fn).kind == "closure":
        stub = self.stubs.get("@closure")
        if stub:
            return stub(self, st, [fn] + args, kwargs, node)
        return self.call_closure(st, fn, args, kwargs, node)
    if isinstance(fn, tuple) and fn and fn[0] in ("lambda", "closure", "localclass"):
        stub = self.stubs.get("@closure")
        if stub:
            return stub(self, st, [fn] + args, kwargs, node)
        return [(st, "val", Top("closure-call", False))]
    if callable(fn) and not isinstance(fn, type):
        # python-level stub stored as a value (harness-provided callable)
        return fn(self, st, args, kwargs, node)
    if isinstance(fn, Ref):
        o = st.obj(fn)
        if isinstance(o.cls, ClassInfo):
            m = o.cls.lookup("__call__")
            if m is not None:
                return self.call_function(st, m, args, kwargs, node, self_val=fn)
            return self.raise_exc(st, "TypeError", node, "not-callable", "%s object is not callable" % o.cls.name)
    raise U("call of %r at %s" % (fn, self.loc(node)))


def _modname(mv):
    return mv.mod.name if isinstance(mv.mod, Module) else mv.mod


class ReVal(object):
    """a compiled regular expression with constant pattern: its methods fold on constant text (stdlib re is trusted)"""
    abs_type = "Pattern"

    def __init__(self, pattern, flags=0):
        import re
        self.rx = re.compile(pattern, flags)

    def __repr__(self):
        return "re(%r)" % self.rx.pattern

    def abs_truth(self):
        return True

    def abs_getattr(self, it, st, name):
        if name == "pattern":
            return self.rx.pattern
        if name == "groupindex":
            return st.alloc(HObj("dict", kind="dict", items=list(self.rx.groupindex.items())))
        if name == "groups":
            return self.rx.groups
        return KeyError

    def abs_call(self, it, st, name, args, kwargs, node):
        if name in ("sub", "subn") and len(args) >= 2 and isinstance(args[1], str) and not isinstance(args[0], (str, Top)) and not kwargs:
            # replacement computed by a function of the program: called (through the interpreter) for every match
            repl = args[0]
            failed = []

            def cb(m, _it=it, _st=st):
                outs = apply(_it, _st, repl, [ReMatch(m)], {}, node)
                if len(outs) == 1 and outs[0][1] == "val" and isinstance(outs[0][2], str) and outs[0][0] is _st:
                    return outs[0][2]
                failed.append(outs)
                return ""
            try:
                r = getattr(self.rx, name)(cb, args[1], *[a for a in args[2:] if isinstance(a, int)])
            except Exception:       # noqa
                failed.append("error")
                r = None
            if not failed:
                return [(st, "val", tuple(r) if isinstance(r, tuple) else r)]
            return [(st, "val", Top("re.%s(callable)" % name, False))]
        if name in ("sub", "split", "findall", "subn") and all(isinstance(a, (str, int)) for a in args) and not kwargs:
            r = getattr(self.rx, name)(*args)
            return [(st, "val", tuple(r) if isinstance(r, list) else r)]
        if name in ("match", "search", "fullmatch") and all(isinstance(a, (str, int)) for a in args) and not kwargs:
            m = getattr(self.rx, name)(*args)
            return [(st, "val", None if m is None else ReMatch(m))]
        return [(st, "val", Top("re.%s(%s)" % (name, self.rx.pattern), all(not isinstance(a, Top) or a.input for a in args)))]


class ReMatch(object):
    """result of a folded match: group()/groups()/groupdict()/start()/end()/span() fold too"""
    abs_type = "Match"

    def __init__(self, m):
        self.m = m

    def __repr__(self):
        return "match(%r)" % (self.m.group(0),)

    def abs_truth(self):
        return True

    def abs_call(self, it, st, name, args, kwargs, node):
        if name in ("group", "groups", "groupdict", "start", "end", "span") and all(isinstance(a, (str, int)) for a in args) and not kwargs:
            r = getattr(self.m, name)(*args)
            if isinstance(r, dict):
                return [(st, "val", st.alloc(HObj("dict", kind="dict", items=list(r.items()))))]
            return [(st, "val", r)]
        return [(st, "val", Top("match." + name, False))]


def fold_regex_call(self, name, args, kwargs):
    """re.<fn>(constant...) folded, when the interpreter is asked to (fold_regex)"""
    import re
    if not getattr(self, "fold_regex", False) or not all(isinstance(a, (str, int)) for a in args) \
            or not all(k_ in ("maxsplit", "count", "flags") and isinstance(v_, int) for k_, v_ in kwargs.items()):
        return KeyError
    fn = name.split(".")[-1]
    try:
        if fn == "compile":
            return ReVal(*args, **kwargs)
        if fn in ("sub", "split", "findall", "escape"):
            r = getattr(re, fn)(*args, **kwargs)
            return tuple(r) if isinstance(r, list) else r
        if fn in ("match", "search", "fullmatch"):
            m = getattr(re, fn)(*args, **kwargs)
            return None if m is None else ReMatch(m)
    except re.error:
        return KeyError
    return KeyError


def fold_regex_const(self, node, mod):
    """NAME = re.compile(<constants>[, re.FLAG | ...]) as a module or class constant -> ReVal, else KeyError"""
    import re
    if not getattr(self, "fold_regex", False) or not isinstance(node, ast.Call) or node.keywords:
        return KeyError
    fn = self.ix.resolve_expr(mod, node.func)
    if not (isinstance(fn, tuple) and fn[0] == "ext" and fn[1] == "re.compile"):
        return KeyError

    def flag(e):
        if isinstance(e, ast.BinOp) and isinstance(e.op, ast.BitOr):
            return flag(e.left) | flag(e.right)
        r = self.ix.resolve_expr(mod, e)
        if isinstance(r, tuple) and r[0] == "ext" and r[1].startswith("re.") and hasattr(re, r[1][3:]):
            return int(getattr(re, r[1][3:]))
        return self.ix.fold(e, mod)
    try:
        cargs = [self.ix.fold(node.args[0], mod)] + [flag(a) for a in node.args[1:]]
    except NotConst:
        return KeyError
    return fold_regex_call(self, "re.compile", cargs, {})


def call_external(self, st, name, args, kwargs, node):
    stub = self.stubs.get(name)
    if stub is not None:
        return stub(self, st, args, kwargs, node)
    last = name.split(".")[-1]
    if name == "inspect.isgenerator" and len(args) == 1 and not kwargs and not isinstance(args[0], Top):
        return [(st, "val", isinstance(args[0], Ref) and _lazyiter.is_generator_object(st, args[0]))]
    if name == "inspect.isgeneratorfunction" and len(args) == 1 and not kwargs and isinstance(args[0], (FuncVal, BoundMeth)):
        fn = args[0].func
        if fn is not None:
            from .absint import _has_own_yield
            return [(st, "val", bool(_has_own_yield(fn.node.body)))]
    if name in ("six.iteritems", "six.iterkeys", "six.itervalues", "six.viewitems", "six.viewkeys", "six.viewvalues") and len(args) == 1 \
            and not kwargs and not isinstance(args[0], Top):
        # six.iteritems(d) is d.items() (iterated once by every caller in this code base)
        meth = last[4:]
        outs = self.get_attr(st, args[0], meth, node)
        res = []
        for (s1, k1, v1) in outs:
            if k1 != "val":
                res.append((s1, k1, v1))
            else:
                res.extend(apply(self, s1, v1, [], {}, node))
        return res
    if name in ("six.moves.zip", "six.moves.range", "six.moves.map", "six.moves.filter", "builtins.zip", "builtins.range"):
        return call_builtin(self, st, last, args, kwargs, node)
    if name in ("six.unichr", "builtins.chr", "six.moves.builtins.chr") and len(args) == 1 and isinstance(args[0], int) and not isinstance(args[0], bool) \
            and 0 <= args[0] <= 0x10FFFF:
        return [(st, "val", chr(args[0]))]
    if name.startswith("re."):
        r = fold_regex_call(self, name, args, kwargs)
        if r is not KeyError:
            return [(st, "val", r)]
    if name in ("codecs.decode", "codecs.encode") and 1 <= len(args) <= 3 and not kwargs and all(isinstance(a, (str, bytes)) for a in args) \
            and getattr(self, "int_sat", 2) > 2:
        import codecs as _codecs
        try:
            r = getattr(_codecs, name.split(".")[1])(*args)
        except Exception as e:     # noqa
            return self.raise_exc(st, type(e).__name__, node, "codecs", str(e))
        if isinstance(r, (str, bytes)):
            return [(st, "val", r)]
    if name in ("bisect.bisect", "bisect.bisect_right", "bisect.bisect_left") and len(args) == 2 and not kwargs and not isinstance(args[0], Top):
        import bisect as _bisect
        kind_, seq_ = self.iter_values(st, args[0], node)
        if kind_ == "concrete" and isinstance(args[1], (int, str)) and not isinstance(args[1], bool) and seq_ \
                and all(type(x) is type(args[1]) for x in seq_):
            return [(st, "val", getattr(_bisect, name.split(".")[1])(list(seq_), args[1]))]
        if kind_ == "concrete" and not seq_:
            return [(st, "val", 0)]
    if name == "unicodedata.normalize" and len(args) == 2 and not kwargs and all(isinstance(a, str) for a in args):
        import unicodedata as _ud
        try:
            return [(st, "val", _ud.normalize(args[0], args[1]))]
        except ValueError as e:
            return self.raise_exc(st, "ValueError", node, "unicodedata", str(e))
    if name in ("six.text_type", "six.u") and len(args) == 1 and not kwargs and isinstance(args[0], str):
        return [(st, "val", args[0])]
    if name in ("time.time",):
        return [(st, "val", Top("time", True))]
    if name.startswith(("operator.", "functools.", "itertools.", "collections.")):
        r = _lazyiter.call_ext(self, st, name, args, kwargs, node)
        if r is not KeyError:
            return r
    if name in ("itertools.chain",):
        return [(st, "val", chain(self, st, args, node))]
    if name in ("copy.copy", "copy.deepcopy"):
        return [(st, "val", Top(name, False))]
    if name in ("sys.exc_info",):
        return [(st, "val", (Top("exc_type"), Top("exc_value"), Top("exc_tb")))]
    self.stats["opaque_calls"].add(name)
    inp = False
    return [(st, "val", Top("ext:" + name, inp))]


def chain(self, st, args, node):
    """itertools.chain over concrete / abstract iterables."""
    parts = []
    for a in args:
        kind, seq = self.iter_values(st, a, node)
        parts.append((kind, seq))
    if all(k == "concrete" for k, _ in parts):
        return tuple(x for _, seq in parts for x in seq)
    names = "+".join(seq.name if k == "abs" else "lit" for k, seq in parts)

    def factory(interp, s, _parts=parts):
        out = []
        for k, seq in _parts:
            if k == "abs":
                out.extend(seq.factory(interp, s.fork()))
            else:
                for x in seq:
                    out.append((s.fork(), x, "lit"))
        return out
    return AbsSeq("chain(%s)" % names, factory)


def call_bound(self, st, bm, args, kwargs, node):
    U = _U()
    recv = bm.self_val
    if bm.func is not None:
        if bm.func.kind == "classmethod":
            return self.call_function(st, bm.func, args, kwargs, node, self_val=recv if isinstance(recv, ClassVal) else ClassVal(self.x_class_of(st, recv)))
        return self.call_function(st, bm.func, args, kwargs, node, self_val=recv)
    name = bm.name
    # -- stubbed method of an object without in-repo class (e.g. formatter, hooks)
    if isinstance(recv, Ref):
        o = st.obj(recv)
        key = (o.clsname() or "") + "." + name
        if key in self.stubs:
            return self.stubs[key](self, st, [recv] + args, kwargs, node)
        if o.kind in ("list", "dict", "set") and name in MUTATORS:
            o = st.wobj(recv)
        if o.kind == "list":
            return list_method(self, st, recv, o, name, args, kwargs, node)
        if o.kind == "dict":
            return dict_method(self, st, recv, o, name, args, kwargs, node)
        if o.kind == "set":
            return set_method(self, st, recv, o, name, args, kwargs, node)
        if name.startswith("super."):
            return [(st, "val", None)]
        raise U("method %s on %s at %s" % (name, o.clsname(), self.loc(node)))
    if name.startswith("super."):
        return [(st, "val", None)]
    if isinstance(recv, ClassVal) and recv.name() + "." + name in self.stubs:
        return self.stubs[recv.name() + "." + name](self, st, [recv] + args, kwargs, node)
    if hasattr(recv, "abs_call"):
        return recv.abs_call(self, st, name, args, kwargs, node)
    if isinstance(recv, str):
        return str_method(self, st, recv, name, args, kwargs, node)
    if isinstance(recv, (tuple, frozenset)):
        if name == "index" or name == "count":
            return [(st, "val", Top("tuple." + name))]
        if name in ("union", "copy", "difference", "intersection"):
            return [(st, "val", Top("fs." + name))]
    if isinstance(recv, (int, float)):
        if hasattr(recv, name):
            return [(st, "val", Top("num." + name))]
        return self.raise_exc(st, "AttributeError", node, "num-attr", "%r object has no attribute %r" % (type(recv).__name__, name))
    if isinstance(recv, bytes) and name in ("decode", "strip", "lstrip", "rstrip", "startswith", "endswith", "replace", "split", "splitlines") \
            and all(isinstance(a, (bytes, str, int)) or a is None for a in args) and all(isinstance(v, (str, int)) for v in kwargs.values()):
        try:
            r = getattr(recv, name)(*args, **kwargs)
        except Exception as e:      # noqa
            return self.raise_exc(st, type(e).__name__, node, "bytes", str(e))
        if isinstance(r, list):
            r = st.alloc(HObj("list", kind="list", items=list(r)))
        return [(st, "val", r)]
    raise U("method %s on %r at %s" % (name, recv, self.loc(node)))


def str_method(self, st, s, name, args, kwargs, node):
    if name == "format" and not kwargs and any(hasattr(a, "abs_str") for a in args):
        try:
            return [(st, "val", s.format(*[a.abs_str() if hasattr(a, "abs_str") else a for a in args]))]
        except Exception:       # noqa
            pass
    if name == "format" and kwargs and "**" not in kwargs and all(_plain(a) for a in args) and all(_plain(v) for v in kwargs.values()):
        try:
            return [(st, "val", s.format(*args, **kwargs))]
        except Exception as e:     # noqa
            return self.raise_exc(st, type(e).__name__, node, "str", str(e))
    if name == "format" and "**" not in kwargs and any(isinstance(v, Ref) for v in list(args) + list(kwargs.values())):
        # "{row.id} {examples.name}".format(row=obj, ...): attribute chains on heap objects whose leaves are plain constants
        class _Unknown(Exception):
            pass

        class _Proxy(object):
            def __init__(self, ref):
                object.__setattr__(self, "_ref", ref)

            def __getattr__(self, attr):
                o = st.obj(object.__getattribute__(self, "_ref"))
                if o.kind != "obj" and o.kind is not None and o.kind not in ("obj",):
                    raise _Unknown()
                if attr not in o.fields or attr.startswith("@"):
                    if o.open:
                        raise _Unknown()
                    raise AttributeError(attr)
                return wrap(o.fields[attr])

            def __format__(self, spec):
                raise _Unknown()      # str() of an object: not folded here

        def wrap(v):
            if isinstance(v, Ref):
                return _Proxy(v)
            if _plain(v):
                return v
            raise _Unknown()
        try:
            return [(st, "val", s.format(*[wrap(a) for a in args], **{k_: wrap(v_) for k_, v_ in kwargs.items()}))]
        except _Unknown:
            pass
        except Exception as e:     # noqa
            return self.raise_exc(st, type(e).__name__, node, "str", str(e))
    if name == "translate" and len(args) == 1 and not kwargs and isinstance(args[0], Ref) and st.obj(args[0]).kind == "dict" \
            and st.obj(args[0]).items is not None and all(isinstance(k_, int) and (isinstance(v_, (str, int)) or v_ is None) for k_, v_ in st.obj(args[0]).items):
        return [(st, "val", s.translate(dict(st.obj(args[0]).items)))]
    if name in PURE_STR_METHODS and all(_plain(a) for a in args) and not kwargs:
        try:
            r = getattr(s, name)(*args)
        except Exception as e:     # noqa
            return self.raise_exc(st, type(e).__name__, node, "str", str(e))
        if isinstance(r, list):
            r = st.alloc(HObj("list", kind="list", items=list(r)))
        return [(st, "val", r)]
    if name == "join" and len(args) == 1:
        kind, seq = None, None
        try:
            kind, seq = self.iter_values(st, args[0], node)
        except AnalysisError:
            pass
        if kind == "concrete" and all(isinstance(x, str) for x in seq):
            return [(st, "val", s.join(seq))]
    inp = any(isinstance(a, Top) and a.input for a in args) and not any(isinstance(a, Top) and not a.input for a in args)
    return [(st, "val", Top("str." + name, inp))]


def _hashable_key(k):
    try:
        hash(k)
        return True
    except TypeError:
        return False


def _plain(v):
    if isinstance(v, tuple):
        return all(_plain(x) for x in v)
    return isinstance(v, (str, int, float, bool)) or v is None


def list_method(self, st, ref, o, name, args, kwargs, node):
    U = _U()
    if name in ("append", "extend", "insert") and "@sink" in o.fields:
        return [(st, "val", None)]
    if name == "append" and "@sat1" in o.fields:
        o.count = 1
        return [(st, "val", None)]
    if name == "append":
        if o.items is not None and len(o.items) >= getattr(self, 'list_cap', LIST_CAP):
            # widening: long concrete lists become abstract (length >= 2, elements unknown)
            o.fields["@elem"] = o.items[-1]
            o.items = None
            o.count = GE2
        if o.items is not None:
            o.items.append(args[0])
        else:
            o.count = 1 if o.count == 0 else GE2
            if "@noelem" not in o.fields:
                o.fields["@elem"] = args[0]
        self.emit(st, ("append", ref.oid, o.label, args[0]))
        return [(st, "val", None)]
    if name == "extend":
        self.emit(st, ("extend", ref.oid, o.label, args[0]))
        self.emit(st, ("mutate", ref.oid, o.label, "extend"))
    if name == "extend" and "@sat1" in o.fields:
        a0 = args[0]
        grow = True
        if isinstance(a0, Ref):
            ao = st.obj(a0)
            if ao.items is not None:
                grow = len(ao.items) > 0
            elif ao.base is None:
                grow = ao.count != 0
            else:
                grow = None
        if grow is True:
            o.count = 1
        elif grow is None and o.count == 0:
            o.base = "maybe-empty"
        return [(st, "val", None)]
    if name == "extend":
        kind, seq = (None, None)
        if not isinstance(args[0], Top):
            kind, seq = self.iter_values(st, args[0], node)
        if kind == "concrete" and o.items is not None and len(o.items) + len(seq) <= getattr(self, 'list_cap', LIST_CAP):
            o.items.extend(seq)
        elif kind == "concrete" and not seq:
            pass
        else:
            nonempty = (kind == "concrete" and len(seq) > 0) or (o.items is not None and len(o.items) > 0) \
                or (o.items is None and o.count != 0)
            if isinstance(args[0], Ref):
                ao = st.obj(args[0])
                if ao.items is None and ao.count != 0:
                    nonempty = True
            o.items = None
            if nonempty:
                o.count = GE2 if o.count in (1, GE2) else 1
            else:
                o.base = o.base or ("ext@%s" % getattr(node, "lineno", 0))
        return [(st, "val", None)]
    if name == "insert":
        if o.items is not None and isinstance(args[0], int):
            o.items.insert(args[0], args[1])
        else:
            o.items = None if o.items is None else o.items
            o.count = 1 if o.count == 0 else GE2
        return [(st, "val", None)]
    if name == "pop":
        if o.items is not None:
            if not o.items:
                return self.raise_exc(st, "IndexError", node, "index", "pop from empty list")
            idx = args[0] if args else -1
            if isinstance(idx, int):
                return [(st, "val", o.items.pop(idx))]
        return [(st, "val", Top("list.pop", o.open))]
    if name in ("sort", "reverse", "clear"):
        if name == "clear":
            o.items = [] if o.items is not None else None
        elif name == "reverse" and o.items is not None:
            o.items = list(reversed(o.items))
        elif name == "sort" and o.items is not None and len(o.items) > 1:
            keyf = kwargs.get("key")
            keys = []
            for x in o.items:
                if keyf is None:
                    k_ = x
                else:
                    outs = apply(self, st, keyf, [x], {}, node)
                    k_ = outs[0][2] if len(outs) == 1 and outs[0][1] == "val" and outs[0][0] is st else KeyError
                keys.append(k_)
            if all(isinstance(k_, (int, float, str)) and not isinstance(k_, bool) for k_ in keys) and len({type(k_) for k_ in keys}) == 1:
                order = sorted(range(len(keys)), key=lambda i: keys[i], reverse=bool(kwargs.get("reverse")))
                o.items = [o.items[i] for i in order]
            # otherwise: order unknown to the abstraction; the items are kept as they are (multiset preserved)
        return [(st, "val", None)]
    if name == "copy":
        c = o.copy()
        return [(st, "val", st.alloc(c))]
    if name in ("index", "count"):
        if o.items is not None and len(args) == 1 and all(_plain(x) for x in o.items) and _plain(args[0]):
            if name == "count":
                return [(st, "val", list(o.items).count(args[0]))]
            if args[0] in o.items:
                return [(st, "val", list(o.items).index(args[0]))]
            return self.raise_exc(st, "ValueError", node, "index", "%r is not in list" % (args[0],))
        return [(st, "val", Top("list." + name))]
    if name == "remove":
        if o.items is not None and len(args) == 1 and all(_plain(x) for x in o.items) and _plain(args[0]) and args[0] in o.items:
            o.items = list(o.items)
            o.items.remove(args[0])
        elif o.items is not None and len(args) == 1 and isinstance(args[0], Ref) and not isinstance(st.obj(args[0]).cls, ClassInfo):
            # class-less tokens compare by identity
            for i, x in enumerate(o.items):
                if isinstance(x, Ref) and x.oid == args[0].oid:
                    o.items = list(o.items)
                    del o.items[i]
                    break
        elif o.items is not None and len(args) == 1 and isinstance(args[0], Ref):
            for i, x in enumerate(o.items):
                if isinstance(x, Ref) and x.oid == args[0].oid:
                    o.items = list(o.items)
                    del o.items[i]
                    break
        return [(st, "val", None)]
    raise U("list.%s at %s" % (name, self.loc(node)))


def dict_method(self, st, ref, o, name, args, kwargs, node):
    U = _U()
    if name in ("update", "setdefault", "pop", "clear"):
        self.emit(st, ("mutate", ref.oid, o.label, name))
    if name == "get":
        default = args[1] if len(args) > 1 else kwargs.get("default")
        if o.items is not None:
            for k, v in o.items:
                r = self.x_key_eq(st, k, args[0])
                if r is True:
                    return [(st, "val", v)]
                if isinstance(r, Top):
                    return [(st, "val", Top("dict.get", r.input))]
            return [(st, "val", default)]
        kk = ("k", vkey(args[0]))
        if kk in o.fields:
            return [(st, "val", o.fields[kk])]
        return [(st, "val", Top("dict.get", o.open))]
    if name in ("items", "keys", "values"):
        if o.items is not None:
            if name == "items":
                return [(st, "val", tuple((k, v) for k, v in o.items))]
            if name == "keys":
                return [(st, "val", tuple(k for k, _ in o.items))]
            return [(st, "val", tuple(v for _, v in o.items))]
        return [(st, "val", Top("dict." + name, o.open))]
    if name == "copy":
        return [(st, "val", st.alloc(o.copy()))]
    if name in ("update", "setdefault", "clear"):
        if name == "setdefault" and o.items is not None:
            for k, v in o.items:
                if self.x_key_eq(st, k, args[0]) is True:
                    return [(st, "val", v)]
            o.items.append((args[0], args[1] if len(args) > 1 else None))
            return [(st, "val", args[1] if len(args) > 1 else None)]
        if name == "update" and o.items is not None:
            if args and isinstance(args[0], Ref) and st.obj(args[0]).kind == "dict" and st.obj(args[0]).items is not None:
                d = dict((vkey(k), (k, v)) for k, v in o.items)
                for k, v in st.obj(args[0]).items:
                    d[vkey(k)] = (k, v)
                for k, v in kwargs.items():
                    d[vkey(k)] = (k, v)
                o.items = list(d.values())
                return [(st, "val", None)]
            pairs = None
            if not args:
                pairs = []
            elif not isinstance(args[0], Top):
                try:
                    kind, seq = self.iter_values(st, args[0], node)
                except AnalysisError:
                    kind, seq = None, None
                if kind == "concrete":
                    pairs = []
                    for x in seq:
                        if isinstance(x, Ref) and st.obj(x).kind == "list" and st.obj(x).items is not None and len(st.obj(x).items) == 2:
                            x = tuple(st.obj(x).items)
                        if isinstance(x, tuple) and len(x) == 2:
                            pairs.append(x)
                        else:
                            pairs = None
                            break
            if pairs is not None:
                d = dict((vkey(k), (k, v)) for k, v in o.items)
                for k, v in pairs + list(kwargs.items()):
                    d[vkey(k)] = (k, v)
                o.items = list(d.values())
                return [(st, "val", None)]
            o.items = None
        return [(st, "val", None if name != "setdefault" else Top("dict.setdefault"))]
    if name == "pop":
        default = args[1] if len(args) > 1 else KeyError
        if o.items is not None:
            for i, (k, v) in enumerate(o.items):
                if self.x_key_eq(st, k, args[0]) is True:
                    o.items.pop(i)
                    return [(st, "val", v)]
            if default is KeyError:
                return self.raise_exc(st, "KeyError", node, "key", "pop missing key")
            return [(st, "val", default)]
        return [(st, "val", Top("dict.pop", o.open))]
    raise U("dict.%s at %s" % (name, self.loc(node)))


def set_method(self, st, ref, o, name, args, kwargs, node):
    if name in ("add", "update", "discard", "remove", "clear"):
        if name == "add" and o.items is not None:
            if not any(_same_member(self, st, x, args[0]) for x in o.items):
                o.items.append(args[0])
        elif name in ("update",) and o.items is not None:
            kind, seq = (None, None)
            if args and not isinstance(args[0], Top):
                try:
                    kind, seq = self.iter_values(st, args[0], node)
                except AnalysisError:
                    kind = None
            if kind == "concrete":
                for x in seq:
                    if not any(_same_member(self, st, x, y) for y in o.items):
                        o.items.append(x)
            else:
                o.items = None
        return [(st, "val", None)]
    if name in ("union", "copy", "difference", "intersection") and o.items is not None:
        items = list(o.items)
        ok = True
        for a in args:
            try:
                kind, seq = self.iter_values(st, a, node) if not isinstance(a, Top) else (None, None)
            except AnalysisError:
                kind, seq = None, None
            if kind != "concrete":
                ok = False
                break
            seq = list(seq)
            if name == "union":
                for x in seq:
                    if not any(_same_member(self, st, x, y) for y in items):
                        items.append(x)
            elif name == "difference":
                items = [y for y in items if not any(_same_member(self, st, x, y) for x in seq)]
            elif name == "intersection":
                items = [y for y in items if any(_same_member(self, st, x, y) for x in seq)]
        if ok:
            return [(st, "val", st.alloc(HObj("set", kind="set", items=items)))]
        return [(st, "val", st.alloc(HObj("set", kind="set", items=None)))]
    if name in ("isdisjoint", "issubset", "issuperset") and o.items is not None and len(args) == 1 and not isinstance(args[0], Top):
        try:
            kind, seq = self.iter_values(st, args[0], node)
        except AnalysisError:
            kind, seq = None, None
        if kind == "concrete":
            seq = list(seq)
            if not any(isinstance(x, Top) for x in list(o.items) + seq):
                return [(st, "val", set_relation(self, st, name, o.items, seq))]
    return [(st, "val", Top("set." + name))]


def set_relation(self, st, name, mine, other):
    def inside(x, ys):
        return any(_same_member(self, st, x, y) for y in ys)
    if name == "isdisjoint":
        return not any(inside(x, other) for x in mine)
    if name == "issubset":
        return all(inside(x, other) for x in mine)
    return all(inside(x, mine) for x in other)


def construct(self, st, cv, args, kwargs, node):
    """Instantiate a class."""
    U = _U()
    ci = cv.cls
    if isinstance(ci, ClassInfo):
        stub = self.stubs.get(ci.name) or self.stubs.get(ci.fullname)
        if stub is not None:
            return stub(self, st, args, kwargs, node)
        if any(isinstance(b, str) and b in _exc_names(self) for b in ci.external_bases()):
            ref = st.alloc(HObj(ci, {"args": tuple(args)}, kind="exc", open=True))
            return [(st, "val", ref)]
        ref = st.alloc(HObj(ci, {}, kind="obj"))
        st.obj(ref).synthetic = False
        init = ci.lookup("__init__")
        if init is None:
            return [(st, "val", ref)]
        outs = self.call_function(st, init, args, kwargs, node, self_val=ref)
        return [(s, k, ref if k == "val" else v) for (s, k, v) in outs]
    name = cv.name()
    if name in _exc_names(self):
        ref = st.alloc(HObj(name, {"args": tuple(args)}, kind="exc", open=True))
        return [(st, "val", ref)]
    return call_builtin(self, st, name, args, kwargs, node)


def _exc_names(self):
    from .absexpr import _builtin_exc_names
    return _builtin_exc_names()


def call_builtin(self, st, name, args, kwargs, node):
    U = _U()
    if name == "noop":
        return [(st, "val", None)]
    if name == "isinstance":
        return [(st, "val", x_isinstance(self, st, args[0], args[1], node))]
    if name == "vars" and len(args) == 1 and not kwargs and isinstance(args[0], Ref) and st.obj(args[0]).kind in (None, "obj"):
        return self.get_attr(st, args[0], "__dict__", node)         # vars(obj) is obj.__dict__
    if name == "getattr":
        if not isinstance(args[1], str):
            return [(st, "val", Top("getattr(?)", False))]
        default = args[2] if len(args) > 2 else KeyError
        return self.get_attr(st, args[0], args[1], node, default)
    if name == "hasattr":
        if isinstance(args[0], Ref) and isinstance(args[1], str):
            o = st.obj(args[0])
            if args[1] in o.fields:
                return [(st, "val", True)]
            if isinstance(o.cls, ClassInfo) and (o.cls.lookup(args[1]) or o.cls.lookup_const(args[1])):
                return [(st, "val", True)]
            if not o.open:
                return [(st, "val", False)]
        return [(st, "val", Top("hasattr", True))]
    if name == "setattr":
        if isinstance(args[1], str):
            outs = self.set_attr(st, args[0], args[1], args[2], node)
            return [(s, "val" if k == "next" else k, v) for (s, k, v) in outs]
        return [(st, "val", None)]
    if name == "len":
        v = args[0]
        exact = getattr(self, "int_sat", 2) > 2       # constant mode: lengths are exact numbers
        if isinstance(v, (str, tuple, frozenset)):
            n = len(v)
            if exact:
                return [(st, "val", n)]
            return [(st, "val", n if n < 2 else (GE2 if n > 2 else 2))]
        if isinstance(v, Ref):
            o = st.obj(v)
            if o.kind in ("list", "set", "dict"):
                if o.items is not None:
                    n = len(o.items)
                    if exact:
                        return [(st, "val", n)]
                    return [(st, "val", n if n <= 2 else GE2)]
                seq = o.fields.get("@seq")
                if isinstance(seq, AbsSeq):
                    return [(st, "val", LenOf(seq.name))]
                return [(st, "val", SymLen(o.base, o.count) if o.base is not None else o.count)]
            seq = o.fields.get("@seq")
            if isinstance(seq, AbsSeq):
                return [(st, "val", LenOf(seq.name))]
        if isinstance(v, AbsSeq):
            return [(st, "val", LenOf(v.name))]
        if isinstance(v, Top):
            return [(st, "val", Top("len:" + v.tag, v.input))]
        if hasattr(v, "abs_call") and hasattr(v, "tag"):
            return [(st, "val", Top("int:len:" + v.tag, True))]      # an abstract string: some length
        raise U("len(%r) at %s" % (v, self.loc(node)))
    if name in ("set", "frozenset", "list", "tuple", "sorted", "reversed", "iter"):
        if not args:
            kind = {"set": "set", "frozenset": "set", "list": "list", "tuple": "list", "sorted": "list"}.get(name, "list")
            if name in ("tuple",):
                return [(st, "val", ())]
            if name == "frozenset":
                return [(st, "val", frozenset())]
            return [(st, "val", st.alloc(HObj(kind, kind=kind, items=[])))]
        v = args[0]
        if isinstance(v, Top):
            return [(st, "val", Top("%s(%s)" % (name, v.tag), v.input))]
        if name == "iter":
            # an iterator OBJECT: whoever iterates it consumes it (two loops over one iterator share its position)
            return [(st, "val", _lazyiter.make_iter(self, st, v, node))]
        kind, seq = self.iter_values(st, v, node)
        if kind == "abs":
            if name in ("list", "tuple", "sorted"):
                return [(st, "val", seq)]
            if name == "reversed":
                return [(st, "val", AbsSeq("reversed(%s)" % seq.name, seq.factory, seq.nonempty))]
            return [(st, "val", Top("%s(%s)" % (name, seq.name), False))]
        if name == "reversed":
            return [(st, "val", tuple(reversed(seq)))]
        if name == "tuple":
            return [(st, "val", tuple(seq))]
        if name == "sorted":
            r = st.alloc(HObj("list", kind="list", items=list(seq)))
            if len(seq) > 1:
                list_method(self, st, r, st.wobj(r), "sort", [], {k_: v_ for k_, v_ in kwargs.items() if k_ in ("key", "reverse")}, node)
            return [(st, "val", r)]
        if name in ("set", "frozenset"):
            items = []
            for x in seq:
                if not any(_same_member(self, st, x, y) for y in items):
                    items.append(x)
            if name == "frozenset" and all(_plain(x) or isinstance(x, EnumVal) for x in items):
                return [(st, "val", frozenset(items))]
            return [(st, "val", st.alloc(HObj("set", kind="set", items=items)))]
        return [(st, "val", st.alloc(HObj("list", kind="list", items=list(seq))))]
    if name == "dict":
        items = list(kwargs.items())
        if args:
            v = args[0]
            if isinstance(v, Ref) and st.obj(v).kind == "dict" and st.obj(v).items is not None:
                items = list(st.obj(v).items) + items
            else:
                pairs = None
                if not isinstance(v, Top):
                    try:
                        kind, seq = self.iter_values(st, v, node)
                    except AnalysisError:
                        kind, seq = None, None
                    if kind == "concrete":
                        pairs = []
                        for x in seq:
                            if isinstance(x, Ref) and st.obj(x).kind == "list" and st.obj(x).items is not None and len(st.obj(x).items) == 2:
                                x = tuple(st.obj(x).items)
                            if isinstance(x, tuple) and len(x) == 2:
                                pairs.append(x)
                            else:
                                pairs = None
                                break
                if pairs is None:
                    return [(st, "val", Top("dict()", False))]
                d = {}
                for k_, v_ in pairs + items:
                    d[k_ if _hashable_key(k_) else vkey(k_)] = (k_, v_)
                items = list(d.values())
        return [(st, "val", st.alloc(HObj("dict", kind="dict", items=items)))]
    if name == "bool":
        if not args:
            return [(st, "val", False)]
        return [(s, "val", b) for (s, b) in self.truth(st, args[0], node)]
    if name in ("chr", "unichr", "ord"):
        a0 = args[0] if args else None
        if hasattr(a0, "abs_call") and hasattr(a0, "m") and name == "ord":
            pass
        if name == "ord" and isinstance(a0, str) and len(a0) == 1:
            return [(st, "val", ord(a0))]
        if name in ("chr", "unichr") and isinstance(a0, int) and not isinstance(a0, bool) and 0 <= a0 <= 0x10FFFF:
            return [(st, "val", chr(a0))]
        return [(st, "val", Top(name + "()", isinstance(a0, Top) and a0.input))]
    if name == "id" and len(args) == 1 and isinstance(args[0], Ref):
        return [(st, "val", ("@id", args[0].oid))]          # unique per object, equal only to itself
    if name == "hash" and len(args) == 1 and not kwargs:
        a0 = args[0]
        if isinstance(a0, Ref):
            h = x_hash_of(self, st, a0)
            return [(st, "val", ("@hash", h) if h is not None else ("@id", a0.oid))]
        try:
            k0 = vkey(a0)
            if "Top" not in repr(type(a0)) and not _has_top(a0):
                return [(st, "val", ("@hash", k0))]
        except Exception:       # noqa
            pass
    if name in ("str", "repr", "int", "float", "id", "hash", "abs", "round", "min", "max", "sum", "vars"):
        if name in ("max", "min") and args and getattr(self, "int_sat", 2) > 2 and not kwargs:
            vals = None
            if len(args) == 1 and not isinstance(args[0], Top):
                try:
                    kind, seq = self.iter_values(st, args[0], node)
                    vals = list(seq) if kind == "concrete" else None
                except AnalysisError:
                    vals = None
            elif len(args) > 1:
                vals = list(args)
            if vals and all(isinstance(x, (int, str)) and not isinstance(x, bool) for x in vals) and len({type(x) for x in vals}) == 1:
                return [(st, "val", max(vals) if name == "max" else min(vals))]
        if name == "sum" and len(args) == 1 and not isinstance(args[0], Top) and getattr(self, "int_sat", 2) > 2:
            try:
                kind, seq = self.iter_values(st, args[0], node)
            except AnalysisError:
                kind, seq = None, None
            if kind == "concrete" and all(isinstance(x, int) and not isinstance(x, bool) for x in seq):
                return [(st, "val", sum(seq))]
        if name == "str" and args and isinstance(args[0], str):
            return [(st, "val", args[0])]
        if name == "str" and args and isinstance(args[0], int) and not isinstance(args[0], bool) and getattr(self, "int_sat", 2) > 2:
            return [(st, "val", str(args[0]))]
        if name == "str" and args and hasattr(args[0], "abs_str"):
            return [(st, "val", args[0].abs_str())]
        if name == "float" and len(args) == 1 and isinstance(args[0], (int, float, str)) and not isinstance(args[0], bool) and getattr(self, "int_sat", 2) > 2:
            try:
                return [(st, "val", float(args[0]))]
            except ValueError:
                return self.raise_exc(st, "ValueError", node, "float", "float(%r)" % (args[0],))
        if name == "int" and args and isinstance(args[0], (int, str)) and not isinstance(args[0], bool):
            try:
                return [(st, "val", int(args[0]))]
            except ValueError:
                return self.raise_exc(st, "ValueError", node, "int", "int(%r)" % (args[0],))
        inp = bool(args) and all((not isinstance(a, Top)) or a.input for a in args) and any(isinstance(a, Top) for a in args)
        return [(st, "val", Top(name + "()", inp))]
    if name in ("any", "all"):
        v = args[0]
        if isinstance(v, Top):
            return [(st, "val", Top(name + "(%s)" % v.tag, v.input))]
        kind, seq = self.iter_values(st, v, node)
        if kind == "concrete":
            outs = [(st, name == "all")]
            for x in seq:
                nxt = []
                for (s, acc) in outs:
                    if (name == "any" and acc) or (name == "all" and not acc):
                        nxt.append((s, acc))
                        continue
                    for (s2, b) in self.truth(s, x, node):
                        nxt.append((s2, b))
                outs = nxt
            return [(s, "val", acc) for (s, acc) in outs]
        return [(st, "val", Top(name + "()", False))]
    if name == "callable":
        v = args[0]
        if isinstance(v, (FuncVal, BoundMeth, Builtin, ClassVal)):
            return [(st, "val", True)]
        if isinstance(v, Ref) and st.obj(v).kind == "closure":
            return [(st, "val", True)]
        if isinstance(v, Ref):
            oc = st.obj(v).cls
            if isinstance(oc, ClassInfo):
                return [(st, "val", oc.lookup("__call__") is not None)]
            if st.obj(v).kind in ("list", "dict", "set"):
                return [(st, "val", False)]
        if callable(v) and not isinstance(v, type) and not isinstance(v, (Top,)):
            return [(st, "val", True)]
        if v is None or isinstance(v, (str, int)):
            return [(st, "val", False)]
        return [(st, "val", Top("callable", isinstance(v, Top) and v.input))]
    if name == "print":
        self.emit(st, ("print",))
        return [(st, "val", None)]
    if name == "type":
        if len(args) == 1:
            c = self.x_class_of(st, args[0])
            if c is not None:
                return [(st, "val", ClassVal(c))]
            if args[0] is None:
                return [(st, "val", ClassVal("NoneType"))]
        return [(st, "val", Top("type()", False))]
    if name == "super":
        if len(args) == 2 and isinstance(args[0], ClassVal):
            return [(st, "val", SuperVal(args[0].cls, args[1]))]
        if not args and self.cur_func is not None and self.cur_func.cls is not None:
            fr = st.frames[-1]
            first = self.cur_func.node.args.args[0].arg
            return [(st, "val", SuperVal(self.cur_func.cls, fr[first]))]
        raise U("super() form at %s" % self.loc(node))
    if name in ("map", "filter"):
        r = _lazyiter.builtin_map_filter(self, st, name, args, kwargs, node)
        if r is not KeyError:
            return r
    if name == "next":
        r = _lazyiter.builtin_next(self, st, args, kwargs, node)
        if r is not KeyError:
            return r
    if name in ("enumerate", "zip", "filter", "map", "range", "next", "open", "issubclass", "object"):
        if name == "enumerate" and args:
            v = args[0]
            if not isinstance(v, Top):
                kind, seq = self.iter_values(st, v, node)
                if kind == "concrete":
                    if getattr(self, "int_sat", 2) > 2:
                        start = args[1] if len(args) > 1 and isinstance(args[1], int) else kwargs.get("start", 0)
                        return [(st, "val", tuple(enumerate(seq, start if isinstance(start, int) else 0)))]
                    return [(st, "val", tuple((i if i < 2 else GE2, x) for i, x in enumerate(seq)))]
                def fac(interp, s, _seq=seq):
                    return [(s2, (Top("index", True), e), lbl) for (s2, e, lbl) in _seq.factory(interp, s)]
                return [(st, "val", AbsSeq("enumerate(%s)" % seq.name, fac, seq.nonempty))]
        if name == "range" and args and getattr(self, "int_sat", 2) > 2 and all(isinstance(a, int) and not isinstance(a, bool) for a in args):
            r = range(*args)
            if len(r) <= 10000:
                return [(st, "val", tuple(r))]
        if name == "zip" and args and not any(isinstance(a, Top) for a in args):
            parts = []
            try:
                for a in args:
                    kind, seq = self.iter_values(st, a, node)
                    if kind != "concrete":
                        parts = None
                        break
                    parts.append(list(seq))
            except AnalysisError:
                parts = None
            if parts is not None:
                return [(st, "val", tuple(zip(*parts)))]
        if name == "object":
            return [(st, "val", st.alloc(HObj("object")))]
        return [(st, "val", Top(name + "()", False))]
    if name in ("NoneType",):
        return [(st, "val", None)]
    # builtin classes used as constructors / converters
    if name in ("bytes", "bytearray", "OrderedDict", "StringIO"):
        return [(st, "val", Top(name + "()", False))]
    raise U("builtin %s at %s" % (name, self.loc(node)))


def _has_top(v):
    if isinstance(v, Top):
        return True
    if isinstance(v, (tuple, list, set, frozenset)):
        return any(_has_top(x) for x in v)
    return False


def x_hash_of(self, st, v):
    """hash() of a heap object whose class defines __hash__ in the repository: the value it returns (id(self) is a
    token unique to the object); None when the object hashes by identity / the method cannot be evaluated to one value."""
    if not isinstance(v, Ref):
        return None
    o = st.obj(v)
    if not isinstance(o.cls, ClassInfo):
        return None
    m = o.cls.lookup("__hash__")
    if m is None:
        return None
    probe = st.fork()
    try:
        outs = self.call_function(probe, m, [], {}, None, self_val=v)
    except AnalysisError:
        return None
    if len(outs) != 1 or outs[0][1] != "val" or isinstance(outs[0][2], Top):
        return None
    return vkey(outs[0][2])


def _same_member(self, st, x, y):
    """set / dict-key membership: same hash AND equal.  Heap objects hash by identity unless their class defines
    __hash__ in the repository - then that method and the class's __eq__ decide, as in Python."""
    if isinstance(x, Ref) or isinstance(y, Ref):
        if not (isinstance(x, Ref) and isinstance(y, Ref)):
            return False
        if x.oid == y.oid:
            return True
        hx, hy = x_hash_of(self, st, x), x_hash_of(self, st, y)
        if hx is None or hy is None or hx != hy:
            return False
        return self.x_eq(st, x, y) is True
    return self.x_eq(st, x, y) is True


def x_isinstance(self, st, v, cls, node):
    classes = cls if isinstance(cls, tuple) else (cls,)
    if isinstance(v, Top):
        if v.domain is not None:
            return Top("isinstance:" + v.tag, v.input)
        return Top("isinstance:" + v.tag, v.input)
    unknown = None
    for c in classes:
        if isinstance(c, Builtin) and c.name in ("list", "tuple", "dict", "set", "str", "int", "float", "bool", "object", "bytes"):
            c = ClassVal(c.name)
        if isinstance(c, ModuleVal) and not isinstance(c.mod, Module) and hasattr(v, "abs_type"):
            c = ClassVal(str(c.mod).split(".")[-1])         # class imported from outside the repository, harness token
        if not isinstance(c, ClassVal):
            unknown = Top("isinstance(?)", False)
            continue
        cn = c.name()
        if isinstance(v, Ref):
            o = st.obj(v)
            if isinstance(o.cls, ClassInfo):
                if isinstance(c.cls, ClassInfo):
                    if c.cls in o.cls.mro():
                        return True
                elif o.cls.is_subclass_of(cn) or cn == "object":
                    return True
            elif isinstance(o.cls, str):
                if o.cls == cn or cn == "object":
                    return True
                if o.kind == "exc" and not isinstance(c.cls, ClassInfo):
                    try:
                        if self.ix.exc_is_subclass(o.cls, cn):
                            return True
                    except AnalysisError:
                        pass
                if o.kind in ("list", "dict", "set") and cn == o.kind:
                    return True
            elif o.cls is None and o.open:
                unknown = Top("isinstance(open)", True)
        elif isinstance(v, EnumVal):
            if isinstance(c.cls, ClassInfo) and c.cls.name == v.cls:
                return True
            if cn in ("Enum", "object"):
                return True
        elif hasattr(v, "abs_type"):
            if cn in (v.abs_type, "object") or (v.abs_type == "str" and cn in ("unicode", "basestring")):
                return True
        elif isinstance(v, bool):
            if cn in ("bool", "int", "object"):
                return True
        elif isinstance(v, str):
            if cn in ("str", "object", "unicode", "basestring"):
                return True
        elif isinstance(v, int):
            if cn in ("int", "object"):
                return True
        elif isinstance(v, float):
            if cn in ("float", "object"):
                return True
        elif isinstance(v, tuple):
            if cn in ("tuple", "object"):
                return True
        elif v is None:
            if cn in ("NoneType", "object"):
                return True
    return unknown if unknown is not None else False
