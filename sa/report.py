# -*- coding: utf-8 -*-
"""Obligation bookkeeping, evidence files, known findings, exit codes."""
from __future__ import annotations

import json
import os
import re
import sys
import time

VERIF = os.path.dirname(os.path.dirname(os.path.abspath(__file__)))
EVIDENCE_DIR = os.environ.get("VERIF_EVIDENCE_DIR") or os.path.join(VERIF, "evidence")
REPLAY_DIR = os.path.join(EVIDENCE_DIR, "replay")
KNOWN_FILE = os.path.join(VERIF, "known_findings.txt")


class Finding(object):
    def __init__(self, rule, function, witness, text, file=None, line=None, stmt=None, path=None,
                 imprecise=False):
        self.rule = rule
        self.function = function
        self.witness = witness          # normalised, line-number free
        self.text = text
        self.file = file
        self.line = line
        self.stmt = stmt
        self.path = list(path or [])
        self.imprecise = imprecise

    def key(self):
        return "%s|%s|%s" % (self.rule, self.function, self.witness)

    def as_dict(self, prop):
        return {"property": prop, "rule": self.rule, "function": self.function, "witness": self.witness,
                "what": self.text, "file": self.file, "line": self.line, "statement": self.stmt,
                "abstract_path": self.path, "key": self.key()}


def load_known():
    known = {}
    if not os.path.exists(KNOWN_FILE):
        return known
    for ln in open(KNOWN_FILE, encoding="utf-8"):
        ln = ln.strip()
        if not ln.startswith("open:"):
            continue
        m = re.match(r"open:\s+property=(\S+)\s+key=(.*?)\s+::\s+(.*)$", ln)
        if m:
            known[(m.group(1), m.group(2).strip())] = m.group(3)
    return known


class Check(object):
    """One run of one property's check."""

    def __init__(self, prop, tier="quick"):
        self.prop = prop
        self.tier = tier
        self.t0 = time.time()
        self.obligations = 0
        self.discharged = 0
        self.findings = []
        self.imprecise = []
        self.samples = []
        self.assumptions = []
        self.rules = {}             # rule -> {"instances": n, "obligations": n, "discharged": n, "what": text}
        self.counters = {"paths": 0, "states": 0, "transitions": 0, "functions": set(), "loop_heads": 0,
                         "call_sites": 0, "forks": 0}
        self.notes = []
        self.explanation = ""
        self.not_decided = ""
        self.nontrivial = set()

    # -- recording -------------------------------------------------------
    def rule(self, rid, what):
        self.rules.setdefault(rid, {"instances": 0, "obligations": 0, "discharged": 0, "what": what})

    def instance(self, rid, n=1):
        self.rules.setdefault(rid, {"instances": 0, "obligations": 0, "discharged": 0, "what": ""})
        self.rules[rid]["instances"] += n

    def ok(self, rid, sample=None, nontrivial_key=None):
        self.obligations += 1
        self.discharged += 1
        r = self.rules.setdefault(rid, {"instances": 0, "obligations": 0, "discharged": 0, "what": ""})
        r["obligations"] += 1
        r["discharged"] += 1
        if nontrivial_key is not None:
            self.nontrivial.add((rid, nontrivial_key))
        if sample is not None and sum(1 for s in self.samples if s.get("rule") == rid) < 3:
            d = {"rule": rid}
            d.update(sample if isinstance(sample, dict) else {"obligation": sample})
            self.samples.append(d)

    def fail(self, finding):
        self.obligations += 1
        r = self.rules.setdefault(finding.rule, {"instances": 0, "obligations": 0, "discharged": 0, "what": ""})
        r["obligations"] += 1
        if finding.imprecise:
            self.imprecise.append(finding)
        elif finding.key() not in [f.key() for f in self.findings]:
            self.findings.append(finding)

    def require_instances(self, rid, floor):
        n = self.rules.get(rid, {}).get("instances", 0)
        if n < floor:
            if not hasattr(self, "floor_errors"):
                self.floor_errors = []
            self.floor_errors.append("rule %s matched %d instance(s), below the confirmed floor %d "
                                     "(the construct it is keyed on is no longer recognised)" % (rid, n, floor))

    def absorb(self, interp):
        st = interp.stats
        self.counters["paths"] += st["paths"]
        self.counters["transitions"] += st["stmts"]
        self.counters["loop_heads"] += st["loop_heads"]
        self.counters["call_sites"] += st["calls"]
        self.counters["forks"] += st["forks"]
        self.counters["functions"].update(st["inlined"])
        for a in sorted(st["assumed_asserts"]):
            t = "assert assumed to hold (condition not evaluable by the abstraction): " + a
            if t not in self.assumptions:
                self.assumptions.append(t)
        oc = sorted(st["opaque_calls"])
        if oc:
            t = "opaque calls treated as pure and non-raising: " + ", ".join(oc)
            if t not in self.assumptions:
                self.assumptions.append(t)

    # -- finishing ---------------------------------------------------------
    def finish(self, seed=0, replay_only=None):
        known = load_known()
        wall = time.time() - self.t0
        unlisted, listed = [], []
        for f in self.findings:
            if (self.prop, f.key()) in known:
                listed.append((f, known[(self.prop, f.key())]))
            else:
                unlisted.append(f)
        os.makedirs(REPLAY_DIR, exist_ok=True)
        lines = []
        for f, what in listed:
            lines.append("KNOWN-FINDING: property=%s %s" % (self.prop, what))
        replay_paths = []
        for i, f in enumerate(unlisted):
            path = os.path.join(REPLAY_DIR, "%s-%d.json" % (self.prop, i + 1))
            with open(path, "w", encoding="utf-8") as fh:
                json.dump(f.as_dict(self.prop), fh, indent=1, default=str)
            replay_paths.append(path)
            lines.append("  rule %s in %s (%s:%s): %s" % (f.rule, f.function, f.file, f.line, f.text))
            if f.stmt:
                lines.append("    at: %s" % f.stmt)
            for p in f.path[-12:]:
                lines.append("    path: %s" % p)
            lines.append("VIOLATION property=%s replay=%s" % (self.prop, path))
        rules_out = {k: v for k, v in sorted(self.rules.items())}
        cov = {
            "explanation": self.explanation,
            "not_decided": self.not_decided,
            "obligations": self.obligations,
            "discharged": self.discharged,
            "evaluations": max(1, self.counters["paths"] + self.obligations),
            "distinct_nontrivial": len(self.nontrivial),
            "rule": "an evaluation is one abstract path explored or one structural obligation decided; "
                    "distinct_nontrivial counts distinct (rule, obligation instance) pairs that were "
                    "actually decided on a construct found in the source (vacuous rules fail the run)",
            "samples": self.samples[:40] or [{"note": "no obligations"}],
            "states": self.counters["loop_heads"] + self.counters["paths"],
            "transitions": self.counters["transitions"],
            "abstract_paths": self.counters["paths"],
            "loop_head_states": self.counters["loop_heads"],
            "forks": self.counters["forks"],
            "functions_interpreted": sorted(self.counters["functions"]),
            "rules": rules_out,
            "exhaustive": True,
            "known_findings_matched": [f.key() for f, _ in listed],
            "imprecise_obligations": [f.key() for f in self.imprecise],
            "notes": self.notes,
        }
        ev = {
            "property_id": self.prop,
            "tier": self.tier,
            "seed": int(seed),
            "level": "other",
            "coverage": cov,
            "assumptions": self.assumptions,
            "wall_s": round(wall, 3),
            "violations": len(unlisted),
        }
        os.makedirs(EVIDENCE_DIR, exist_ok=True)
        with open(os.path.join(EVIDENCE_DIR, "%s.json" % self.prop), "w", encoding="utf-8") as fh:
            json.dump(ev, fh, indent=1, default=str)
        print("[%s %s] rules=%d obligations=%d discharged=%d paths=%d loop-head states=%d wall=%.2fs" % (
            self.prop, self.tier, len(self.rules), self.obligations, self.discharged,
            self.counters["paths"], self.counters["loop_heads"], wall))
        for rid, r in rules_out.items():
            print("  %-6s instances=%-4d obligations=%-5d discharged=%-5d %s" % (
                rid, r["instances"], r["obligations"], r["discharged"], r["what"][:90]))
        for ln in lines:
            print(ln)
        floor_errors = list(dict.fromkeys(getattr(self, "floor_errors", [])))
        if floor_errors and unlisted:
            for e in floor_errors:
                print("NOTE property=%s: part of the analysis gave no verdict (the violations above stand on their own): %s" % (self.prop, str(e)[:300]))
        if floor_errors and not unlisted:
            for e in floor_errors:
                print("ANALYSIS-ERROR property=%s: %s" % (self.prop, e))
            return 2
        if self.imprecise and not unlisted:
            for f in self.imprecise[:10]:
                print("ANALYSIS-ERROR imprecise: rule %s in %s: %s" % (f.rule, f.function, f.text))
                for p in f.path[-8:]:
                    print("    path: %s" % p)
            return 2
        return 1 if unlisted else 0


# ----------------------------------------------------------------------
# running independent explorations of one check in parallel (fork)
# ----------------------------------------------------------------------
def _export(chk):
    import json as _json
    def plain(x):
        return _json.loads(_json.dumps(x, default=str))
    return {
        "obligations": chk.obligations, "discharged": chk.discharged,
        "findings": [(f.rule, f.function, f.witness, f.text, f.file, f.line, f.stmt, list(f.path), f.imprecise)
                     for f in chk.findings],
        "imprecise": [(f.rule, f.function, f.witness, f.text, f.file, f.line, f.stmt, list(f.path), True)
                      for f in chk.imprecise],
        "samples": plain(chk.samples), "assumptions": list(chk.assumptions),
        "rules": plain(chk.rules),
        "counters": {k: (sorted(v) if isinstance(v, set) else v) for k, v in chk.counters.items()},
        "nontrivial": [repr(x) for x in chk.nontrivial], "notes": list(chk.notes),
        "floor_errors": list(getattr(chk, "floor_errors", [])),
    }


def _merge(chk, d):
    chk.obligations += d["obligations"]
    chk.discharged += d["discharged"]
    for t in d["findings"]:
        f = Finding(t[0], t[1], t[2], t[3], t[4], t[5], t[6], t[7], t[8])
        if f.key() not in [x.key() for x in chk.findings]:
            chk.findings.append(f)
    for t in d["imprecise"]:
        chk.imprecise.append(Finding(t[0], t[1], t[2], t[3], t[4], t[5], t[6], t[7], True))
    for s in d["samples"]:
        if sum(1 for x in chk.samples if x.get("rule") == s.get("rule")) < 3:
            chk.samples.append(s)
    for a in d["assumptions"]:
        if a not in chk.assumptions:
            chk.assumptions.append(a)
    for rid, r in d["rules"].items():
        cur = chk.rules.setdefault(rid, {"instances": 0, "obligations": 0, "discharged": 0, "what": r.get("what", "")})
        for k in ("instances", "obligations", "discharged"):
            cur[k] += r[k]
        if not cur.get("what"):
            cur["what"] = r.get("what", "")
    for k, v in d["counters"].items():
        if isinstance(chk.counters.get(k), set):
            chk.counters[k].update(v)
        else:
            chk.counters[k] = chk.counters.get(k, 0) + v
    chk.nontrivial.update(d["nontrivial"])
    chk.notes.extend(n for n in d["notes"] if n not in chk.notes)
    if d.get("floor_errors"):
        if not hasattr(chk, "floor_errors"):
            chk.floor_errors = []
        chk.floor_errors.extend(d["floor_errors"])


def _worker(args):
    fn, prop, tier, fargs = args
    from .index import AnalysisError, get_index
    sub = Check(prop, tier)
    try:
        fn(sub, get_index(), *fargs)
        return ("ok", _export(sub))
    except AnalysisError as e:
        return ("analysis-error", str(e))
    except Exception as e:      # noqa
        import traceback
        return ("analysis-error", "internal error of the checker: %s\n%s" % (e, traceback.format_exc()))


def run_parallel(chk, tasks):
    """tasks: list of (function(chk, ix, *args), args).  Each runs in a forked worker
    with its own Check; results are merged.  Sequential when VERIF_JOBS=1."""
    import multiprocessing as mp
    from .index import AnalysisError, get_index
    jobs = int(os.environ.get("VERIF_JOBS", "0") or 0) or min(len(tasks), os.cpu_count() or 1)
    get_index()     # parse once, workers inherit it
    payload = [(fn, chk.prop, chk.tier, tuple(a)) for (fn, a) in tasks]
    if jobs <= 1 or len(tasks) <= 1:
        results = [_worker(p) for p in payload]
    else:
        ctx = mp.get_context("fork")
        with ctx.Pool(jobs) as pool:
            results = pool.map(_worker, payload, chunksize=1)
    for status, data in results:
        if status != "ok":
            # no verdict from this exploration: recorded, the others still count (violations win, see finish())
            if not hasattr(chk, "floor_errors"):
                chk.floor_errors = []
            chk.floor_errors.append(data)
            continue
        _merge(chk, data)
