# -*- coding: utf-8 -*-
"""C13 Context scoping and cleanups.

  X1  _pop removes exactly one frame on every exit, after running the cleanups
  X2  _do_cleanups calls every registered cleanup exactly once, in reverse order of
      registration, also when some raise; re-raises the first error iff fail_on_cleanup_errors
  X3  add_cleanup registers in the current / the named layer; the same callable with
      different arguments is registered each time
  X4  lookups scan every frame from the current one outward, deletion only the current one
  X13 operation histories (push / pop / set / get / delete / contains) against a stack-of-dicts reference
  X6  a generator fixture registers its cleanup before its setup part runs
  X7  execute_steps restores the caller's text/table on every exit, whatever they were
  X9  the mode / layer context managers restore in a finally block
  X10 use_or_assign_param / use_or_create_param keep an existing attribute even when its value is None
"""
from __future__ import annotations

import ast

from .index import AnalysisError, ClassInfo, unparse
from .values import Top, HObj, Ref, Exc, State, ClassVal, GE2
from .absint import Interp
from .report import Finding

WHAT = {
    "X11": "every Context has its own root frame and its own '@cleanups' list (nothing shared between two runs in one process)",
    "X1": "Context._pop removes exactly one frame on every exit (also when a cleanup raises), after running the cleanups",
    "X2": "every cleanup runs exactly once, in reverse registration order, whatever the others do; first error re-raised iff fail_on_cleanup_errors",
    "X12": "every run of a runner starts on a Context of its own (nothing of an earlier run - attributes, registered cleanups - is inherited)",
    "X3": "add_cleanup registers into the current or the named layer; same callable with other arguments is registered again",
    "X4": "lookups see every frame, innermost first; deletion only the current frame (which end of the stack is 'current' is decided by X13's histories)",
    "X6": "generator fixture: cleanup registered before the setup part runs",
    "X7": "execute_steps restores the caller's text and table on every exit",
    "X9": "context mode / scoped layer managers restore in finally",
    "X10": "use_or_assign_param / use_or_create_param keep an existing attribute whose value is None",
}


def _fail(chk, rule, func, witness, text, path=()):
    chk.fail(Finding(rule, func.fullname, witness, text, file=func.file, line=func.lineno, stmt="def " + func.name, path=list(path)))


def _ctx(ix, st, frames, **fields):
    cc = ix.cls("behave.runner:Context")
    frefs = []
    for fr in frames:
        frefs.append(st.alloc(HObj("dict", kind="dict", items=list(fr.items()), label="frame")))
    stack = st.alloc(HObj("list", kind="list", items=frefs, label="_stack"))
    f = {"_stack": stack, "_root": frefs[-1], "_record": st.alloc(HObj("dict", kind="dict", items=[])),
         "_origin": st.alloc(HObj("dict", kind="dict", items=[])), "_mode": Top("mode", True),
         "_config": Top("config", True), "_runner": Top("runner", True), "fail_on_cleanup_errors": True}
    f.update(fields)
    return st.alloc(HObj(cc, f, label="context")), stack, frefs


def check_pop_and_cleanups(chk, ix):
    chk.rule("X1", WHAT["X1"])
    chk.rule("X2", WHAT["X2"])
    cc = ix.cls("behave.runner:Context")
    # ---- X1
    pop = cc.lookup("_pop")
    calls = []

    def do_cleanups(it, st, args, kw, node):
        stack = st.obj(st.obj(args[0]).fields["_stack"])
        calls.append(len(stack.items))
        s2 = st.fork()
        return [(st, "val", None), (s2, "raise", Exc("RuntimeError", None, "cleanup"))]
    it = Interp(ix, stubs={"Context._do_cleanups": do_cleanups}, name="Context._pop")
    st = State()
    st.frames = []
    ctx, stack, frefs = _ctx(ix, st, [{"@layer": "scenario"}, {"@layer": "feature"}, {"@layer": "testrun"}])
    st.freeze_base()
    outs = it.run(pop, st, [], {}, self_val=ctx)
    chk.absorb(it)
    for (s, k, v) in outs:
        chk.instance("X1")
        items = s.obj(stack).items
        labels = [dict(s.obj(x).items).get("@layer") for x in items]
        if labels == ["feature", "testrun"] and calls and all(c == 3 for c in calls):
            chk.ok("X1", {"exit": k, "frames_left": labels}, nontrivial_key=k)
        else:
            _fail(chk, "X1", pop, "exit=%s frames=%s" % (k, labels),
                  "after _pop (%s exit) the frame stack is %s, expected ['feature', 'testrun'] with the cleanups run while the "
                  "scenario frame was still on top" % ("exceptional" if k == "raise" else "normal", labels), s.path)
    chk.require_instances("X1", 2)
    # ---- X2
    dc = cc.lookup("_do_cleanups")
    for fail_flag in (True, False):
        order_log = []

        def mk(name):
            def cleanup(it, st, args, kw, node):
                seq = st.ghost.get("order", ())
                st.ghost["order"] = seq + (name,)
                s2 = st.fork()
                s2.ghost["raised"] = s2.ghost.get("raised", ()) + (name,)
                return [(st, "val", None), (s2, "raise", Exc("RuntimeError", None, "cleanup " + name))]
            cleanup.__name__ = name
            return cleanup
        stubs = {"Context.print_cleanup_error": lambda it, st, a, k, n: [(st, "val", None)],
                 "sys.exc_info": lambda it, st, a, k, n: [(st, "val", ("type", st.ghost.get("raised", ())[-1:], "tb"))],
                 "six.reraise": lambda it, st, a, k, n: [(st, "raise", Exc("RuntimeError", None, "re-raised %s" % (a[1] if len(a) > 1 else a,)))]}
        it = Interp(ix, stubs=stubs, name="Context._do_cleanups")
        it.int_sat = 1000       # three concrete cleanups: indices and lengths are exact numbers
        it.list_cap = 100
        st = State()
        st.frames = []
        cl = st.alloc(HObj("list", kind="list", items=[mk("c1"), mk("c2"), mk("c3")], label="@cleanups"))
        ctx, stack, frefs = _ctx(ix, st, [{"@layer": "scenario", "@cleanups": cl}, {"@layer": "testrun", "cleanup_errors": 0}],
                                 fail_on_cleanup_errors=fail_flag)
        st.freeze_base()
        outs = it.run(dc, st, [], {}, self_val=ctx)
        chk.absorb(it)
        chk.instance("X2")
        for (s, k, v) in outs:
            order = s.ghost.get("order", ())
            raised = s.ghost.get("raised", ())
            want_raise = bool(raised) and fail_flag
            first = raised[0] if raised else None
            ok = order == ("c3", "c2", "c1") and ((k == "raise") == want_raise)
            if ok and k == "raise" and first is not None and first not in str(v.origin):
                ok = False
            if ok:
                chk.ok("X2", {"fail_on_cleanup_errors": fail_flag, "raising": list(raised), "order": list(order), "exit": k},
                       nontrivial_key=(fail_flag, raised, k))
            else:
                _fail(chk, "X2", dc, "order=%s raised=%s exit=%s fail_flag=%s" % (order, raised, k, fail_flag),
                      "cleanups registered c1,c2,c3 with %s raising: executed %s, exit %s (%s); expected c3,c2,c1 each once and %s" % (
                          list(raised) or "none", list(order), k, v if k == "raise" else "returns",
                          "the first error re-raised" if want_raise else "a normal return"), s.path)
    chk.require_instances("X2", 2)


def check_add_cleanup(chk, ix):
    chk.rule("X3", WHAT["X3"])
    cc = ix.cls("behave.runner:Context")
    f = cc.lookup("add_cleanup")

    def fn(it, st, args, kw, node):
        return [(st, "val", None)]
    fn.__name__ = "user_cleanup"
    scripts = [
        ("same callable, different arguments, current layer", [(("a",), None), (("b",), None)], (2, 0)),
        ("same callable, different arguments, layer=feature", [(("a",), "feature"), (("b",), "feature")], (0, 2)),
        ("plain callable twice, current layer", [((), None), ((), None)], (1, 0)),
        ("plain callable twice, layer=feature", [((), "feature"), ((), "feature")], (0, 1)),
        ("plain callable in the current layer, then for layer=feature", [((), None), ((), "feature")], (1, 1)),
        ("plain callable for layer=feature, then in the current layer", [((), "feature"), ((), None)], (1, 1)),
    ]
    for title, calls, want in scripts:
        it = Interp(ix, name="Context.add_cleanup")
        st = State()
        st.frames = []
        c0 = st.alloc(HObj("list", kind="list", items=[], label="scenario cleanups"))
        c1 = st.alloc(HObj("list", kind="list", items=[], label="feature cleanups"))
        ctx, stack, frefs = _ctx(ix, st, [{"@layer": "scenario", "@cleanups": c0}, {"@layer": "feature", "@cleanups": c1},
                                          {"@layer": "testrun", "@cleanups": st.alloc(HObj("list", kind="list", items=[]))}])
        cur = st
        ok_eval = True
        outs = []
        for argv, layer in calls:
            kw = {"layer": layer} if layer else {}
            outs = it.call_function(cur, f, [fn] + list(argv), kw, None, self_val=ctx)
            if len(outs) != 1 or outs[0][1] != "val":
                ok_eval = False
                break
            cur = outs[0][0]
        chk.absorb(it)
        chk.instance("X3")
        if not ok_eval:
            raise AnalysisError("Context.add_cleanup not evaluable: %r" % ([(k, v) for _, k, v in outs][:2],))
        n0, n1 = len(cur.obj(c0).items), len(cur.obj(c1).items)
        if (n0, n1) == want:
            chk.ok("X3", {"calls": title, "registered": {"scenario": n0, "feature": n1}}, nontrivial_key=title)
        else:
            _fail(chk, "X3", f, "%s: scenario=%d feature=%d" % (title, n0, n1),
                  "add_cleanup, %s: %d cleanup(s) end up in the scenario frame and %d in the feature frame; expected %s (a cleanup is "
                  "registered in the addressed layer, once per callable there)" % (title, n0, n1, want), cur.path)


def check_stack_end(chk, ix):
    chk.rule("X4", WHAT["X4"])
    cc = ix.cls("behave.runner:Context")
    # lookups see every frame, innermost first; __delattr__ only the current frame (by evaluation on a three-frame stack)
    for where in ("scenario", "feature", "testrun", "nowhere", "scenario+feature"):
        for name in ("__contains__", "__getattr__", "__delattr__"):
            f = cc.lookup(name)
            it = Interp(ix, name="Context." + name)
            it.int_sat = 100
            it.list_cap = 100
            st = State()
            st.frames = []
            frames = [{"@layer": "scenario"}, {"@layer": "feature"}, {"@layer": "testrun"}]
            for i, lay in enumerate(("scenario", "feature", "testrun")):
                if lay in where.split("+"):
                    frames[i]["x"] = "value@" + lay
            ctx, stack, frefs = _ctx(ix, st, frames)
            st.wobj(st.obj(ctx).fields["_record"]).items = [("x", "rec")]
            outs = it.call_function(st, f, ["x"], {}, None, self_val=ctx)
            chk.absorb(it)
            chk.instance("X4")
            if len(outs) != 1:
                raise AnalysisError("Context.%s not evaluable (x in %s): %r" % (name, where, [(k, v) for _, k, v in outs][:3]))
            s2, k, v = outs[0]
            first = where.split("+")[0]
            if name == "__contains__":
                want, got = (where != "nowhere"), (v if k == "val" else repr(v))
            elif name == "__getattr__":
                want = ("value@" + first) if where != "nowhere" else "AttributeError"
                got = v if k == "val" else v.clsname()
            else:
                still = ["x" in dict(s2.obj(fr).items) for fr in frefs]
                want = ("deleted", [False, "feature" in where, "testrun" in where]) if "scenario" in where.split("+") else ("AttributeError", ["scenario" in where, "feature" in where, "testrun" in where])
                got = ("deleted" if k == "val" else v.clsname(), still)
            if got == want:
                chk.ok("X4", {"method": name, "x defined in": where, "result": repr(got)}, nontrivial_key=(name, where))
            else:
                _fail(chk, "X4", f, "%s with x in %s -> %r" % (name, where, got), "Context.%s('x') with x defined in the %s frame(s) gives %r, expected %r "
                      "(attributes are looked up from the current frame outward; only the current frame's attributes can be deleted)" % (name, where, got, want))


def check_fixture_and_managers(chk, ix):
    chk.rule("X6", WHAT["X6"])
    chk.rule("X9", WHAT["X9"])
    f = ix.func("behave.fixture:_setup_fixture")
    for is_gen in (True, False):
        events = []

        def fixture_func(i, s_, a, k, n, _e=events, _g=is_gen):
            _e.append("fixture function called")
            return [(s_, "val", "GENERATOR" if _g else "SETUP-RESULT")]
        fixture_func.__name__ = "fixture_func"

        def next_(i, s_, a, k, n, _e=events):
            _e.append("next(generator): setup part runs")
            s_fail = s_.fork()
            return [(s_, "val", "SETUP-RESULT"), (s_fail, "raise", Exc("RuntimeError", None, "setup part"))]
        it = Interp(ix, stubs={"is_context_manager": lambda i, s_, a, k, n, _g=is_gen: [(s_, "val", _g)], "next": next_,
                               "ContextTok.add_cleanup": lambda i, s_, a, k, n, _e=events: (_e.append("cleanup registered"), [(s_, "val", None)])[1]},
                    name="_setup_fixture")
        st = State()
        st.frames = []
        ctx = st.alloc(HObj("ContextTok", {}, label="context"))
        outs = it.call_function(st, f, [fixture_func, ctx], {}, None)
        chk.absorb(it)
        chk.instance("X6")
        if is_gen:
            want_prefix = ["fixture function called", "cleanup registered", "next(generator): setup part runs"]
            ok_ = events[:3] == want_prefix and any(k == "val" and v == "SETUP-RESULT" for _, k, v in outs) and any(k == "raise" for _, k, v in outs)
        else:
            ok_ = events == ["fixture function called"] and [(k, v) for _, k, v in outs] == [("val", "SETUP-RESULT")]
        if ok_:
            chk.ok("X6", {"fixture": "generator" if is_gen else "plain function", "sequence": list(events)}, nontrivial_key=("fixture", is_gen))
        else:
            _fail(chk, "X6", f, "%s fixture: %s" % ("generator" if is_gen else "plain", events),
                  "_setup_fixture for a %s fixture does %s (results %r): the cleanup of a generator fixture must be registered before its setup part "
                  "runs (a failing setup would otherwise leave it without cleanup), and the setup result is returned" % (
                      "generator" if is_gen else "plain function", events, [(k, v) for _, k, v in outs][:3]))
    for name in ("use_context_with_mode", "scoped_context_layer"):
        g = ix.func("behave.runner:" + name)
        chk.instance("X9")
        trys = [n for n in ast.walk(g.node) if isinstance(n, ast.Try) and n.finalbody]
        ok = False
        for t in trys:
            has_yield = any(isinstance(m, (ast.Yield,)) for b in t.body for m in ast.walk(b))
            restores = any(isinstance(m, (ast.Assign, ast.Call)) for b in t.finalbody for m in ast.walk(b))
            ok = ok or (has_yield and restores)
        if ok:
            chk.ok("X9", {"manager": name, "restore": "in finally"}, nontrivial_key=name)
        else:
            _fail(chk, "X9", g, "%s restore not in finally" % name, "%s does not restore in a finally block around its yield" % name)


def check_execute_steps(chk, ix):
    chk.rule("X7", WHAT["X7"])
    cc = ix.cls("behave.runner:Context")
    f = cc.lookup("execute_steps")
    for original in ("values", "none", "nested"):
        def step_run(it, st, args, kw, node, _original=original):
            outs = []
            ctx = st.ghost["ctx"]
            if _original == "nested" and not st.ghost.get("nested_entered"):
                # a sub-step that has a doc-string / table of its own and calls execute_steps() itself
                s = st.fork()
                s.ghost["nested_entered"] = True
                c = s.wobj(ctx)
                c.fields["text"] = "middle text"
                c.fields["table"] = "middle table"
                for (s2, k2, v2) in it.call_function(s, f, [Txt()], {}, node, self_val=ctx):
                    c2 = s2.obj(ctx)
                    if (c2.fields.get("text"), c2.fields.get("table")) != ("middle text", "middle table"):
                        s2.ghost["x7.err"] = "after the inner execute_steps() the calling sub-step sees text/table %r instead of its own" % (
                            (c2.fields.get("text"), c2.fields.get("table")),)
                    outs.append((s2, "val", True) if k2 == "val" else (s2, k2, v2))
                return outs
            for ok in (True, False):
                s = st.fork()
                c = s.wobj(ctx)
                c.fields["text"] = "substep text"
                c.fields["table"] = "substep table"
                outs.append((s, "val", ok))
            return outs

        class Txt(object):
            abs_type = "str"

            def __repr__(self):
                return "steps-text"

            def abs_truth(self):
                return True
        stubs = {"@with": "transparent", "SubStep.run": step_run,
                 "Context._use_with_behave_mode": lambda it, st, a, k, n: [(st, "val", None)],
                 "ParserTok.parse_steps": lambda it, st, a, k, n: [(st, "val", st.alloc(HObj("list", kind="list", items=[
                     st.alloc(HObj("SubStep", {"keyword": "Given", "name": "x", "status": Top("status", True), "error_message": None,
                                               "exc_traceback": None}, open=True, label="substep")) for _ in range(2)])))],
                 "traceback.format_tb": lambda it, st, a, k, n: [(st, "val", ())]}
        it = Interp(ix, stubs=stubs, name="Context.execute_steps")
        st = State()
        st.frames = []
        parser = st.alloc(HObj("ParserTok", {"variant": None}, label="parser"))
        feat = st.alloc(HObj("FeatTok", {"parser": parser}, label="feature"))
        o_text, o_table = ("caller text", "caller table") if original in ("values", "nested") else (None, None)
        ctx, stack, frefs = _ctx(ix, st, [{"@layer": "scenario"}, {"@layer": "testrun"}], feature=feat, text=o_text, table=o_table)
        st.ghost["ctx"] = ctx
        st.pinned = (ctx.oid,)
        st.freeze_base()

        outs = it.run(f, st, [Txt()], {}, self_val=ctx)
        chk.absorb(it)
        chk.instance("X7")
        for (s, k, v) in outs:
            c = s.obj(ctx)
            got = (c.fields.get("text"), c.fields.get("table"))
            if s.ghost.get("x7.err"):
                _fail(chk, "X7", f, "nested execute_steps: inner call clobbers the middle step", s.ghost["x7.err"], s.path)
            elif got == (o_text, o_table):
                chk.ok("X7", {"caller": original, "exit": k, "restored": True}, nontrivial_key=(original, k))
            else:
                _fail(chk, "X7", f, "caller=%s exit=%s text/table=%r" % (original, k, got),
                      "after execute_steps (%s exit) the caller's context.text/table are %r instead of %r" % (
                          "exceptional" if k == "raise" else "normal", got, (o_text, o_table)), s.path)
    chk.require_instances("X7", 2)


def check_use_or_param(chk, ix):
    chk.rule("X10", WHAT["X10"])
    cc = ix.cls("behave.runner:Context")
    for meth in ("use_or_assign_param", "use_or_create_param"):
        f = cc.lookup(meth)
        for case, outer in (("missing", {}), ("present", {"param": "outer value"}), ("present-None", {"param": None})):
            sets = []

            def rec(st, ev):
                if ev[0] == "setattr" and ev[3] == "param":
                    sets.append(ev[4])
            called = []

            def factory(it, st, args, kw, node):
                called.append(1)
                return [(st, "val", "created value")]
            it = Interp(ix, on_event=rec, name="Context." + meth)
            st = State()
            st.frames = []
            fr = {"@layer": "feature"}
            fr.update(outer)
            ctx, stack, frefs = _ctx(ix, st, [{"@layer": "scenario"}, fr, {"@layer": "testrun"}])
            args = ["param", "new value"] if meth == "use_or_assign_param" else ["param", factory]
            outs = it.call_function(st, f, args, {}, None, self_val=ctx)
            chk.absorb(it)
            chk.instance("X10")
            if len(outs) != 1 or outs[0][1] != "val":
                raise AnalysisError("Context.%s not evaluable: %r" % (meth, [(k, v) for _, k, v in outs][:2]))
            ret = outs[0][2]
            new_val = "new value" if meth == "use_or_assign_param" else "created value"
            if case == "missing":
                ok = ret == new_val and sets == [new_val]
            else:
                ok = ret == outer["param"] and not sets and not called
            if ok:
                chk.ok("X10", {"method": meth, "case": case, "returns": repr(ret), "assigned": bool(sets)}, nontrivial_key=(meth, case))
            else:
                _fail(chk, "X10", f, "%s %s -> returns %r assigns %r" % (meth, case, ret, sets),
                      "Context.%s with the attribute %s: returns %r and assigns %r (an existing attribute, also one whose value is "
                      "None, must be returned untouched; a missing one is assigned)" % (meth, case, ret, sets), outs[0][0].path)


def check_root_frame_is_own(chk, ix):
    """X11: every Context starts with its own root frame: two Contexts built one after the other share neither the root
    dictionary nor its '@cleanups' list (a test-run level cleanup of one run must not be run again by the next)."""
    chk.rule("X11", WHAT["X11"])
    cc = ix.cls("behave.runner:Context")
    init = cc.lookup("__init__")
    it = Interp(ix, stubs={"weakref.proxy": lambda i, s_, a, k, n: [(s_, "val", a[0])]}, name="Context.__init__")
    it.shared_consts = True
    it.list_cap = 100
    st = State()
    st.frames = []
    runner = st.alloc(HObj("RunnerTok", {"config": st.alloc(HObj("ConfigTok", {}, open=True, label="config"))}, open=True, label="runner"))
    ctxs = []
    cur = st
    for i in range(2):
        me = cur.alloc(HObj(cc, {}, label="context#%d" % (i + 1)))
        outs = [o for o in it.call_function(cur, init, [runner], {}, None, self_val=me)]
        if len(outs) != 1 or outs[0][1] != "val":
            raise AnalysisError("Context.__init__ not evaluable: %r" % ([(k, v) for _, k, v in outs][:3],))
        cur = outs[0][0]
        ctxs.append(me)
    chk.absorb(it)

    def root_and_cleanups(me):
        root = cur.obj(me).fields.get("_root")
        if not isinstance(root, Ref):
            raise AnalysisError("Context._root is not a dictionary object after __init__: %r" % (root,))
        items = dict(cur.obj(root).items)
        return root, items.get("@cleanups")
    (r1, c1), (r2, c2) = root_and_cleanups(ctxs[0]), root_and_cleanups(ctxs[1])
    chk.instance("X11")
    problems = []
    if r1.oid == r2.oid:
        problems.append("the two contexts share one root frame")
    if not isinstance(c1, Ref) or not isinstance(c2, Ref):
        problems.append("the root frame has no '@cleanups' list")
    elif c1.oid == c2.oid:
        problems.append("the two contexts share one '@cleanups' list (a class- or module-level default copied shallowly)")
    st1 = cur.obj(cur.obj(ctxs[0]).fields.get("_stack"))
    if not (st1.items and isinstance(st1.items[-1], Ref) and st1.items[-1].oid == r1.oid):
        problems.append("the root frame is not the bottom of the frame stack")
    if not problems:
        chk.ok("X11", {"two Context objects": "own root frame, own '@cleanups' list, root at the bottom of the stack"}, nontrivial_key="own root")
    else:
        _fail(chk, "X11", init, problems[0], "Context.__init__: %s: test-run level cleanups registered in one run would run again in the next "
              "run of the same process" % "; ".join(problems))



def check_fresh_context_per_run(chk, ix):
    """X12: ModelRunner.run / Runner.run_with_paths evaluated on a runner that still holds the Context of an earlier run:
    run_model() sees a Context created by this call."""
    chk.rule("X12", WHAT["X12"])
    for cname, meth in (("ModelRunner", "run"), ("Runner", "run_with_paths")):
        rc = ix.cls("behave.runner:" + cname)
        f = rc.lookup(meth)
        if f is None:
            raise AnalysisError("anchor missing: %s.%s" % (cname, meth))
        seen = []
        made = []

        def ctx_ctor(i, s_, a, k, n):
            r = s_.alloc(HObj("ContextTok", {}, open=True, label="context made by this run"))
            made.append(r.oid)
            return [(s_, "val", r)]

        def run_model(i, s_, a, k, n):
            c = s_.obj(a[0]).fields.get("context")
            seen.append(c.oid if isinstance(c, Ref) else c)
            return [(s_, "val", False)]
        noop = lambda i, s_, a, k, n: [(s_, "val", None)]      # noqa: E731
        stubs = {"Context": ctx_ctor, "ModelRunner.run_model": run_model, "Runner.run_model": run_model}
        for m_ in ("load_hooks", "load_step_definitions", "setup_paths", "feature_locations", "setup_capture", "run_hook"):
            stubs["Runner." + m_] = noop
            stubs["ModelRunner." + m_] = noop
        stubs["parse_features"] = lambda i, s_, a, k, n: [(s_, "val", s_.alloc(HObj("list", kind="list", items=[])))]
        stubs["Runner.feature_locations"] = lambda i, s_, a, k, n: [(s_, "val", s_.alloc(HObj("list", kind="list", items=[])))]
        stubs["make_formatters"] = lambda i, s_, a, k, n: [(s_, "val", ())]
        stubs["ConfigTok.exclude"] = lambda i, s_, a, k, n: [(s_, "val", False)]
        it = Interp(ix, stubs=stubs, name="%s.%s" % (cname, meth))
        it.int_sat = 100
        st = State()
        st.frames = []
        old = st.alloc(HObj("ContextTok", {}, open=True, label="context of the previous run"))
        cfg = st.alloc(HObj("ConfigTok", {"exclude_re": None, "include_re": None, "paths": (), "lang": None, "format": None, "default_format": "pretty",
                                          "outputs": (), "reporters": ()}, open=True, label="config"))
        me = st.alloc(HObj(rc, {"context": old, "config": cfg, "features": st.alloc(HObj("list", kind="list", items=[])), "formatters": (),
                                "step_registry": None, "hooks": st.alloc(HObj("dict", kind="dict", items=[]))}, label="runner"))
        try:
            outs = it.call_function(st, f, [], {}, None, self_val=me)
        except AnalysisError as e:
            raise AnalysisError("%s.%s not evaluable on tokens: %s" % (cname, meth, e))
        chk.absorb(it)
        chk.instance("X12")
        if not seen or not all(k == "val" for _, k, _v in outs):
            raise AnalysisError("%s.%s not evaluable on tokens: run_model reached %d time(s), exits %r" % (cname, meth, len(seen), [(k, v) for _, k, v in outs][:3]))
        if all(c in made for c in seen):
            chk.ok("X12", {"runner": "%s.%s" % (cname, meth), "run_model sees": "a Context created by this run"}, nontrivial_key=(cname, meth))
        else:
            _fail(chk, "X12", f, "%s.%s reuses the old context" % (cname, meth),
                  "%s.%s() calls run_model() while the runner still holds the Context of the previous run: its attributes are visible to the new "
                  "run's hooks and its test-run cleanups are executed a second time" % (cname, meth), outs[0][0].path if outs else ())


WHAT["X13"] = ("scope histories by evaluation: every history of push / pop / set / get / delete / contains on a Context made by its own "
               "__init__ behaves like a stack of dictionaries (set always succeeds and writes the current scope; get and contains see "
               "the innermost value; delete works only in the scope that holds the value; a popped scope takes its values along)")


def check_scope_histories(chk, ix):
    """X13: the Context methods evaluated on constants along every operation history up to a length bound (prefixes shared), from a
    fresh context and from one with an outer value already shadowed; each step is compared with a stack-of-dicts reference."""
    chk.rule("X13", WHAT["X13"])
    cc = ix.cls("behave.runner:Context")
    need = {}
    for name in ("__init__", "_push", "_pop", "__setattr__", "__getattr__", "__delattr__", "__contains__"):
        need[name] = cc.lookup(name)
        if need[name] is None:
            raise AnalysisError("anchor missing: Context.%s" % name)
    depth = 5 if chk.tier == "thorough" else 4
    noop = lambda i, s_, a, k, n: [(s_, "val", None)]      # noqa: E731
    stubs = {"weakref.proxy": lambda i, s_, a, k, n: [(s_, "val", a[0])], "@with": "transparent", "warnings.warn": noop,
             "traceback.extract_stack": lambda i, s_, a, k, n: [(s_, "val", (("file.py", 1, "f", "src"),))],
             "traceback2.extract_stack": lambda i, s_, a, k, n: [(s_, "val", (("file.py", 1, "f", "src"),))]}
    it = Interp(ix, stubs=stubs, name="Context histories")
    it.shared_consts = True
    it.int_sat = 1000
    it.list_cap = 100
    st = State()
    st.frames = []
    cfg = st.alloc(HObj("ConfigTok", {"verbose": False, "dry_run": False}, open=True, label="config"))
    runner = st.alloc(HObj("RunnerTok", {"config": cfg}, open=True, label="runner"))
    c = st.alloc(HObj(cc, {}, label="context"))
    o0 = it.call_function(st, need["__init__"], [runner], {}, None, self_val=c)
    if len(o0) != 1 or o0[0][1] != "val":
        raise AnalysisError("Context.__init__ not evaluable: %r" % ([(k, v) for _, k, v in o0][:2],))
    st0 = o0[0][0]
    st0.pinned = (c.oid,)
    counter = [0]
    reported = set()

    def apply(state, op):
        """-> (state, observed) where observed is 'ok' / a value / an exception class name"""
        s = state.fork()
        if op == "push":
            outs = it.call_function(s, need["_push"], ["layer"], {}, None, self_val=c)
        elif op == "pop":
            outs = it.call_function(s, need["_pop"], [], {}, None, self_val=c)
        elif op.startswith("set"):
            counter[0] += 1
            outs = it.call_function(s, need["__setattr__"], ["x", op], {}, None, self_val=c)
        elif op == "get":
            outs = it.call_function(s, need["__getattr__"], ["x"], {}, None, self_val=c)
        elif op == "del":
            outs = it.call_function(s, need["__delattr__"], ["x"], {}, None, self_val=c)
        else:
            outs = it.call_function(s, need["__contains__"], ["x"], {}, None, self_val=c)
        if len(outs) != 1:
            raise AnalysisError("Context history step %s has %d outcomes" % (op, len(outs)))
        s2, k, v = outs[0]
        if k == "raise":
            return s2, v.clsname()
        if k != "val":
            raise AnalysisError("Context history step %s ends with %s" % (op, k))
        return s2, ("ok" if op in ("push", "pop", "del") or op.startswith("set") else v)

    def model(stack, op):
        """reference: list of dicts, innermost last -> (stack', expected)"""
        stack = [dict(d) for d in stack]
        if op == "push":
            return stack + [{}], "ok"
        if op == "pop":
            return stack[:-1], "ok"
        if op.startswith("set"):
            stack[-1]["x"] = op
            return stack, "ok"
        if op == "get":
            for d in reversed(stack):
                if "x" in d:
                    return stack, d["x"]
            return stack, "AttributeError"
        if op == "del":
            if "x" in stack[-1]:
                del stack[-1]["x"]
                return stack, "ok"
            return stack, "AttributeError"
        return stack, any("x" in d for d in stack)

    def walk(state, stack, hist, left):
        if not left:
            return
        ops = ["push", "set%d" % (len(hist) + 1), "get", "del", "in"]
        if len(stack) > 1:
            ops.append("pop")      # the root scope is never popped by the runner
        for op in ops:
            s2, got = apply(state, op)
            stack2, want = model(stack, op)
            chk.instance("X13")
            h2 = hist + [op]
            if got == want:
                chk.ok("X13", {"history": " ".join(h2), "last step": repr(got)}, nontrivial_key=(op, repr(want)))
                walk(s2, stack2, h2, left - 1)
            else:
                key = (op, repr(got), repr(want), tuple(o.rstrip("0123456789") for o in h2[-3:]))
                if key not in reported:
                    reported.add(key)
                    _fail(chk, "X13", need["__setattr__" if op.startswith("set") else {"get": "__getattr__", "del": "__delattr__", "in": "__contains__",
                                                                                        "push": "_push", "pop": "_pop"}[op]],
                          "history: %s -> %r" % (" ".join(h2), got),
                          "on a new Context the history [%s] ends with %r, a stack of scopes gives %r" % (", ".join(h2), got, want))
    walk(st0, [{}], [], depth)
    # second start: an outer value that an inner scope has shadowed (the usual state inside a scenario)
    s1 = st0
    stack1 = [{}]
    for op in ("set0", "push", "set00"):
        s1, got = apply(s1, op)
        stack1, want = model(stack1, op)
        if got != want:
            _fail(chk, "X13", need["__setattr__"], "history: %s -> %r" % (op, got), "set / push on a new Context gives %r" % (got,))
            return
    walk(s1, stack1, ["set0", "push", "set00"], depth)
    chk.absorb(it)
    chk.require_instances("X13", 100)
