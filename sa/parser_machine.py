# -*- coding: utf-8 -*-
"""The Gherkin parser explored as a machine over LINE CLASSES.

The real parser code (Parser.*, the parse_* wrappers, the model constructors and
add_* methods) is interpreted abstractly; a text is an abstract sequence of
lines, each line one of the classes below (decided by the same prefix tests the
parser applies, on synthetic keyword tokens), so one abstract run denotes
infinitely many concrete documents.  Nothing is parsed concretely.
"""
from __future__ import annotations

from .index import EnumVal, AnalysisError, ClassInfo
from .values import Top, GE2, HObj, Ref, Exc, State, AbsSeq, ClassVal
from .absint import Interp
from .monitors import MonitorSet, Recorder

KW = {"feature": "<feature>", "rule": "<rule>", "background": "<background>", "scenario": "<scenario>",
      "scenario_outline": "<scenario_outline>", "examples": "<examples>"}
STEP_KW = {"given": "<given> ", "when": "<when> ", "then": "<then> ", "and": "<and> ", "but": "<but> "}

# line class -> canonical text (what the line, stripped, starts with)
LINE_CLASSES = {
    "BLANK": "",
    "COMMENT": "# some comment",
    "LANG_COMMENT": "# language: xx",
    "LANG_UNKNOWN": "# language: ??",
    "TAGS": "@tag",
    "FEATURE_KW": KW["feature"] + ":",
    "RULE_KW": KW["rule"] + ":",
    "BACKGROUND_KW": KW["background"] + ":",
    "SCENARIO_KW": KW["scenario"] + ":",
    "OUTLINE_KW": KW["scenario_outline"] + ":",
    "EXAMPLES_KW": KW["examples"] + ":",
    "STEP_GIVEN": STEP_KW["given"],
    "STEP_WHEN": STEP_KW["when"],
    "STEP_THEN": STEP_KW["then"],
    "STEP_AND": STEP_KW["and"],
    "STEP_BUT": STEP_KW["but"],
    "STEP_STAR": "* ",
    "TABLE_ROW": "| a | b |",
    "DOC_DQ": '"""',
    "DOC_SQ": "'''",
    "OTHER": "free text",
}
QUICK_CLASSES = [c for c in LINE_CLASSES if c not in ("STEP_WHEN", "STEP_THEN", "STEP_BUT", "DOC_SQ")]


class StrTop(object):
    """Unknown text derived from the input (slices, cells, words...)."""
    abs_type = "str"

    def __init__(self, tag="text"):
        self.tag = tag

    def __repr__(self):
        return "StrTop"

    def abs_truth(self):
        return Top("nonempty:str", True)

    def abs_call(self, it, st, name, args, kwargs, node):
        if name in ("strip", "lstrip", "rstrip", "lower", "upper", "replace", "title", "format", "encode", "decode"):
            return [(st, "val", StrTop(self.tag))]
        if name in ("startswith", "endswith", "isdigit"):
            return [(st, "val", Top("bool?" + name, True))]
        if name in ("split", "splitlines", "rsplit"):
            # str.split() without separator may yield an empty list
            lst = HObj("list", kind="list", items=None, label="split(%s)" % self.tag)
            lst.base = "split" if not args else None
            lst.count = 0 if not args else 1
            lst.fields["@elem"] = StrTop(self.tag + "-part")
            return [(st, "val", st.alloc(lst))]
        if name in ("index", "find", "count"):
            return [(st, "val", Top("int:" + name, True))]
        if name == "join":
            return [(st, "val", StrTop("joined"))]
        return [(st, "val", StrTop(self.tag + "." + name))]

    def abs_item(self, it, st, idx, node):
        return StrTop(self.tag + "[]")

    def abs_iter(self, it, st, node):
        return AbsSeq("chars", lambda i, s: [(s, StrTop("char"), "char")])


class LineVal(StrTop):
    def __init__(self, cls):
        self.cls = cls
        self.tag = "line:" + cls

    def __repr__(self):
        return "Line(%s)" % self.cls

    def abs_truth(self):
        return self.cls != "BLANK"

    def abs_call(self, it, st, name, args, kwargs, node):
        if name in ("strip", "lstrip", "rstrip", "lower"):
            return [(st, "val", LineVal(self.cls))]
        if name == "startswith":
            p = args[0]
            if isinstance(p, str):
                canon = LINE_CLASSES[self.cls]
                if name == "startswith" and self.cls in ("LANG_COMMENT", "LANG_UNKNOWN") and p == "language:":
                    return [(st, "val", True)]
                return [(st, "val", canon.lower().startswith(p.lower()) if p else True)]
            if isinstance(p, tuple):
                return [(st, "val", any(isinstance(x, str) and LINE_CLASSES[self.cls].startswith(x) for x in p))]
            # unknown prefix (e.g. the remembered doc-string terminator)
            if self.cls in ("DOC_DQ", "DOC_SQ") and isinstance(p, (Top, StrTop)):
                return [(st, "val", Top("bool:same-delimiter", True, domain=(True, False)))]
            return [(st, "val", False)]
        if name == "split" and self.cls == "TAGS" and not args:
            return [(st, "val", WordSeq())]
        if name == "index":
            return [(st, "val", Top("int:indent", True))]
        return StrTop.abs_call(self, it, st, name, args, kwargs, node)

    def abs_item(self, it, st, idx, node):
        if self.cls in ("LANG_COMMENT", "LANG_UNKNOWN"):
            return LineVal(self.cls)      # "# language: xx"[1:] / [9:] keep their meaning (the language id)
        return StrTop("part-of-" + self.cls)


class WordVal(StrTop):
    def __init__(self, kind):
        self.kind = kind
        self.tag = "word:" + kind

    def __repr__(self):
        return "Word(%s)" % self.kind

    def abs_truth(self):
        return True

    def abs_call(self, it, st, name, args, kwargs, node):
        if name == "startswith" and isinstance(args[0], str):
            return [(st, "val", {"tag": "@x", "comment": "#x", "bad": "x"}[self.kind].startswith(args[0]))]
        return StrTop.abs_call(self, it, st, name, args, kwargs, node)


class WordSeq(object):
    """words of a tag line: '@tag' words, possibly a trailing comment, possibly a malformed word."""
    def __repr__(self):
        return "WordSeq"

    def abs_iter(self, it, st, node):
        def fac(interp, s):
            return [(s.fork(), WordVal(k), k) for k in ("tag", "comment", "bad")]
        return AbsSeq("words", fac)

    def abs_truth(self):
        return True


class TextVal(StrTop):
    def __init__(self, classes):
        self.classes = list(classes)
        self.tag = "text"

    def __repr__(self):
        return "Text"

    def abs_truth(self):
        return Top("bool:text-nonempty", True, domain=(True, False))

    def abs_call(self, it, st, name, args, kwargs, node):
        if name == "splitlines":
            classes = self.classes

            def fac(interp, s):
                return [(s.fork(), LineVal(c), c) for c in classes]
            return [(st, "val", AbsSeq("lines", fac))]
        if name == "split":
            return [(st, "val", WordSeq())]
        if name in ("strip",):
            return [(st, "val", self)]
        if name == "startswith":
            return [(st, "val", Top("bool?text.startswith", True))]
        return StrTop.abs_call(self, it, st, name, args, kwargs, node)


def keywords_table(st):
    items = []
    for k, v in KW.items():
        items.append((k, st.alloc(HObj("list", kind="list", items=[v]))))
    for k, v in STEP_KW.items():
        items.append((k, st.alloc(HObj("list", kind="list", items=["* ", v]))))
    items.append(("name", "Synthetic"))
    items.append(("native", "Synthetic"))
    return st.alloc(HObj("dict", kind="dict", items=items, label="keywords"))


def is_lines(name):
    """the sequence of text lines, however the loop wraps it (enumerate(lines), iter ...)"""
    return name == "lines" or name.endswith("(lines)")


def line_of(elem):
    """the line of a loop element ((index, line) under enumerate)"""
    if isinstance(elem, tuple):
        for x in elem:
            if isinstance(x, LineVal):
                return x
    return elem


ENTRY_POINTS = {
    "parse_feature": ("behave.parser:parse_feature", "feature"),
    "parse_rule": ("behave.parser:parse_rule", "rule"),
    "parse_scenario": ("behave.parser:parse_scenario", "scenario"),
    "parse_steps": ("behave.parser:parse_steps", "steps"),
    "parse_tags": ("behave.parser:parse_tags", "tags"),
}


ANYSTEP = {}


def _count_list(st, label, keep_last=False, sink=False):
    """sink: contents irrelevant (appends ignored, truthiness unknown);
    otherwise only emptiness is tracked (count saturates at 1)."""
    o = HObj("list", kind="list", items=None, label=label)
    o.base = "sink" if sink else None
    o.count = 0
    o.fields["@noelem"] = True
    o.fields["@sink" if sink else "@sat1"] = True
    if keep_last:
        # steps[-1]: some earlier step of unknown type (given/when/then): a fresh token per read
        o.fields["@elem"] = any_step
    return st.alloc(o)


def any_step(st):
    return st.alloc(HObj("Step", {"kind": "Step", "text": None, "table": None, "name": StrTop("step name"),
                                  "step_type": Top("some-step-type", True, domain=STEP_TYPE_DOMAIN)},
                         label="some earlier step"))


STEP_TYPE_DOMAIN = ("given", "when")


def model_stubs(ix):
    """Small tokens for the model objects: only what the parser's decisions depend on
    (None-ness of containers/backgrounds, emptiness of step lists, the statement's kind)."""
    def ctor(kind, extra):
        def make(it, s, a, k, n):
            f = {"kind": kind, "line": a[1] if len(a) > 1 else k.get("line"),
                 "tags": k.get("tags", None), "filename": "x.feature", "name": StrTop("name")}
            for name, how in extra.items():
                if how == "list":
                    f[name] = _count_list(s, "%s.%s" % (kind, name), sink=True)
                elif how == "steps":
                    f[name] = _count_list(s, "%s.%s" % (kind, name), keep_last=True)
                else:
                    f[name] = how
            ref = s.alloc(HObj(kind, f, label=kind))
            it.emit(s, ("new", kind, ref.oid))
            return [(s, "val", ref)]
        return make
    stubs = {
        "Feature": ctor("Feature", {"description": "list", "background": None, "scenarios": "list", "rules": "list", "parser": None}),
        "Rule": ctor("Rule", {"description": "list", "background": None, "scenarios": "list", "feature": None}),
        "Background": ctor("Background", {"description": "list", "steps": "steps", "inherited_background": None}),
        "Scenario": ctor("Scenario", {"description": "list", "steps": "steps", "background": None}),
        "ScenarioOutline": ctor("ScenarioOutline", {"description": "list", "steps": "steps", "examples": "list", "background": None}),
        "Examples": ctor("Examples", {"table": None}),
        "Step": ctor("Step", {"text": None, "table": None}),
        "Table": ctor("Table", {"rows": "list"}),
        "Tag": lambda it, s, a, k, n: [(s, "val", StrTop("tag"))],
        "Text": lambda it, s, a, k, n: [(s, "val", StrTop("docstring"))],
    }

    def step_ctor(it, s, a, k, n):
        ref = s.alloc(HObj("Step", {"kind": "Step", "step_type": a[3] if len(a) > 3 else k.get("step_type"),
                                    "text": None, "table": None, "name": StrTop("step name")}, label="Step"))
        it.emit(s, ("new", "Step", ref.oid))
        return [(s, "val", ref)]
    stubs["Step"] = step_ctor

    def table_ctor(it, s, a, k, n):
        ref = s.alloc(HObj("Table", {"kind": "Table", "headings": a[0] if a else None,
                                     "rows": _count_list(s, "Table.rows", sink=True)}, label="Table"))
        return [(s, "val", ref)]
    stubs["Table"] = table_ctor
    stubs["Table.add_row"] = lambda it, s, a, k, n: [(s, "val", None)]

    def feature_add_background(it, s, a, k, n):
        s.wobj(a[0]).fields["background"] = a[1]
        it.emit(s, ("attach", "background", a[0].oid))
        return [(s, "val", None)]
    stubs["Feature.add_background"] = feature_add_background

    def rule_add_background(it, s, a, k, n):
        s.wobj(a[0]).fields["background"] = a[1]
        feat = s.obj(a[0]).fields.get("feature")
        if isinstance(feat, Ref):
            s.wobj(a[1]).fields["inherited_background"] = s.obj(feat).fields.get("background")
        it.emit(s, ("attach", "background", a[0].oid))
        return [(s, "val", None)]
    stubs["Rule.add_background"] = rule_add_background

    def add_scenario(it, s, a, k, n):
        cont = s.wobj(a[0])
        s.wobj(a[1]).fields["background"] = cont.fields.get("background")
        it.emit(s, ("attach", "scenario", a[0].oid))
        return [(s, "val", None)]
    stubs["Feature.add_scenario"] = add_scenario
    stubs["Rule.add_scenario"] = add_scenario

    def add_rule(it, s, a, k, n):
        feat = s.obj(a[0])
        s.wobj(a[1]).fields["feature"] = a[0]
        fbg = feat.fields.get("background")
        if isinstance(fbg, Ref):
            # rule gets a default (empty) background that inherits the feature's
            bg = s.alloc(HObj("Background", {"kind": "Background", "line": None, "tags": None,
                                             "description": _count_list(s, "Background.description"),
                                             "steps": _count_list(s, "Background.steps", keep_last=True),
                                             "inherited_background": fbg}, label="Background(default)"))
            s.wobj(a[1]).fields["background"] = bg
        it.emit(s, ("attach", "rule", a[0].oid))
        return [(s, "val", None)]
    stubs["Feature.add_rule"] = add_rule

    def inherited_steps(it, s, base, node):
        ib = s.obj(base).fields.get("inherited_background")
        if isinstance(ib, Ref):
            return [(s, "val", s.obj(ib).fields["steps"])]
        return [(s, "val", _count_list(s, "no inherited steps"))]
    attr_stubs = {"Background.inherited_steps": inherited_steps}
    return stubs, attr_stubs


def make_interp(ix, st, events):
    kwt = keywords_table(st)
    lang = st.alloc(HObj("LangTable", {}, open=True, label="i18n.languages"))

    def rec(s, ev):
        events(s, ev)
    stubs = {
        "@with": "transparent",
        "LangTable.__getitem__": lambda it, s, a, k, n: (
            it.raise_exc(s, "KeyError", n, "key", "unknown language id used as key of i18n.languages")
            if isinstance(a[1], LineVal) and a[1].cls == "LANG_UNKNOWN" else [(s, "val", kwt)]),
        "LangTable.__contains__": lambda it, s, b, a, n: (
            (a.cls != "LANG_UNKNOWN") if isinstance(a, LineVal) else Top("bool:language-known", True)),
        "FileLocation": lambda it, s, a, k, n: [(s, "val", s.alloc(HObj("FileLocationTok", {
            "filename": a[0] if a else None, "line": a[1] if len(a) > 1 else k.get("line")}, label="location")))],
        "Captured": lambda it, s, a, k, n: [(s, "val", s.alloc(HObj("CapturedTok", {}, label="captured")))],
        "make_relpath_if_possible": lambda it, s, a, k, n: [(s, "val", a[0])],
        "os.getcwd": lambda it, s, a, k, n: [(s, "val", "<cwd>")],
        "logging.getLogger": lambda it, s, a, k, n: [(s, "val", s.alloc(HObj("LoggerTok", {}, label="logger")))],
        "LoggerTok.warning": lambda it, s, a, k, n: [(s, "val", None)],
        "re.match": lambda it, s, a, k, n: [(s, "val", Top("re.match", True))],
        "re.split": lambda it, s, a, k, n: [(s, "val", _cells(s))],
        "text": lambda it, s, a, k, n: [(s, "val", StrTop("text"))],
        "Parser._normalize_step_name": lambda it, s, a, k, n: [(s, "val", None)],
    }
    ms, attr_stubs = model_stubs(ix)
    stubs.update(ms)
    it = Interp(ix, stubs=stubs, on_event=rec, name="parser machine", attr_stubs=attr_stubs)
    it.allow_guess = True        # paths through an unknown are reported as imprecise (exit 2) by the rules built on this exploration
    it.module_attrs = {("behave.i18n", "languages"): lang}

    def normalise(interp, s, node, seq):
        """Forget values no later decision of the parser depends on (sound: every forgotten
        value is replaced by an unknown or by a canonical representative of the same
        emptiness class); makes the set of loop-head states small."""
        if not is_lines(seq.name):
            return
        s.ghost.pop("cur", None)
        for oid, o in list(s.heap.items()):
            cn = o.clsname()
            if cn == "Parser" and isinstance(o.cls, ClassInfo):
                f = o.fields
                need = {}
                if f.get("line") is not GE2:
                    need["line"] = GE2
                in_ml = isinstance(f.get("state"), EnumVal) and f["state"].name == "MULTILINE_TEXT"
                if not in_ml:
                    for k in ("multiline_start", "multiline_leading", "multiline_terminator"):
                        if not (isinstance(f.get(k), Top) and f[k].tag == "stale"):
                            need[k] = Top("stale", True)
                fn = f.get("filename")
                if isinstance(fn, Top) and fn.truth is not None:
                    need["filename"] = Top(fn.tag, fn.input)
                for k in ("tags", "lines"):
                    v = f.get(k)
                    if isinstance(v, Ref):
                        lo = s.heap.get(v.oid)
                        if lo is not None and lo.kind == "list":
                            nonempty = (len(lo.items) > 0) if lo.items is not None else (lo.count != 0)
                            canon_ok = (lo.items == [] and not nonempty) or \
                                (lo.items is None and lo.count is GE2 and lo.base is None and not lo.fields)
                            if not canon_ok:
                                n = HObj("list", kind="list", items=None if nonempty else [], label=k)
                                if nonempty:
                                    n.count = GE2
                                need[k] = s.alloc(n)
                if need:
                    s.wobj(oid).fields.update(need)
            elif cn in ("Feature", "Rule", "Background", "Scenario", "ScenarioOutline", "Examples") and isinstance(o.cls, str):
                f = o.fields
                need = {}
                for k in ("line", "tags", "parser"):
                    if f.get(k) is not None:
                        need[k] = None
                if need:
                    s.wobj(oid).fields.update(need)
    it.at_loop_head = normalise
    it.list_cap = 1
    return it


def _cells(st):
    lst = HObj("list", kind="list", items=None, label="cells")
    lst.base = None
    lst.count = 1
    lst.fields["@elem"] = StrTop("cell")
    return st.alloc(lst)
