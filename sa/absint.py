# -*- coding: utf-8 -*-
"""Path-sensitive abstract explorer for the Python subset used by the analysed
behave functions.  It enumerates *all* abstract behaviours of a function over
finite domains (booleans, enum members, None-ness, saturating counters,
abstract objects, abstract sequences with loop fixpoints).  It never runs
repository code: it interprets the parsed AST over abstract values.

Result of evaluating an expression / executing a statement: a list of
outcomes ``(state, kind, value)`` with kind in
  'val' (expressions) | 'next' | 'return' | 'raise' | 'break' | 'continue'.
"""
from __future__ import annotations

import ast

from .index import (AnalysisError, EnumVal, ClassInfo, FuncInfo, Module, NotConst,
                    unparse, norm_stmt, dotted)
from .values import (Top, GE2, Ref, ClassVal, FuncVal, BoundMeth, Builtin, ModuleVal,
                     SuperVal, AbsSeq, LenOf, SymLen, HObj, Exc, State, vkey)

MAX_DEPTH = 40
MAX_STATES = 4000000


class Unsupported(AnalysisError):
    pass


def is_concrete(v):
    return not isinstance(v, Top)


class _WithBody(ast.stmt):
    """marker statement: 'run the body of that with-statement here' (inlined @contextmanager generator)"""
    _fields = ()


def _shallow_copy_path(stmt, target, replacement):
    """copy of `stmt` in which the descendant statement `target` is replaced; only the nodes on the path are copied"""
    if stmt is target:
        return replacement
    import copy as _copy
    new = _copy.copy(stmt)
    for field in ("body", "orelse", "finalbody"):
        lst = getattr(stmt, field, None)
        if isinstance(lst, list) and any(any(x is target for x in ast.walk(c)) for c in lst):
            setattr(new, field, [_shallow_copy_path(c, target, replacement) if any(x is target for x in ast.walk(c)) else c for c in lst])
    if isinstance(stmt, ast.Try):
        hs = []
        for h in stmt.handlers:
            if any(x is target for x in ast.walk(h)):
                h2 = _copy.copy(h)
                h2.body = [_shallow_copy_path(c, target, replacement) if any(x is target for x in ast.walk(c)) else c for c in h.body]
                hs.append(h2)
            else:
                hs.append(h)
        new.handlers = hs
    return new


class Interp(object):
    def __init__(self, index, stubs=None, opaque=None, on_event=None, name="explore", on_return=None,
                 attr_stubs=None):
        self.ix = index
        self.on_return = on_return           # callable(func, state, kind, value)
        self.attr_stubs = dict(attr_stubs or {})   # 'Cls.attr' -> fn(interp, st, base, node) -> outcomes
        self.at_loop_head = None             # callable(interp, state, for_node, seq): sound normalisation hook
        self.track_len = False               # keep len()/counter facts of abstract loops (outline roll-up)
        self.stubs = dict(stubs or {})       # fullname or 'Class.method' or name -> stub(interp, st, args, kwargs, node)
        self.opaque = set(opaque or ())      # dotted names / attribute names treated as pure unknown calls
        self.on_event = on_event             # callable(state, event) -> None (monitors; may raise)
        self.name = name
        self.stats = {"stmts": 0, "forks": 0, "calls": 0, "loop_heads": 0, "paths": 0,
                      "opaque_calls": set(), "inlined": set(), "assumed_asserts": set(),
                      "unresolved": set()}
        self.depth = 0
        self.budget = MAX_STATES

    # ------------------------------------------------------------------
    # events / monitors
    # ------------------------------------------------------------------
    def emit(self, st, ev):
        st.event(ev)
        if self.on_event:
            self.on_event(st, ev)

    # ------------------------------------------------------------------
    # helpers
    # ------------------------------------------------------------------
    def loc(self, node, func=None):
        f = self.cur_func
        return "%s:%s" % (f.file if f else "?", getattr(node, "lineno", "?"))

    def raise_exc(self, st, cls, node=None, internal=None, what=None):
        origin = (self.loc(node) + (" " + what if what else "")) if node is not None else what
        return [(st, "raise", Exc(cls, None, origin, internal))]

    def truth(self, st, v, node=None):
        """-> list of (state, bool).  Forks on unknowns."""
        if isinstance(v, Top):
            if v.truth is not None:
                return [(st, v.truth)]
            if v.domain is not None:
                out = []
                for (s2, c) in self.concretize(st, v, node):
                    out.extend(self.truth(s2, c, node))
                return out
            res = []
            txt = unparse(node) if node is not None else v.tag
            if not v.input and not getattr(self, "allow_guess", False):
                # a value the interpreter does not know (an unmodelled library call, arithmetic on a saturated counter ...) decides
                # a branch: no verdict, rather than a verdict built on a guess.  Only the explorations that report such paths as
                # imprecise (exit 2) themselves set allow_guess.
                raise Unsupported("the evaluation depends on a value the interpreter does not know (%s) at %s: %s" % (
                    v.tag, self.loc(node) if node is not None else "?", txt))
            for b in (True, False):
                s2 = st.fork()
                self.stats["forks"] += 1
                s2.note("%s: (%s) is %s" % (self.loc(node) if node is not None else "?", txt, b))
                if not v.input:
                    s2.mark_imprecise("%s: %s" % (self.loc(node) if node is not None else "?", txt))
                self.refine(s2, v, b)
                res.append((s2, b))
            return res
        if v is None or v is False:
            return [(st, False)]
        if hasattr(v, "abs_truth"):
            r = v.abs_truth()
            if isinstance(r, bool):
                return [(st, r)]
            return self.truth(st, r, node)
        if v is True or v is GE2:
            return [(st, True)]
        if isinstance(v, (int, float, str, bytes, tuple, frozenset, list, set, dict)):
            return [(st, bool(v))]
        if isinstance(v, Ref):
            o = st.obj(v)
            if o.kind in ("list", "set", "dict"):
                if o.items is not None:
                    return [(st, len(o.items) > 0)]
                seq = o.fields.get("@seq")
                if seq is not None and ("#n:" + seq.name) in st.ghost:
                    return [(st, st.ghost["#n:" + seq.name] != 0)]
                if seq is not None and ("#iter:" + seq.name) not in st.ghost and o.count == 0:
                    # emptiness test of an abstract sequence before it is iterated: remember the empty case
                    s_e = st.fork()
                    s_e.ghost["#n:" + seq.name] = 0
                    s_e.note("%s: %s is empty" % (self.loc(node) if node is not None else "?", o.label or seq.name))
                    st.note("%s: %s is not empty" % (self.loc(node) if node is not None else "?", o.label or seq.name))
                    return [(st, True), (s_e, False)]
                if o.base == "split" and o.count == 0:
                    s2 = st.fork()
                    st.wobj(v).count = 1
                    st.note("%s: list is not empty" % (self.loc(node) if node is not None else "?"))
                    e = s2.wobj(v)
                    e.items = []
                    e.base = None
                    s2.note("%s: list is empty" % (self.loc(node) if node is not None else "?"))
                    return [(st, True), (s2, False)]
                ln = self.abs_len(st, v)
                return self.truth(st, ln, node)
            if isinstance(o.cls, ClassInfo):
                # Python's truth protocol: __bool__ (py2: __nonzero__), else __len__, else true
                for mname in ("__bool__", "__nonzero__", "__len__"):
                    m = o.cls.lookup(mname)
                    if m is None:
                        continue
                    res = []
                    for (s2, k2, v2) in self.call_function(st, m, [], {}, node, self_val=v):
                        if k2 != "val":
                            raise Unsupported("%s.%s raises while a truth value is taken at %s" % (o.cls.name, mname, self.loc(node) if node is not None else "?"))
                        if mname == "__len__":
                            if isinstance(v2, int) and not isinstance(v2, bool):
                                res.append((s2, v2 != 0))
                            else:
                                res.extend(self.truth(s2, v2, node))
                        else:
                            res.extend(self.truth(s2, v2, node))
                    return res
            return [(st, True)]
        if isinstance(v, SymLen):
            if v.added in (1, GE2):
                return [(st, True)]
            return self.truth(st, Top("len:" + str(v.base), input=True), node)
        if isinstance(v, AbsSeq):
            return self.truth(st, Top("nonempty:" + v.name, input=True), node)
        if isinstance(v, (EnumVal, ClassVal, FuncVal, BoundMeth, Builtin, ModuleVal)):
            return [(st, True)]
        raise Unsupported("truth of %r" % (v,))

    def refine(self, st, top, b):
        """Write the outcome of a truth test back to where the unknown lives."""
        org = top.origin
        if org is None:
            return
        if top.domain is not None:
            return
        newv = Top(top.tag, top.input, None, org, truth=b)
        if top.tag.startswith("bool:"):
            newv = b
        if org[0] == "field":
            o = st.heap.get(org[1])
            if o is not None and org[2] in o.fields and isinstance(o.fields[org[2]], Top) \
                    and o.fields[org[2]].tag == top.tag:
                st.wobj(org[1]).fields[org[2]] = newv
        elif org[0] == "local":
            fr = st.frames[org[1]] if org[1] < len(st.frames) else None
            if fr is not None and isinstance(fr.get(org[2]), Top) and fr[org[2]].tag == top.tag:
                fr[org[2]] = newv

    def concretize(self, st, v, node=None):
        """Fork a Top with a finite domain into its concrete candidates."""
        if not isinstance(v, Top) or v.domain is None:
            return [(st, v)]
        out = []
        for c in v.domain:
            s2 = st.fork()
            self.stats["forks"] += 1
            s2.note("%s: %s := %r" % (self.loc(node) if node is not None else "?", v.tag, c))
            org = v.origin
            if org is not None:
                if org[0] == "field" and org[1] in s2.heap:
                    s2.wobj(org[1]).fields[org[2]] = c
                elif org[0] == "local" and org[1] < len(s2.frames):
                    s2.frames[org[1]][org[2]] = c
            out.append((s2, c))
        return out

    def abs_len(self, st, ref):
        o = st.obj(ref)
        if o.items is not None:
            n = len(o.items)
            return n if n < 2 else (n if False else (2 if n == 2 else n))
        if o.base is None:
            return o.count
        return SymLen(o.base, o.count)

    # ------------------------------------------------------------------
    # function calls
    # ------------------------------------------------------------------
    def call_function(self, st, func, args, kwargs, node=None, self_val=None, _body=None, _yield_to=None):
        """Inline an in-repo function.  -> outcomes ('val'|'raise')."""
        stub = self.find_stub(func) if _body is None else None
        if stub is not None:
            return stub(self, st, ([self_val] if self_val is not None else []) + list(args), kwargs, node)
        if self.depth >= MAX_DEPTH:
            raise AnalysisError("call depth exceeded at %s" % func.fullname)
        self.stats["calls"] += 1
        self.stats["inlined"].add(func.fullname)
        fnode = func.node
        is_gen = getattr(fnode, "_is_gen", None)
        if is_gen is None:
            is_gen = fnode._is_gen = _has_own_yield(fnode.body)
        if _body is not None:
            is_gen = False
        if is_gen and _yield_to is None and not getattr(self, "eager_generators", False) and not getattr(self, "_forcing_generator", 0):
            # a generator object: nothing runs until somebody consumes it (sa.lazyiter.force)
            return [(st, "val", st.alloc(HObj("iterator", {"@gen": (func, tuple(args), tuple(sorted(kwargs.items())), self_val)}, kind="iterator")))]
        frame = {}
        a = fnode.args
        params = [p.arg for p in a.posonlyargs + a.args]
        pos = ([self_val] if self_val is not None else []) + list(args)
        if func.kind == "staticmethod" and self_val is not None:
            pos = list(args)
        if len(pos) > len(params) and not a.vararg:
            raise Unsupported("too many positional args calling %s" % func.fullname)
        for p, v in zip(params, pos):
            frame[p] = v
        if a.vararg:
            frame[a.vararg.arg] = tuple(pos[len(params):])
        kw = dict(kwargs)
        for p in params[len(pos):] + [k.arg for k in a.kwonlyargs]:
            if p in kw:
                frame[p] = kw.pop(p)
        ndef = len(a.defaults)
        for i, d in enumerate(a.defaults):
            p = params[len(params) - ndef + i]
            if p not in frame:
                frame[p] = self.const_default(d, func.module)
        for k, d in zip(a.kwonlyargs, a.kw_defaults):
            if k.arg not in frame and d is not None:
                frame[k.arg] = self.const_default(d, func.module)
        if a.kwarg:
            frame[a.kwarg.arg] = st.alloc(HObj("dict", kind="dict", items=sorted(kw.items(), key=lambda x: x[0]), label="**kwargs"))
            kw = {}
        if kw:
            raise Unsupported("unexpected kwargs %s calling %s" % (sorted(kw), func.fullname))
        missing = [p for p in params if p not in frame]
        if missing:
            raise Unsupported("missing args %s calling %s" % (missing, func.fullname))
        if _body is None:
            frame["@body"] = id(fnode)      # this frame runs fnode's own body (see e_Name: unbound locals)
        st.frames.append(frame)
        saved = (self.cur_func,)
        self.cur_func = func
        self.depth += 1
        if _yield_to is not None:
            self._yield_handlers.append(_yield_to)
        try:
            outs = self.exec_block(st, fnode.body if _body is None else _body)
        finally:
            self.depth -= 1
            self.cur_func = saved[0]
            if _yield_to is not None:
                self._yield_handlers.pop()
        res = []
        for (s, kind, val) in outs:
            fr = s.frames.pop()
            if _yield_to is not None:
                # a generator driven by its consumer: it ended, or the consumer left the loop
                if kind in ("next", "return"):
                    res.append((s, "val", None))
                else:
                    res.append((s, kind, val))
                continue
            if is_gen and kind in ("next", "return"):
                # eager generator: the values it yields, as a tuple
                kind, val = "return", tuple(fr.get("@yield", ()))
            if self.on_return is not None:
                self.on_return(func, s, kind, val)
            if kind == "next":
                res.append((s, "val", None))
            elif kind == "return":
                res.append((s, "val", val))
            elif kind == "raise":
                res.append((s, "raise", val))
            else:
                raise Unsupported("%s escaped function %s" % (kind, func.fullname))
        return res

    cur_func = None
    live_list_iteration = False        # iterate heap lists by index over the live object (removal inside the body skips elements)
    same_seq_same_length = False       # two complete loops over one abstract sequence see the same number of elements (0 / 1 / more)

    def const_default(self, expr, mod):
        try:
            v = self.ix.fold(expr, mod)
        except NotConst:
            return Top("default:" + unparse(expr))
        if isinstance(v, (list, dict, set)):
            return Top("default:" + unparse(expr))
        return v

    def find_stub(self, func):
        for key in (func.fullname, func.qualname, func.name):
            if key in self.stubs:
                s = self.stubs[key]
                return s
        return None

    def run(self, func, st, args, kwargs=None, self_val=None):
        """Entry point: explore ``func`` from ``st``; returns outcomes."""
        self.cur_func = None
        outs = self.call_function(st, func, args, kwargs or {}, None, self_val)
        self.stats["paths"] += len(outs)
        return outs

    # ------------------------------------------------------------------
    # statements
    # ------------------------------------------------------------------
    def exec_block(self, st, body):
        states = [st]
        done = []
        for stmt in body:
            nxt = []
            if isinstance(stmt, ast.For) and len(states) > 1:
                self.stats["stmts"] += len(states)
                for out in self.for_multi(states, stmt):
                    if out[1] == "next":
                        nxt.append(out[0])
                    else:
                        done.append(out)
                states = self.dedupe(nxt)
                if not states:
                    break
                continue
            for s in states:
                for out in self.exec_stmt(s, stmt):
                    if out[1] == "next":
                        nxt.append(out[0])
                    else:
                        done.append(out)
            states = self.dedupe(nxt) if isinstance(stmt, (ast.For, ast.If, ast.Try)) else nxt
            if not states:
                break
        return done + [(s, "next", None) for s in states]

    def dedupe(self, states, threshold=10):
        """Merge abstract states that are identical up to the path that led to them."""
        if len(states) <= threshold:
            return states
        seen = {}
        for s in states:
            k = s.key()
            if k not in seen:
                seen[k] = s
        self.stats["merged"] = self.stats.get("merged", 0) + len(states) - len(seen)
        return list(seen.values())

    def exec_stmt(self, st, node):
        self.stats["stmts"] += 1
        self.budget -= 1
        if self.budget < 0:
            raise AnalysisError("state budget exhausted in %s" % self.name)
        m = getattr(self, "s_" + type(node).__name__, None)
        if m is None:
            raise Unsupported("statement %s at %s" % (type(node).__name__, self.loc(node)))
        return m(st, node)

    def s_Pass(self, st, node):
        return [(st, "next", None)]

    def s_Expr(self, st, node):
        if isinstance(node.value, ast.Constant):
            return [(st, "next", None)]
        return [(s, "next" if k == "val" else k, v if k != "val" else None)
                for (s, k, v) in self.eval(st, node.value)]

    def s_Return(self, st, node):
        if node.value is None:
            return [(st, "return", None)]
        return [(s, "return" if k == "val" else k, v) for (s, k, v) in self.eval(st, node.value)]

    def s_Break(self, st, node):
        return [(st, "break", None)]

    def s_Continue(self, st, node):
        return [(st, "continue", None)]

    def s_Global(self, st, node):
        return [(st, "next", None)]

    def s_Import(self, st, node):
        """import a.b [as c] inside a function: the name is a local of that function"""
        if not st.frames or st.frames[-1].get("@body") is None:
            return [(st, "next", None)]
        for a in node.names:
            if a.asname:
                full, local = a.name, a.asname
            else:
                full = local = a.name.split(".")[0]
            m = self.ix.modules.get(full)
            st.frames[-1][local] = self.x_resolved(st, m if m is not None else ("ext", full), local)
        return [(st, "next", None)]

    def s_ImportFrom(self, st, node):
        """from m import n [as a] inside a function (relative imports are resolved against the function's module)"""
        if not st.frames or st.frames[-1].get("@body") is None:
            return [(st, "next", None)]
        base = node.module or ""
        if node.level:
            mod = self.cur_func.module.name if self.cur_func is not None else ""
            parts = mod.split(".")
            if not (self.cur_func is not None and getattr(self.cur_func.module, "is_package", False)):
                parts = parts[:-1]
            parts = parts[:len(parts) - (node.level - 1)] if node.level > 1 else parts
            base = ".".join(parts + ([node.module] if node.module else []))
        for a in node.names:
            if a.name == "*":
                continue
            local = a.asname or a.name
            full = base + "." + a.name
            if full in self.ix.modules:
                r = self.ix.modules[full]
            elif base in self.ix.modules:
                r = self.ix.resolve_name(self.ix.modules[base], a.name) or ("ext", full)
            else:
                r = ("ext", full)
            st.frames[-1][local] = self.x_resolved(st, r, local)
        return [(st, "next", None)]

    def s_Delete(self, st, node):
        states = [st]
        res = []
        for t in node.targets:
            if isinstance(t, ast.Name):
                for s in states:
                    s.frames[-1].pop(t.id, None)
            elif isinstance(t, ast.Subscript) and isinstance(t.slice, ast.Slice) and t.slice.step is None:
                # del lst[a:b] on a concrete list with constant bounds
                nxt = []
                for s in states:
                    for (s1, k1, base) in self.eval(s, t.value):
                        if k1 != "val":
                            res.append((s1, k1, base))
                            continue
                        bounds = [(s1, [])]
                        for part in (t.slice.lower, t.slice.upper):
                            nb = []
                            for (sb, acc) in bounds:
                                if part is None:
                                    nb.append((sb, acc + [None]))
                                else:
                                    for (s2, k2, v2) in self.eval(sb, part):
                                        if k2 != "val":
                                            res.append((s2, k2, v2))
                                        else:
                                            nb.append((s2, acc + [v2]))
                            bounds = nb
                        for (s2, (lo, hi)) in bounds:
                            o = s2.obj(base) if isinstance(base, Ref) else None
                            if o is None or o.kind != "list" or o.items is None or not all(b is None or (isinstance(b, int) and not isinstance(b, bool)) for b in (lo, hi)):
                                raise Unsupported("del %s at %s" % (unparse(t), self.loc(node)))
                            w = s2.wobj(base)
                            w.items = list(w.items)
                            del w.items[lo:hi]
                            self.emit(s2, ("mutate", base.oid, s2.obj(base).label, "del"))
                            nxt.append(s2)
                states = nxt
            elif isinstance(t, ast.Subscript) and not isinstance(t.slice, ast.Slice):
                nxt = []
                for s in states:
                    for (s1, k1, base) in self.eval(s, t.value):
                        if k1 != "val":
                            res.append((s1, k1, base))
                            continue
                        for (s2, k2, idx) in self.eval(s1, t.slice):
                            if k2 != "val":
                                res.append((s2, k2, idx))
                                continue
                            o = s2.obj(base) if isinstance(base, Ref) else None
                            if o is not None and o.kind == "list" and o.items is not None and isinstance(idx, int) and not isinstance(idx, bool):
                                if -len(o.items) <= idx < len(o.items):
                                    w = s2.wobj(base)
                                    w.items = list(w.items)
                                    del w.items[idx]
                                    self.emit(s2, ("mutate", base.oid, s2.obj(base).label, "del"))
                                    nxt.append(s2)
                                else:
                                    res.extend(self.raise_exc(s2, "IndexError", node, "index", "del list[%r]" % idx))
                            elif o is not None and o.kind == "dict" and o.items is not None and isinstance(idx, (str, int)):
                                keys = [k for k, _ in o.items]
                                if idx in keys:
                                    w = s2.wobj(base)
                                    w.items = [(k, v) for (k, v) in w.items if k != idx]
                                    self.emit(s2, ("mutate", base.oid, s2.obj(base).label, "del"))
                                    nxt.append(s2)
                                else:
                                    res.extend(self.raise_exc(s2, "KeyError", node, "key", "del dict[%r]" % (idx,)))
                            else:
                                raise Unsupported("del %s at %s" % (unparse(t), self.loc(node)))
                states = nxt
            else:
                raise Unsupported("del %s" % unparse(t))
        return res + [(s, "next", None) for s in states]

    def s_Assign(self, st, node):
        res = []
        for (s, k, v) in self.eval(st, node.value):
            if k != "val":
                res.append((s, k, v))
                continue
            states = [s]
            for t in node.targets:
                nxt = []
                for s2 in states:
                    for (s3, k3, v3) in self.assign(s2, t, v):
                        if k3 == "next":
                            nxt.append(s3)
                        else:
                            res.append((s3, k3, v3))
                states = nxt
            res.extend((s2, "next", None) for s2 in states)
        return res

    def s_AnnAssign(self, st, node):
        if node.value is None:
            return [(st, "next", None)]
        fake = ast.Assign(targets=[node.target], value=node.value)
        ast.copy_location(fake, node)
        return self.s_Assign(st, fake)

    def s_AugAssign(self, st, node):
        load = _as_load(node.target)
        binop = getattr(node, "_binop", None)
        if binop is None:
            binop = ast.BinOp(left=load, op=node.op, right=node.value)
            ast.copy_location(binop, node)
            node._binop = binop
        # list += iterable is an in-place extend
        if isinstance(node.op, ast.Add):
            outs0 = self.eval(st, load)
            if len(outs0) == 1 and outs0[0][1] == "val" and isinstance(outs0[0][2], Ref) and outs0[0][0].obj(outs0[0][2]).kind == "list":
                s0, _, lref = outs0[0]
                res0 = []
                from .abscall import list_method as _lm
                for (s1, k1, rv) in self.eval(s0, node.value):
                    if k1 != "val":
                        res0.append((s1, k1, rv))
                        continue
                    for (s2, k2, _) in _lm(self, s1, lref, s1.wobj(lref), "extend", [rv], {}, node):
                        res0.extend(self.assign(s2, node.target, lref))
                return res0
        res = []
        is_inc1 = (self.track_len and isinstance(node.target, ast.Name) and isinstance(node.op, ast.Add)
                   and isinstance(node.value, ast.Constant) and node.value.value == 1)
        for (s, k, v) in self.eval(st, binop):
            if k != "val":
                res.append((s, k, v))
                continue
            if is_inc1:
                s.ghost["#inc"] = s.ghost.get("#inc", ()) + (node.target.id,)
            res.extend(self.assign(s, node.target, v))
        return res

    def assign(self, st, target, v):
        """-> outcomes ('next' | 'raise')"""
        if isinstance(target, ast.Name):
            if isinstance(v, Top) and v.origin is None:
                v = Top(v.tag, v.input, v.domain, ("local", len(st.frames) - 1, target.id), v.truth)
            st.frames[-1][target.id] = v
            return [(st, "next", None)]
        if isinstance(target, (ast.Tuple, ast.List)):
            if isinstance(v, Ref) and "@nt" in st.obj(v).fields:
                v = tuple(st.obj(v).fields[n_] for n_ in st.obj(v).fields["@nt"])      # a namedtuple unpacks like a tuple
            if isinstance(v, Ref) and st.obj(v).kind in ("list", "iterator") and st.obj(v).items is not None and "@op" not in st.obj(v).fields:
                items = tuple(st.obj(v).items[st.obj(v).fields.get("@pos", 0):]) if st.obj(v).kind == "iterator" else tuple(st.obj(v).items)
                if len(items) != len(target.elts):
                    return self.raise_exc(st, "ValueError", target, "unpack", "unpack %d values into %d names" % (len(items), len(target.elts)))
                v = items
            if isinstance(v, (tuple, list)) and len(v) == len(target.elts):
                states = [st]
                for t, x in zip(target.elts, v):
                    states = [s2 for s in states for (s2, k, _) in self.assign(s, t, x) if k == "next"]
                return [(s, "next", None) for s in states]
            if isinstance(v, Top):
                states = [st]
                for i, t in enumerate(target.elts):
                    states = [s2 for s in states
                              for (s2, k, _) in self.assign(s, t, Top("%s[%d]" % (v.tag, i), v.input))
                              if k == "next"]
                return [(s, "next", None) for s in states]
            raise Unsupported("unpack %r into %s" % (v, unparse(target)))
        if isinstance(target, ast.Attribute):
            res = []
            for (s, k, base) in self.eval(st, target.value):
                if k != "val":
                    res.append((s, k, base))
                    continue
                res.extend(self.set_attr(s, base, target.attr, v, target))
            return res
        if isinstance(target, ast.Subscript) and isinstance(target.slice, ast.Slice):
            # lst[a:b] = seq (also lst[:] = seq): in place, on fully known lists with constant bounds
            if target.slice.step is not None:
                raise Unsupported("extended slice assignment at %s" % self.loc(target))
            res = []
            for (s, k, base) in self.eval(st, target.value):
                if k != "val":
                    res.append((s, k, base))
                    continue
                bounds = []
                cur = s
                bad = None
                for part in (target.slice.lower, target.slice.upper):
                    if part is None:
                        bounds.append(None)
                        continue
                    outs = self.eval(cur, part)
                    if len(outs) != 1 or outs[0][1] != "val" or not isinstance(outs[0][2], int) or isinstance(outs[0][2], bool):
                        bad = part
                        break
                    cur = outs[0][0]
                    bounds.append(outs[0][2])
                if bad is not None or not (isinstance(base, Ref) and cur.obj(base).kind == "list" and cur.obj(base).items is not None):
                    raise Unsupported("slice assignment on %r at %s" % (base, self.loc(target)))
                try:
                    kind, seq = self.iter_values(cur, v, target)
                except AnalysisError:
                    kind, seq = None, None
                if kind != "concrete":
                    raise Unsupported("slice assignment of a sequence the interpreter does not know at %s" % self.loc(target))
                o = cur.wobj(base)
                items = list(o.items)
                items[bounds[0]:bounds[1]] = list(seq)
                o.items = items
                self.emit(cur, ("mutate", base.oid, o.label, "setslice"))
                res.append((cur, "next", None))
            return res
        if isinstance(target, ast.Subscript):
            res = []
            for (s, k, base) in self.eval(st, target.value):
                if k != "val":
                    res.append((s, k, base))
                    continue
                for (s2, k2, idx) in self.eval(s, target.slice):
                    if k2 != "val":
                        res.append((s2, k2, idx))
                        continue
                    res.extend(self.set_item(s2, base, idx, v, target))
            return res
        raise Unsupported("assignment target %s" % type(target).__name__)

    def set_attr(self, st, base, attr, v, node):
        if isinstance(base, Ref):
            o = st.obj(base)
            if isinstance(o.cls, ClassInfo):
                setter = o.cls.lookup_setter(attr)
                if setter is not None:
                    outs = self.call_function(st, setter, [v], {}, node, self_val=base)
                    return [(s, "next" if k == "val" else k, None if k == "val" else x) for (s, k, x) in outs]
                hook = self.stubs.get(o.cls.name + ".__setattr__")
                if hook is not None:
                    outs = hook(self, st, [base, attr, v], {}, node)
                    return [(s, "next" if k == "val" else k, None if k == "val" else x) for (s, k, x) in outs]
            if isinstance(v, Top) and v.origin is None:
                v = Top(v.tag, v.input, v.domain, ("field", base.oid, attr), v.truth)
            o = st.wobj(base)
            o.fields[attr] = v
            self.emit(st, ("setattr", base.oid, o.clsname(), attr, v))
            return [(st, "next", None)]
        if base is None:
            return self.raise_exc(st, "AttributeError", node, "none-attr",
                                  "None.%s = ..." % attr)
        if isinstance(base, Top):
            if base.truth is False:
                return self.raise_exc(st, "AttributeError", node, "none-attr", "None.%s = ..." % attr)
            return [(st, "next", None)]      # write into unknown object: no tracked effect
        if isinstance(base, (ModuleVal, ClassVal)):
            self.emit(st, ("setglobal", repr(base), attr, v))
            if isinstance(base, ModuleVal):
                nm = base.mod.name if isinstance(base.mod, Module) else base.mod
                st.ghost["@g:%s.%s" % (nm, attr)] = v
            else:
                # a class attribute written at run time: process-wide state, seen by everybody who reads it afterwards
                st.ghost["@c:%s.%s" % (base.name(), attr)] = v
            return [(st, "next", None)]
        raise Unsupported("setattr on %r.%s at %s" % (base, attr, self.loc(node)))

    def set_item(self, st, base, idx, v, node):
        if hasattr(base, "abs_setitem"):
            base.abs_setitem(self, st, idx, v, node)
            return [(st, "next", None)]
        if isinstance(base, Ref):
            o = st.wobj(base)
            self.emit(st, ("mutate", base.oid, o.label, "setitem"))
            if o.kind == "dict":
                if o.items is None:
                    o.items = None
                    o.fields[("k", vkey(idx))] = v
                    return [(st, "next", None)]
                d = dict(o.items)
                d[idx if _hashable(idx) else vkey(idx)] = v
                o.items = list(d.items())
                return [(st, "next", None)]
            if o.kind == "list" and o.items is not None and isinstance(idx, int) and -len(o.items) <= idx < len(o.items):
                o.items[idx] = v
                return [(st, "next", None)]
            if o.kind == "list":
                return [(st, "next", None)]
        if isinstance(base, Top):
            return [(st, "next", None)]
        raise Unsupported("setitem on %r at %s" % (base, self.loc(node)))

    def s_If(self, st, node):
        res = []
        for (s, k, v) in self.eval(st, node.test):
            if k != "val":
                res.append((s, k, v))
                continue
            for (s2, b) in self.truth(s, v, node.test):
                res.extend(self.exec_block(s2, node.body if b else node.orelse))
        return res

    def s_Assert(self, st, node):
        res = []
        for (s, k, v) in self.eval(st, node.test):
            if k != "val":
                res.append((s, k, v))
                continue
            if isinstance(v, Top) and v.truth is None and v.domain is None and not v.tag.startswith("bool:"):
                # condition the abstraction cannot evaluate: assumed to hold (recorded)
                self.stats["assumed_asserts"].add("%s: assert %s" % (self.loc(node), unparse(node.test)))
                res.append((s, "next", None))
                continue
            for (s2, b) in self.truth(s, v, node.test):
                if b:
                    res.append((s2, "next", None))
                else:
                    res.extend(self.raise_exc(s2, "AssertionError", node, "assert",
                                              "assert " + unparse(node.test)))
        return res

    def s_Raise(self, st, node):
        if node.exc is None:
            cur = st.frames[-1].get("@exc")
            if cur is None:
                raise Unsupported("bare raise outside handler at %s" % self.loc(node))
            return [(st, "raise", cur)]
        res = []
        for (s, k, v) in self.eval(st, node.exc):
            if k != "val":
                res.append((s, k, v))
                continue
            res.append((s, "raise", self.to_exc(s, v, node)))
        return res

    def to_exc(self, st, v, node):
        if isinstance(v, Exc):
            return v
        if isinstance(v, ClassVal):
            return Exc(v.cls if isinstance(v.cls, ClassInfo) else v.name(), None, self.loc(node))
        if isinstance(v, Ref):
            o = st.obj(v)
            return Exc(o.cls, v, self.loc(node))
        if isinstance(v, Top):
            return Exc("Exception", None, self.loc(node) + " (unknown exception)")
        raise Unsupported("raise %r" % (v,))

    def handler_matches(self, st, exc, hnode):
        """-> True | False for one except clause."""
        if hnode.type is None:
            return True
        outs = self.eval(st, hnode.type)
        if len(outs) != 1 or outs[0][1] != "val":
            raise Unsupported("handler type %s" % unparse(hnode.type))
        hv = outs[0][2]
        hvs = hv if isinstance(hv, tuple) else (hv,)
        for h in hvs:
            if not isinstance(h, ClassVal):
                raise Unsupported("handler class %r" % (h,))
            hc = h.cls if isinstance(h.cls, ClassInfo) else h.name()
            if self.ix.exc_is_subclass(exc.cls, hc):
                return True
        return False

    def s_Try(self, st, node):
        outs = self.exec_block(st, node.body)
        res = []
        for (s, k, v) in outs:
            if k == "raise":
                handled = False
                for h in node.handlers:
                    if self.handler_matches(s, v, h):
                        handled = True
                        s.note("%s: except %s catches %s" % (self.loc(h), unparse(h.type) if h.type else "", v.clsname()))
                        old_exc = s.frames[-1].get("@exc")
                        s.frames[-1]["@exc"] = v
                        if h.name:
                            s.frames[-1][h.name] = self.exc_value(s, v)
                        for (s2, k2, v2) in self.exec_block(s, h.body):
                            if old_exc is None:
                                s2.frames[-1].pop("@exc", None)
                            else:
                                s2.frames[-1]["@exc"] = old_exc
                            if h.name:
                                s2.frames[-1].pop(h.name, None)
                            res.append((s2, k2, v2))
                        break
                if not handled:
                    res.append((s, k, v))
            elif k == "next" and node.orelse:
                res.extend(self.exec_block(s, node.orelse))
            else:
                res.append((s, k, v))
        if node.finalbody:
            final = []
            for (s, k, v) in res:
                for (s2, k2, v2) in self.exec_block(s, node.finalbody):
                    if k2 == "next":
                        final.append((s2, k, v))
                    else:
                        final.append((s2, k2, v2))      # finally overrides
            res = final
        return res

    def exc_value(self, st, exc):
        if exc.ref is not None:
            return exc.ref
        ref = st.alloc(HObj(exc.cls, {"args": Top("exc.args", input=True, domain=((), ("<message>",)))},
                            kind="exc", open=True))
        exc.ref = ref
        return ref

    def _inrepo_contextmanager(self, expr):
        """with <call of an in-repo @contextmanager generator function with one statement-level yield> -> (FuncInfo, yield stmt)"""
        if not isinstance(expr, ast.Call) or self.cur_func is None:
            return None
        r = self.ix.resolve_expr(self.cur_func.module, expr.func)
        if not isinstance(r, FuncInfo) or self.find_stub(r) is not None:
            return None
        if not any(unparse(d).split(".")[-1] == "contextmanager" for d in r.node.decorator_list):
            return None
        ys = [n for n in ast.walk(r.node) if isinstance(n, (ast.Yield, ast.YieldFrom))]
        if len(ys) != 1 or isinstance(ys[0], ast.YieldFrom):
            return None
        par = getattr(ys[0], "_parent", None)
        if not isinstance(par, (ast.Expr, ast.Assign)):
            return None
        p = par
        while p is not None and p is not r.node:
            if isinstance(p, (ast.For, ast.While, ast.FunctionDef, ast.Lambda)) and p is not r.node:
                return None
            p = getattr(p, "_parent", None)
        return r, par

    def with_inline(self, st, node, item, cmf, ystmt):
        """The manager's generator body with its yield replaced by the with-body (run in the caller's frame)."""
        key = id(node)
        cache = self.__dict__.setdefault("_with_cache", {})
        if key not in cache:
            marker = _WithBody()
            marker.with_node = node
            marker.value = ystmt.value.value if isinstance(ystmt, ast.Expr) else ystmt.value.value
            marker.caller = self.cur_func
            ast.copy_location(marker, ystmt)

            class Sub(ast.NodeTransformer):
                def visit_Expr(self_, n):
                    return marker if n is ystmt else self_.generic_visit(n)

                def visit_Assign(self_, n):
                    return marker if n is ystmt else self_.generic_visit(n)
            import copy as _copy
            body = []
            for stmt in cmf.node.body:
                if any(x is ystmt for x in ast.walk(stmt)):
                    stmt = _shallow_copy_path(stmt, ystmt, marker)
                body.append(stmt)
            cache[key] = body
        body = cache[key]
        call = item.context_expr
        res = []
        for (s, k, args) in self.eval_list(st, call.args):
            if k != "val":
                res.append((s, k, args))
                continue
            for (s2, k2, kwv) in self.eval_list(s, [kw.value for kw in call.keywords]):
                if k2 != "val":
                    res.append((s2, k2, kwv))
                    continue
                kwargs = {kw.arg: v for kw, v in zip(call.keywords, kwv) if kw.arg is not None}
                for (s3, k3, v3) in self.call_function(s2, cmf, list(args), kwargs, node, _body=body):
                    if k3 == "val" and isinstance(v3, tuple) and len(v3) == 3 and v3[0] == "@with-ctl":
                        res.append((s3, v3[1], v3[2]))
                    elif k3 == "val":
                        res.append((s3, "next", None))
                    else:
                        res.append((s3, k3, v3))
        return res

    def s__WithBody(self, st, marker):
        node = marker.with_node
        item = node.items[0]
        res = []
        vals = [(st, "val", None)] if marker.value is None else self.eval(st, marker.value)
        for (s, k, v) in vals:
            if k != "val":
                res.append((s, k, v))
                continue
            callee_frame = s.frames.pop()
            saved = self.cur_func
            self.cur_func = marker.caller
            try:
                if item.optional_vars is not None:
                    starts = [s2 for (s2, k2, _) in self.assign(s, item.optional_vars, v) if k2 == "next"]
                else:
                    starts = [s]
                outs = []
                for s2 in starts:
                    outs.extend(self.exec_block(s2, node.body))
            finally:
                self.cur_func = saved
            for (s3, k3, v3) in outs:
                s3.frames.append(dict(callee_frame))
                if k3 in ("return", "break", "continue"):
                    # leaves the with-statement: runs the manager's finally blocks on its way out
                    res.append((s3, "return", ("@with-ctl", k3, v3)))
                else:
                    res.append((s3, k3, v3))
        return res

    def s_With(self, st, node):
        if len(node.items) != 1:
            raise Unsupported("multi-item with at %s" % self.loc(node))
        item = node.items[0]
        inl = self._inrepo_contextmanager(item.context_expr)
        if inl is not None:
            return self.with_inline(st, node, item, inl[0], inl[1])
        res = []
        for (s, k, cm) in self.eval(st, item.context_expr):
            if k != "val":
                res.append((s, k, cm))
                continue
            if isinstance(cm, Ref) and isinstance(s.obj(cm).cls, ClassInfo) and s.obj(cm).cls.lookup("__enter__") is not None \
                    and s.obj(cm).cls.lookup("__exit__") is not None:
                res.extend(self.with_object(s, node, item, cm))
                continue
            hook = self.stubs.get("@with")
            if hook is None:
                raise Unsupported("with-statement needs an '@with' stub at %s" % self.loc(node))
            if hook == "transparent":
                # context manager without effect on the analysed state: run the body
                if item.optional_vars is not None:
                    for (s2, k2, v2) in self.assign(s, item.optional_vars, cm):
                        if k2 == "next":
                            res.extend(self.exec_block(s2, node.body))
                        else:
                            res.append((s2, k2, v2))
                else:
                    res.extend(self.exec_block(s, node.body))
            else:
                res.extend(hook(self, s, cm, item, node))
        return res

    def with_object(self, st, node, item, cm):
        """with <object of an in-repo class that defines __enter__ / __exit__> [as VAR]: BODY - Python's protocol:
        __enter__(); BODY; __exit__(None, None, None) on every non-exceptional way out, __exit__(type, value, tb) on an
        exception - which is swallowed exactly when __exit__ returns a true value."""
        cls = st.obj(cm).cls
        enter, exit_ = cls.lookup("__enter__"), cls.lookup("__exit__")
        res = []
        wkey = "@with:%d" % id(node)
        st.frames[-1][wkey] = cm        # the statement holds the context manager (nobody else may)
        try:
            return self._with_object(st, node, item, cm, enter, exit_, wkey)
        finally:
            pass

    def _with_object(self, st, node, item, cm, enter, exit_, wkey):
        res = []

        def done(outs):
            for (s_, k_, v_) in outs:
                if s_.frames and wkey in s_.frames[-1]:
                    del s_.frames[-1][wkey]
            return outs
        for (s1, k1, v1) in self.call_function(st, enter, [], {}, node, self_val=cm):
            if k1 != "val":
                res.append((s1, k1, v1))
                continue
            starts = [(s1, "next", None)]
            if item.optional_vars is not None:
                starts = self.assign(s1, item.optional_vars, v1)
            for (s2, k2, v2) in starts:
                if k2 != "next":
                    # the assignment failed after __enter__: Python treats it like an exception in the body
                    body_outs = [(s2, k2, v2)]
                else:
                    body_outs = self.exec_block(s2, node.body)
                for (s3, k3, v3) in body_outs:
                    if k3 == "raise":
                        exc = v3
                        etype = ClassVal(exc.cls) if isinstance(exc.cls, ClassInfo) else ClassVal(exc.clsname())
                        evalue = exc.ref if exc.ref is not None else Top("exception-value", False, truth=True)
                        for (s4, k4, v4) in self.call_function(s3, exit_, [etype, evalue, Top("traceback", False, truth=True)], {}, node, self_val=cm):
                            if k4 != "val":
                                res.append((s4, k4, v4))
                                continue
                            for (s5, b) in self.truth(s4, v4, node):
                                res.append((s5, "next", None) if b else (s5, "raise", exc))
                    else:
                        for (s4, k4, v4) in self.call_function(s3, exit_, [None, None, None], {}, node, self_val=cm):
                            res.append((s4, k3, v3) if k4 == "val" else (s4, k4, v4))
        return done(res)

    def s_For(self, st, node):
        return self.for_multi([st], node)

    def for_multi(self, states, node):
        """Execute a for-statement for several incoming states; loops over abstract
        sequences share one fixpoint (one set of loop-head states)."""
        res = []
        abstract = []
        itkey = "@it:%d" % id(node)
        held = False
        for st in states:
            for (s, k, it) in self.eval(st, node.iter):
                if k != "val":
                    res.append((s, k, it))
                    continue
                for (s2, k2, it2) in self.resolve_iter(s, it, node):
                    if k2 != "val":
                        res.append((s2, k2, it2))
                        continue
                    if isinstance(it2, Ref) and s2.obj(it2).kind == "iterator" and _lazyiter.is_generator_object(s2, it2):
                        # the loop drives the generator: its body runs, and at every yield the loop body runs (exact interleaving)
                        res.extend(self.loop_generator(s2, node, it2))
                        continue
                    if isinstance(it2, Ref) and s2.obj(it2).kind == "iterator":
                        io = s2.obj(it2)
                        s2.frames[-1][itkey] = it2          # keeps the iterator object alive while it is only held by the loop
                        held = True
                        if "@op" in io.fields:
                            if _lazyiter.leaves_concrete(s2, it2):
                                res.extend(self.loop_iterator(s2, node, it2))
                            else:
                                aseq = _lazyiter.abstract_seq_of(self, s2, it2, node)
                                if aseq is None:
                                    raise Unsupported("loop over a lazy iterator with abstract sources at %s" % self.loc(node))
                                abstract.append((s2, aseq, None))
                        elif io.items is not None:
                            res.extend(self.loop_iterator(s2, node, it2))
                        elif io.fields.get("@done"):
                            res.extend(self.loop_concrete(s2, node, []))
                        else:
                            abstract.append((s2, io.fields["@seq"], it2))
                        continue
                    kind, seq = self.iter_values(s2, it2, node)
                    if kind == "concrete" and self.live_list_iteration and isinstance(it2, Ref) and s2.obj(it2).kind == "list" \
                            and s2.obj(it2).items is not None:
                        res.extend(self.loop_live_list(s2, node, it2))
                    elif kind == "concrete":
                        res.extend(self.loop_concrete(s2, node, seq))
                    else:
                        abstract.append((s2, seq, None))
        if abstract:
            if getattr(self, "_in_comprehension", 0):
                raise _absexpr._AbstractIteration()
            if getattr(self, "_forcing_generator", 0) and any(isinstance(x, (ast.Yield, ast.YieldFrom)) for b_ in node.body for x in ast.walk(b_)):
                raise Unsupported("generator yielding inside a loop over an abstract sequence at %s" % self.loc(node))
            res.extend(self.loop_abstract(abstract, node))
        if held:
            for (s, k, v) in res:
                if s.frames and itkey in s.frames[-1]:
                    del s.frames[-1][itkey]
        return res

    def resolve_iter(self, st, it, node):
        """Objects with an in-repo __iter__: call it (may fork)."""
        if isinstance(it, Ref):
            o = st.obj(it)
            if o.kind == "obj" and isinstance(o.cls, ClassInfo) and "@seq" not in o.fields:
                it_m = o.cls.lookup("__iter__")
                if it_m is not None:
                    out = []
                    for (s2, k2, v2) in self.call_function(st, it_m, [], {}, node, self_val=it):
                        if k2 != "val":
                            out.append((s2, k2, v2))
                        else:
                            out.extend(self.resolve_iter(s2, v2, node))
                    return out
        return [(st, "val", it)]

    def iter_values(self, st, it, node):
        """Normalise an iterable value: -> ('concrete', [values]) | ('abs', AbsSeq)."""
        if isinstance(it, (tuple, list)):
            if len(it) == 2 and it[0] == "kwargs":
                return ("concrete", [k for k, _ in it[1]])
            return ("concrete", list(it))
        if isinstance(it, (set, frozenset)):
            return ("concrete", sorted(it, key=repr))
        if isinstance(it, dict):
            return ("concrete", list(it.keys()))
        if isinstance(it, str) and len(it) <= 4096:
            return ("concrete", list(it))
        if isinstance(it, AbsSeq):
            return ("abs", it)
        if isinstance(it, Ref):
            o = st.obj(it)
            if o.kind in ("list", "set") and o.items is not None:
                return ("concrete", list(o.items))
            if "@nt" in o.fields:
                return ("concrete", [o.fields[n_] for n_ in o.fields["@nt"]])
            if o.kind == "iterator":
                if "@gen" in o.fields or "@genc" in o.fields:
                    outs = _lazyiter.force(self, st, it, node)
                    if len(outs) != 1 or outs[0][0] is not st or outs[0][1] != "val":
                        raise Unsupported("generator consumed where its body forks or raises at %s" % self.loc(node))
                    o = st.obj(it)
                if "@op" in o.fields:
                    if _lazyiter.leaves_concrete(st, it):
                        # drained here; only when every step is deterministic (no fork, no exception)
                        vals = []
                        while True:
                            outs = _lazyiter.pull(self, st, it, node)
                            if len(outs) != 1 or outs[0][0] is not st or outs[0][1] not in ("val", "stop"):
                                raise Unsupported("lazy iterator consumed where its elements fork or raise at %s" % self.loc(node))
                            if outs[0][1] == "stop":
                                return ("concrete", vals)
                            vals.append(outs[0][2])
                            if len(vals) > 100000:
                                raise Unsupported("lazy iterator does not end at %s" % self.loc(node))
                    aseq = _lazyiter.abstract_seq_of(self, st, it, node)
                    if aseq is None:
                        raise Unsupported("lazy iterator with abstract sources at %s" % self.loc(node))
                    return ("abs", aseq)
                if o.items is not None:
                    return ("concrete", list(o.items[o.fields.get("@pos", 0):]))
                if o.fields.get("@done"):
                    return ("concrete", [])
                return ("abs", o.fields["@seq"])
            if o.kind == "dict" and o.items is not None:
                return ("concrete", [k for k, _ in o.items])
            seq = o.fields.get("@seq")
            if isinstance(seq, AbsSeq):
                return ("abs", seq)
            if o.kind in ("list", "set") and o.items is None:
                elem = o.fields.get("@elem")
                nonempty = o.base is None and o.count != 0
                lab = o.label or "list"
                return ("abs", AbsSeq("abs:" + lab, lambda interp, s, _e=elem, _o=o.open: [
                    (s, _e if _e is not None else Top("elem:" + lab, True), "element")], nonempty))
            if isinstance(o.cls, ClassInfo):
                it_m = o.cls.lookup("__iter__")
                if it_m is not None:
                    outs = self.call_function(st, it_m, [], {}, node, self_val=it)
                    if len(outs) == 1 and outs[0][1] == "val":
                        return self.iter_values(outs[0][0], outs[0][2], node)
            raise Unsupported("iteration over %s object at %s" % (o.clsname(), self.loc(node)))
        if hasattr(it, "abs_iter"):
            return ("abs", it.abs_iter(self, st, node))
        if isinstance(it, Top):
            tag = it.tag
            return ("abs", AbsSeq("top:" + tag, lambda interp, s, _t=tag, _i=it.input: [(s, Top("elem:" + _t, _i), "elem")]))
        raise Unsupported("iteration over %r at %s" % (it, self.loc(node)))

    def loop_concrete(self, st, node, seq):
        res = []
        states = [st]
        broke = []
        for elem in seq:
            nxt = []
            for s in states:
                for (s1, k1, v1) in self.assign(s, node.target, elem):
                    if k1 != "next":
                        res.append((s1, k1, v1))
                        continue
                    for (s2, k2, v2) in self.exec_block(s1, node.body):
                        if k2 in ("next", "continue"):
                            nxt.append(s2)
                        elif k2 == "break":
                            broke.append(s2)
                        else:
                            res.append((s2, k2, v2))
            states = self.dedupe(nxt)
        for s in states:
            if node.orelse:
                res.extend(self.exec_block(s, node.orelse))
            else:
                res.append((s, "next", None))
        res.extend((s, "next", None) for s in broke)
        return res

    _yield_handlers = ()

    def loop_generator(self, st, node, ref):
        """for TARGET in <generator object>: BODY.  The generator's own body is executed; wherever it yields, TARGET is
        bound in the consumer's frame and BODY runs there; `continue` / normal end resumes the generator, `break` / `return` /
        an exception of BODY abandon it (its finally blocks run, as on close())."""
        if not isinstance(self._yield_handlers, list):
            self._yield_handlers = []
        o = st.obj(ref)
        base = len(st.frames)
        consumer = self.cur_func
        loop_id = id(node)

        def at_yield(s, value):
            extra = s.frames[base:]
            s.frames = s.frames[:base]
            saved_cur = self.cur_func
            self.cur_func = consumer
            self._yield_handlers.append(None)         # a yield inside BODY belongs to the consumer, not to this generator
            outs = []
            try:
                self.emit(s, ("iter", loop_id, "generator", value))
                for (s1, k1, v1) in self.assign(s, node.target, value):
                    if k1 != "next":
                        outs.append((s1, "@genraise" if k1 == "raise" else k1, v1))
                        continue
                    for (s2, k2, v2) in self.exec_block(s1, node.body):
                        if k2 in ("next", "continue"):
                            outs.append((s2, "val", None))
                        elif k2 == "break":
                            outs.append((s2, "@genbreak", None))
                        elif k2 == "return":
                            outs.append((s2, "@genreturn", v2))
                        elif k2 == "raise":
                            outs.append((s2, "@genraise", v2))
                        else:
                            outs.append((s2, k2, v2))
            finally:
                self._yield_handlers.pop()
                self.cur_func = saved_cur
            for (s2, _k, _v) in outs:
                s2.frames = s2.frames[:base] + [dict(f) for f in extra]
            return outs
        f = o.fields
        w = st.wobj(ref)
        if "@genc" in f:
            cref, args, kwargs = f["@genc"]
            w.fields = {k_: v_ for k_, v_ in w.fields.items() if k_ != "@genc"}
            w.items, w.fields["@pos"] = [], 0          # consumed: nothing is left for a later consumer
            outs = self.call_closure(st, cref, list(args), dict(kwargs), node, _yield_to=at_yield)
        else:
            func, args, kwargs, self_val = f["@gen"]
            w.fields = {k_: v_ for k_, v_ in w.fields.items() if k_ != "@gen"}
            w.items, w.fields["@pos"] = [], 0
            outs = self.call_function(st, func, list(args), dict(kwargs), node, self_val=self_val, _yield_to=at_yield)
        res = []
        for (s, k, v) in outs:
            if k == "val":
                self.emit(s, ("loopexit", loop_id, "generator"))
                if node.orelse:
                    res.extend(self.exec_block(s, node.orelse))
                else:
                    res.append((s, "next", None))
            elif k == "@genbreak":
                self.emit(s, ("loopexit", loop_id, "generator"))
                res.append((s, "next", None))
            elif k == "@genreturn":
                res.append((s, "return", v))
            elif k == "@genraise":
                res.append((s, "raise", v))
            else:
                res.append((s, k, v))
        return res

    def loop_iterator(self, st, node, ref, limit=10000):
        """for x in <an iterator object over concrete values>: every element drawn advances the iterator for everybody
        who holds it; a `break` leaves the rest for the next consumer."""
        res, broke, finished = [], [], []
        states = [st]
        steps = 0
        while states:
            steps += 1
            if steps > limit:
                raise Unsupported("loop over an iterator that does not end at %s" % self.loc(node))
            nxt = []
            for s in states:
                for (s0, k0, elem) in _lazyiter.pull(self, s, ref, node):
                    if k0 == "stop":
                        finished.append(s0)
                        continue
                    if k0 != "val":
                        res.append((s0, k0, elem))
                        continue
                    for (s1, k1, v1) in self.assign(s0, node.target, elem):
                        if k1 != "next":
                            res.append((s1, k1, v1))
                            continue
                        for (s2, k2, v2) in self.exec_block(s1, node.body):
                            if k2 in ("next", "continue"):
                                nxt.append(s2)
                            elif k2 == "break":
                                broke.append(s2)
                            else:
                                res.append((s2, k2, v2))
            states = self.dedupe(nxt)
        for s in self.dedupe(finished):
            if node.orelse:
                res.extend(self.exec_block(s, node.orelse))
            else:
                res.append((s, "next", None))
        res.extend((s, "next", None) for s in broke)
        return res

    def loop_live_list(self, st, node, ref, limit=200):
        """for x in <a list object>: Python's list iterator reads the LIVE list by index, so removing elements inside the
        body skips elements and appending extends the loop.  Each state carries its own copy of the list."""
        res = []
        broke = []
        states = [(st, 0)]
        finished = []
        steps = 0
        while states:
            steps += 1
            if steps > limit:
                raise Unsupported("loop over a list that keeps growing at %s" % self.loc(node))
            nxt = []
            for (s, i) in states:
                o = s.heap.get(ref.oid)
                items = o.items if o is not None else None
                if items is None or i >= len(items):
                    finished.append(s)
                    continue
                for (s1, k1, v1) in self.assign(s, node.target, items[i]):
                    if k1 != "next":
                        res.append((s1, k1, v1))
                        continue
                    for (s2, k2, v2) in self.exec_block(s1, node.body):
                        if k2 in ("next", "continue"):
                            nxt.append((s2, i + 1))
                        elif k2 == "break":
                            broke.append(s2)
                        else:
                            res.append((s2, k2, v2))
            states = nxt
        for s in self.dedupe(finished):
            if node.orelse:
                res.extend(self.exec_block(s, node.orelse))
            else:
                res.append((s, "next", None))
        res.extend((s, "next", None) for s in broke)
        return res

    def loop_abstract(self, inits, node):
        """inits: list of (state, AbsSeq).  Fixpoint over loop-head states."""
        res = []
        seen = {}
        work = []
        exits = []
        saved = {}
        for (st, seq, itref) in inits:
            cnt_key = "#iter:" + seq.name
            track_key = "#track:" + seq.name
            outer = (st.ghost.get(cnt_key), st.ghost.get(track_key))
            st.ghost[cnt_key] = 0
            # counters (locals that are 0 at loop entry) of this frame and - when a consumer drives this generator - of the frames below
            st.ghost[track_key] = tuple(sorted(((di, name), "eq") for di, fr in enumerate(st.frames) for name, val in fr.items()
                                               if isinstance(val, int) and not isinstance(val, bool) and val == 0
                                               and (di == len(st.frames) - 1 or self._yield_handlers))) \
                if self.track_len else ()
            key = (seq.name, outer, st.key())
            if key in seen:
                continue
            seen[key] = True
            self.stats["loop_heads"] += 1
            # a loop over a fresh iterator sees the whole sequence, like a loop over the sequence itself
            full = itref is None or not st.obj(itref).fields.get("@started")
            work.append((st, seq, outer, itref, full))
        while work:
            head, seq, outer, itref, full = work.pop()
            cnt_key = "#iter:" + seq.name
            track_key = "#track:" + seq.name
            self.budget -= 1
            if self.budget < 0:
                raise AnalysisError("state budget exhausted in loop at %s" % self.loc(node))
            known_n = head.ghost.get("#n:" + seq.name) if self.same_seq_same_length and full else None
            cnt_now = head.ghost.get(cnt_key)
            # an iterator that an earlier loop has drawn from: what is left may be empty whatever the sequence was
            nonempty = seq.nonempty and full
            # (a) sequence exhausted (an earlier complete loop over the same sequence fixes whether it is empty)
            if not (nonempty and cnt_now == 0) and not (known_n in (1, GE2) and cnt_now == 0):
                exits.append((head.fork(), seq, outer, itref, full))
            if known_n == 0 or (known_n == 1 and cnt_now == 1):
                continue
            # (b) one more element
            base = head.fork()
            before = {dn: base.frames[dn[0]].get(dn[1]) for (dn, _) in base.ghost.get(track_key, ()) if dn[0] < len(base.frames)}
            if self.track_len:
                base.ghost["#inc"] = ()
            if itref is not None and not base.obj(itref).fields.get("@started"):
                base.wobj(itref).fields["@started"] = True
            for (s0, elem, label) in seq.factory(self, base):
                s0.note("%s: next %s element: %s" % (self.loc(node), seq.name, label))
                self.emit(s0, ("iter", id(node), seq.name, elem))
                c = s0.ghost.get(cnt_key, 0)
                s0.ghost[cnt_key] = 1 if c == 0 else GE2
                for (s1, k1, v1) in self.assign(s0, node.target, elem):
                    if k1 != "next":
                        res.append((s1, k1, v1))
                        continue
                    for (s2, k2, v2) in self.exec_block(s1, node.body):
                        if k2 in ("next", "continue"):
                            tr = []
                            incd = s2.ghost.pop("#inc", ())
                            for (dn, rel) in s2.ghost.get(track_key, ()):
                                if dn[0] >= len(s2.frames):
                                    continue
                                b, a = before.get(dn), s2.frames[dn[0]].get(dn[1])
                                inc = _is_inc(b, a)
                                if inc is None and b is GE2 and a is GE2:
                                    inc = 1 if incd.count(dn[1]) == 1 else (0 if incd.count(dn[1]) == 0 else None)
                                if inc == 1:
                                    tr.append((dn, rel))
                                elif inc == 0:
                                    tr.append((dn, "lt"))
                            s2.ghost[track_key] = tuple(tr)
                            if self.at_loop_head is not None:
                                self.at_loop_head(self, s2, node, seq)
                            # the loop variables are dead at the loop head (re-assigned by the next element)
                            for tn in _target_names(node.target):
                                if tn in s2.frames[-1]:
                                    s2.frames[-1][tn] = Top("loopvar:" + tn, True)
                            key = (seq.name, outer, s2.key())
                            if key not in seen:
                                seen[key] = True
                                self.stats["loop_heads"] += 1
                                work.append((s2, seq, outer, itref, full))
                        elif k2 == "break":
                            self.emit(s2, ("loopexit", id(node), seq.name))
                            _restore(s2, cnt_key, outer[0], track_key, None)
                            res.append((s2, "next", None))
                        else:
                            res.append((s2, k2, v2))
        final = []
        for (ex, seq, outer, itref, full) in exits:
            cnt_key = "#iter:" + seq.name
            track_key = "#track:" + seq.name
            self.emit(ex, ("loopexit", id(node), seq.name))
            if itref is not None:
                ex.wobj(itref).fields["@done"] = True       # the iterator is exhausted for every later consumer
            if self.track_len:
                byname = {}
                for (dn, rel) in ex.ghost.get(track_key, ()):
                    byname[dn[1]] = rel if byname.get(dn[1], rel) == rel else None      # two frames, one name, different facts: no fact
                ex.ghost["#len:" + seq.name] = tuple(sorted((n_, r_) for n_, r_ in byname.items() if r_ is not None))
            if (self.track_len or self.same_seq_same_length) and full:
                ex.ghost["#n:" + seq.name] = ex.ghost.get(cnt_key, 0)
            _restore(ex, cnt_key, outer[0], track_key, outer[1])
            final.append(ex)
        for ex in self.dedupe(final, threshold=1):
            if node.orelse:
                res.extend(self.exec_block(ex, node.orelse))
            else:
                res.append((ex, "next", None))
        return res

    def s_While(self, st, node, limit=2000):
        """while: the test is evaluated at every loop head; loop-head states that were seen before are dropped (fixpoint
        over a finite abstract state space), a loop that keeps producing new states is given up after `limit` heads."""
        res = []
        seen = set()
        work = [st]
        heads = 0
        while work:
            s0 = work.pop()
            key = s0.key()
            if key in seen:
                continue
            seen.add(key)
            heads += 1
            self.stats["loop_heads"] += 1
            if heads > limit:
                raise Unsupported("while loop at %s does not reach a fixpoint within %d loop heads" % (self.loc(node), limit))
            for (s1, k1, tv) in self.eval(s0, node.test):
                if k1 != "val":
                    res.append((s1, k1, tv))
                    continue
                for (s2, b) in self.truth(s1, tv, node.test):
                    if not b:
                        if node.orelse:
                            res.extend(self.exec_block(s2, node.orelse))
                        else:
                            res.append((s2, "next", None))
                        continue
                    for (s3, k3, v3) in self.exec_block(s2, node.body):
                        if k3 in ("next", "continue"):
                            work.append(s3)
                        elif k3 == "break":
                            res.append((s3, "next", None))
                        else:
                            res.append((s3, k3, v3))
        return res

    def s_FunctionDef(self, st, node):
        # nested function: a closure object (attributes can be attached to it)
        st.frames[-1][node.name] = self.make_closure(st, node, node.name)
        return [(st, "next", None)]

    def make_closure(self, st, node, name):
        """nested def / lambda: code + a snapshot of the defining frame (captured by value)."""
        if not hasattr(self, "closure_nodes"):
            self.closure_nodes = {}
        self.closure_nodes[id(node)] = (node, self.cur_func)
        env = {k: v for k, v in st.frames[-1].items() if not k.startswith("@")}
        # default values are evaluated once, where the function is defined
        defaults = []
        for d in node.args.defaults:
            outs = self.eval(st, d)
            if len(outs) == 1 and outs[0][1] == "val" and outs[0][0] is st:
                defaults.append(outs[0][2])
            else:
                defaults.append(Top("default:" + unparse(d), False))
        return st.alloc(HObj("function", {"__name__": name, "@node": id(node), "@env": tuple(sorted(env.items(), key=lambda kv: kv[0])),
                                          "@defaults": tuple(defaults)},
                             kind="closure", label="closure " + name))

    def call_closure(self, st, ref, args, kwargs, node, _yield_to=None):
        o = st.obj(ref)
        info = getattr(self, "closure_nodes", {}).get(o.fields.get("@node"))
        if info is None:
            return [(st, "val", Top("closure-call", False))]
        cnode, owner = info
        is_gen = getattr(cnode, "_is_gen", None)
        if is_gen is None:
            is_gen = cnode._is_gen = (not isinstance(cnode, ast.Lambda)) and _has_own_yield(cnode.body)
        if is_gen and _yield_to is None and not getattr(self, "eager_generators", False) and not getattr(self, "_forcing_generator", 0):
            # a local generator function: a generator object, run when it is consumed (sa.lazyiter.force)
            return [(st, "val", st.alloc(HObj("iterator", {"@genc": (ref, tuple(args), tuple(sorted(kwargs.items())))}, kind="iterator")))]
        a = cnode.args
        params = [p.arg for p in a.posonlyargs + a.args]
        frame = dict(o.fields.get("@env", ()))
        frame[o.fields.get("__name__")] = ref
        if len(args) > len(params) and not a.vararg:
            raise Unsupported("too many args for closure %s" % o.fields.get("__name__"))
        for p, v in zip(params, args):
            frame[p] = v
        if a.vararg:
            frame[a.vararg.arg] = tuple(args[len(params):])
        for p in params[len(args):]:
            if p in kwargs:
                frame[p] = kwargs[p]
        nd = len(a.defaults)
        dvals = o.fields.get("@defaults", ())
        for i, d in enumerate(a.defaults):
            p = params[len(params) - nd + i]
            if p not in frame or (p not in kwargs and params.index(p) >= len(args)):
                if p not in kwargs and params.index(p) >= len(args):
                    frame[p] = dvals[i] if i < len(dvals) else self.const_default(d, owner.module if owner else None)
        st.frames.append(frame)
        saved = self.cur_func
        self.cur_func = owner
        self.depth += 1
        if _yield_to is not None:
            self._yield_handlers.append(_yield_to)
        try:
            if isinstance(cnode, ast.Lambda):
                outs = [(s, "return" if k == "val" else k, v) for (s, k, v) in self.eval(st, cnode.body)]
            else:
                outs = self.exec_block(st, cnode.body)
        finally:
            self.depth -= 1
            self.cur_func = saved
            if _yield_to is not None:
                self._yield_handlers.pop()
        res = []
        for (s, k, v) in outs:
            fr = s.frames.pop()
            if _yield_to is not None:
                res.append((s, "val", None) if k in ("next", "return") else (s, k, v))
                continue
            if is_gen and k in ("next", "return"):
                k, v = "return", tuple(fr.get("@yield", ()))
            if k == "next":
                res.append((s, "val", None))
            elif k == "return":
                res.append((s, "val", v))
            elif k == "raise":
                res.append((s, "raise", v))
            else:
                raise Unsupported("%s escaped closure" % k)
        return res

    def s_ClassDef(self, st, node):
        """a class defined inside a function: indexed on first use like a module-level class (its methods see the module's names, not the
        enclosing function's locals - a method that needs one ends in 'no verdict' through the unresolved name)"""
        ci = getattr(node, "_local_ci", None)
        if ci is None and self.cur_func is not None and getattr(self.cur_func, "module", None) is not None \
                and not node.keywords and not node.decorator_list:
            from .index import ClassInfo as _CI
            try:
                ci = _CI(self.cur_func.module, node)
                self.ix._scan_class(self.cur_func.module, ci)
                for b in node.bases:
                    r = self.ix.resolve_expr(self.cur_func.module, b)
                    ci.bases.append(r if isinstance(r, _CI) else (unparse(b)))
                node._local_ci = ci
            except Exception:       # noqa
                ci = None
        if ci is not None:
            st.frames[-1][node.name] = ClassVal(ci)
        else:
            st.frames[-1][node.name] = ("localclass", node.name)
        return [(st, "next", None)]

    # ------------------------------------------------------------------
    # expressions (in sa/absexpr.py, mixed in below)
    # ------------------------------------------------------------------
    def eval(self, st, node):
        m = getattr(self, "e_" + type(node).__name__, None)
        if m is None:
            raise Unsupported("expression %s at %s" % (type(node).__name__, self.loc(node)))
        return m(st, node)

    def eval_list(self, st, nodes):
        """Evaluate expressions left to right -> list of (state, 'val', [values]) or raise outcomes."""
        results = [(st, [])]
        raised = []
        for n in nodes:
            nxt = []
            for (s, vals) in results:
                if isinstance(n, ast.Starred):
                    for (s2, k, v) in self.eval(s, n.value):
                        if k != "val":
                            raised.append((s2, k, v))
                        elif isinstance(v, (tuple, list)):
                            nxt.append((s2, vals + list(v)))
                        elif isinstance(v, Ref) and s2.obj(v).kind == "list" and s2.obj(v).items is not None:
                            nxt.append((s2, vals + list(s2.obj(v).items)))
                        else:
                            nxt.append((s2, vals + [("*", v)]))
                    continue
                for (s2, k, v) in self.eval(s, n):
                    if k != "val":
                        raised.append((s2, k, v))
                    else:
                        nxt.append((s2, vals + [v]))
            results = nxt
        return [(s, "val", vals) for (s, vals) in results] + raised


def _target_names(t):
    if isinstance(t, ast.Name):
        return [t.id]
    if isinstance(t, (ast.Tuple, ast.List)):
        out = []
        for e in t.elts:
            out.extend(_target_names(e))
        return out
    return []


def _restore(st, cnt_key, outer_cnt, track_key, outer_track, keep_track=False):
    if outer_cnt is None:
        st.ghost.pop(cnt_key, None)
    else:
        st.ghost[cnt_key] = outer_cnt
    if outer_track is None:
        st.ghost.pop(track_key, None)
    else:
        st.ghost[track_key] = outer_track


def _is_inc(before, after):
    """1: incremented by exactly one; 0: unchanged; None: unknown."""
    if isinstance(before, bool) or isinstance(after, bool):
        return None
    if before is GE2 and after is GE2:
        return None
    if isinstance(before, int) and isinstance(after, int):
        if after == before + 1:
            return 1
        if after == before:
            return 0
        return None
    if before == 1 and after is GE2:
        return 1
    return None


def _hashable(v):
    try:
        hash(v)
        return True
    except TypeError:
        return False


def _as_load(target):
    cached = getattr(target, "_as_load", None)
    if cached is not None:
        return cached
    if isinstance(target, ast.Name):
        t = ast.Name(id=target.id, ctx=ast.Load())
    elif isinstance(target, ast.Attribute):
        t = ast.Attribute(value=target.value, attr=target.attr, ctx=ast.Load())
    elif isinstance(target, ast.Subscript):
        t = ast.Subscript(value=target.value, slice=target.slice, ctx=ast.Load())
    else:
        raise Unsupported("augmented assignment target %s" % type(target).__name__)
    ast.copy_location(t, target)
    target._as_load = t
    return t


def _has_own_yield(body):
    """a yield in these statements themselves - not inside a nested def / lambda / class"""
    stack = list(body)
    while stack:
        n = stack.pop()
        if isinstance(n, (ast.Yield, ast.YieldFrom)):
            return True
        if isinstance(n, (ast.FunctionDef, ast.AsyncFunctionDef, ast.Lambda, ast.ClassDef)):
            continue
        stack.extend(ast.iter_child_nodes(n))
    return False


from . import absexpr as _absexpr      # noqa: E402
_absexpr.install(Interp)
from . import lazyiter as _lazyiter    # noqa: E402
