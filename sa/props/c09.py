# -*- coding: utf-8 -*-
"""C09 Tag selection with inheritance selects exactly the matching scenarios."""
from ..report import run_parallel
from . import common as T
from .. import rules_select, rules_status, rules_parser

EXPLANATION = (
    "Static analysis; the value of the tag expression itself is an input (C07/C08). G1: effective_tags evaluated "
    "abstractly on a three-level parent chain equals own tags plus all ancestors' tags (outline: own tags minus "
    "parametrised ones). G2: add_scenario / add_rule / add_background (Feature and Rule) and the outline builder set the "
    "child's parent to the container / template. G3: the tags handed to a row scenario are the rendered template tags "
    "followed by the Examples block's tags; B3: building a row mutates no pre-existing object (template tag list, "
    "examples). G4: should_run of Scenario, ScenarioOutline, Feature, Rule explored over should_skip x config x tag "
    "result x name result equals 'not should_skip and (no config or (tags and name))'. G5: should_run_with_tags hands "
    "effective_tags (not own tags) to the expression; Feature/Rule/ScenarioOutline: own match or any child's, over child "
    "lists of every length. G6: Scenario.run explored for every step sequence: a not-selected scenario calls no hook, "
    "runs no step, sets every step skipped, and emits formatter events only under show_skipped. G7: the roll-up "
    "obligations R3(c),(f) - G8: every parser method that hands the pending tag list to a model element (feature, rule, "
    "scenario, outline, examples) rebinds it to a fresh list afterwards, so tags neither leak into the next statement nor "
    "are later tag lines added to an earlier element - R3(c),(f): all children skipped <=> container skipped; a passed/failed child prevents skipped. "
    + T.SOUNDNESS)
NOT_DECIDED = "the truth value of a tag expression for a tag set (C07/C08); active-tag exclusion (C19)"


def t_select(chk, ix):
    rules_select.check_effective_tags(chk, ix)
    rules_select.check_parent_links(chk, ix)
    rules_select.check_should_run_table(chk, ix)
    rules_select.check_tag_consultation(chk, ix)
    rules_select.check_container_children_concrete(chk, ix)
    rules_select.check_builder_effects(chk, ix, ("B3", "G3", "G2"))
    rules_parser.check_tags_consumed(chk, ix, "G8")
    from .. import rules_outline, rules_tags
    rules_outline.check_row_tags_concrete(chk, ix, "B9")
    # the rows that were selected / skipped are the rows that are reported: build_scenarios builds them once (shared with C06)
    rules_outline.check_build_order(chk, ix)
    # the expression itself means what it says (shared with C07 / C08)
    rules_tags.check_v1_end_to_end(chk, ix)
    rules_tags.check_v2_renderings(chk, ix, chk.tier)
    # "{config.tags} and @c": the configured expression enters the command-line expression as one parenthesised unit (shared with C07)
    rules_tags.check_config_tags(chk, ix)
    # 'a scenario without steps' is decided by testing sequences, never iterator objects (always true)
    from .. import rules_generic
    rules_generic.check_iterator_truth(chk, ix)
    # a deselected scenario is reported skipped WITH its steps: background steps are the scenario's own copies
    from .. import rules_order
    rules_order.check_step_order(chk, ix)
    # wildcard patterns in a tag expression ([seq] included) select what fnmatch says (shared with C07)
    rules_tags.check_matcher(chk, ix)


def t_rollup(chk, ix):
    rules_status.check_rollup(chk, ix, tier=chk.tier)
    chk.rules["G7"] = chk.rules.pop("R3")
    chk.rules["G7"]["what"] = "all children skipped <=> container skipped; selected passing/failing child prevents skipped (roll-up clauses c, f)"
    for f in chk.findings + chk.imprecise:
        if f.rule == "R3":
            f.rule = "G7"


def run(chk, ix, tier):
    run_parallel(chk, [(t_select, ()), (t_rollup, ()), (T.t_scenario, (("G6", "H2"),))] + T.container_tasks(("R4", "H2")))
    for r, n in (("G1", 8), ("G2", 6), ("G4", 16), ("G5", 4), ("G6", 1), ("G7", 4), ("G8", 5), ("B9", 3), ("U1", 900), ("T4", 200), ("RF6", 30)):
        chk.require_instances(r, n)
