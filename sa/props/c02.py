# -*- coding: utf-8 -*-
"""C02 Step execution: order, outcome-to-status mapping, stop after first non-pass."""
from .. import rules_step

EXPLANATION = ("static analysis: abstract exploration of Step.run over finite domains; ")
NOT_DECIDED = ""


def run(chk, ix, tier):
    rules_step.check_step_run(chk, ix, {"S1"})
    chk.require_instances("S1", 8)
