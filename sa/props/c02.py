# -*- coding: utf-8 -*-
"""C02 Step execution: order, outcome-to-status mapping, stop after first non-pass."""
from ..report import run_parallel
from . import common as T
from .. import rules_order

EXPLANATION = (
    "Static analysis. S1/S2: Step.run explored for every step-function outcome class (returns, skips its scenario, "
    "AssertionError, pending-step errors, KeyboardInterrupt, other Exceptions incl. NotImplementedError and parse "
    "errors, non-Exception BaseExceptions) x before/after hook outcomes x @wip (own / inherited / none / no scenario) "
    "x dry-run x quiet x capture, starting from an ARBITRARY prior step state: final status and return value must equal "
    "the outcome table written from the property (handler matching uses the resolved class hierarchy, so a reordered "
    "or widened except ladder changes the table). S3: Scenario.run explored over step sequences of every length with "
    "the Step.run summary: after the first non-passing step (or a step that skipped the scenario) no step.run event "
    "occurs, every other step is assigned skipped/undefined/untested, nothing runs in dry-run or when not selected. "
    "S4/S5: provenance rules on the iterables: the run loop walks background-derived steps before own steps, "
    "Background.iter_steps puts inherited steps first, scenarios get per-scenario copies of background steps, and "
    "outline rows never share Step objects with the template. " + T.SOUNDNESS)
NOT_DECIDED = ("that parse/re find the right step definition (C11); real timing; the semantics under "
               "continue_after_failed_step=True beyond verdict/bracket consistency; async step glue is decided "
               "structurally only (S6: a task waited for with asyncio.wait has its result()/exception() consumed)")
ASSUMPTIONS = ["Step.run summary used inside Scenario.run is the one proved by S1/V1/F1"]


def t_order(chk, ix):
    rules_order.check_step_order(chk, ix)
    rules_order.check_match_protection(chk, ix)
    from .. import rules_generic
    rules_generic.check_async_glue(chk, ix)
    # which step definition a step is bound to does not depend on earlier lookups (an undefined step stays undefined)
    from .. import rules_matching
    rules_matching.check_lookup_sequences(chk, ix)
    rules_order.check_continue_switch_is_class_level(chk, ix)


def run(chk, ix, tier):
    run_parallel(chk, [
        (T.t_step, (("S1",),)),
        (T.t_scenario, (("S3",),)),
        (t_order, ()),
    ])
    chk.require_instances("S1", 8)
    chk.require_instances("S3", 1)
    chk.require_instances("S6", 1)
