# -*- coding: utf-8 -*-
"""C14 Summary conservation: every element counted once under its final status."""
from ..report import run_parallel
from . import common as T
from .. import rules_summary

EXPLANATION = (
    "Static analysis. Y2/Y3: both tree walkers - SummaryReporterV1.process_feature and ModelVisitor.visit_feature "
    "driving SummaryCollector - are evaluated abstractly on a token model tree that contains every element kind and the "
    "awkward shapes (a scenario without steps and an empty rule BEFORE other elements, a rule nested in the feature, an "
    "outline whose rows are only reachable through .scenarios while ._scenarios is still empty, steps of every status "
    "class); every feature, rule, scenario, outline row and step must be counted exactly once under its status. "
    "Y1: the summary tables built by SummaryReporterV1.__init__ (extracted by abstract evaluation), StatusCounts.ZERO "
    "and STATUS_ORDER contain every status the element kind can end with. Y5: after the walk the failing / errored "
    "scenario lists of reporter and collector are exactly the failure / error-class scenarios (incl. hook_error). "
    "Y4: run_model explored over feature lists of every length reports every feature to every reporter exactly once, "
    "run or not, and ends every reporter once. Y6: every summary format iterates STATUS_ORDER through the shared "
    "formatter; optional-status sets never hide passed/failed.")
NOT_DECIDED = "the printed text and durations; SummaryReporterV2 (not wired in); that statuses are final (C03)"
TECHNIQUE = "static analysis: abstract evaluation of the two summary tree walkers on a token model tree (conservation obligations), table-coverage rules against the status oracle, run_model exploration for reporter calls; static constant propagation of the string-level glue (the source interpreted on enumerated literal inputs, stdlib calls folded) against oracles written in the rule"


def t_walk(chk, ix):
    rules_summary.check_reporter_walk(chk, ix)
    rules_summary.check_collector_walk(chk, ix)
    rules_summary.check_tables_and_formats(chk, ix)
    rules_summary.check_formats_concrete(chk, ix)
    # every counted step is counted under its own final status: no two scenarios / outline rows share a Step object
    from .. import rules_order
    rules_order.check_step_order(chk, ix)
    # what a reporter has collected belongs to that reporter (and that run): no class-level lists filled through self
    from .. import rules_generic
    rules_generic.check_shared_class_state(chk, ix, ("behave.reporter", "behave.summary", "behave.model_visitor"))


def run(chk, ix, tier):
    run_parallel(chk, [(t_walk, ()), (T.t_run_model, (("Y4",),))])
    for r, n in (("Y1", 6), ("Y2", 20), ("Y4", 1), ("Y5", 2), ("Y6", 2), ("Y7", 20), ("RF9", 8)):
        chk.require_instances(r, n)
