# -*- coding: utf-8 -*-
"""C18 Output capture isolates step output and always restores the real streams."""
from ..report import run_parallel
from . import common as T
from .. import rules_capture

EXPLANATION = (
    "Static analysis; decides the restore/pairing discipline, not the bytes that reach the streams. K1: Step.run "
    "explored for every outcome including non-Exception BaseExceptions from the step function and from step hooks "
    "(run_hook only contains Exceptions): on EVERY exit, normal or exceptional, a started capture has been stopped; "
    "with capture=False (nested steps of execute_steps) the capture is not touched at all. K2: CaptureController "
    "explored over every start/stop sequence up to length 3 x the four stdout/stderr switch combinations with "
    "sys.stdout/sys.stderr as abstract identities: real streams are back after stop, nested start keeps the saved "
    "stream, a disabled switch never touches its stream, no internal assert fails. K3: Scenario.run performs exactly one "
    "setup_capture and one teardown_capture on every non-BaseException path. K4: inveigle saves the root level before "
    "changing it, abandon removes the handler, re-adds removed handlers and restores the level; setup/teardown pair "
    "them. K5: a failing captured step keeps the controller's snapshot and an error message. K6: the buffering log "
    "handler's implicit flush-at-capacity is overridden, so no captured record is dropped. " + T.SOUNDNESS)
NOT_DECIDED = ("which bytes reach the real streams, logging filters and levels, contents of the failure report, nested "
               "execute_steps output attribution (runtime behaviour of file objects and the logging library)")
TECHNIQUE = "static analysis: abstract interpretation of Step.run / Scenario.run with capture typestate monitors over all exits, exhaustive abstract exploration of CaptureController call sequences with stream identities, structural pairing rules on the log capture; static constant propagation of the string-level glue (the source interpreted on enumerated literal inputs, stdlib calls folded) against oracles written in the rule"


def t_cap(chk, ix):
    rules_capture.check_controller(chk, ix)
    rules_capture.check_log_capture(chk, ix)
    rules_capture.check_log_level_roundtrip(chk, ix)
    rules_capture.check_fresh_buffers(chk, ix)
    rules_capture.check_captured_switches(chk, ix)
    rules_capture.check_flush_keeps_records(chk, ix)
    rules_capture.check_teardown_abandons(chk, ix)


def run(chk, ix, tier):
    run_parallel(chk, [(t_cap, ()), (T.t_step, (("K1", "K5"),)), (T.t_scenario, (("K3",),)), (T.t_run_model, (("K10",),))])
    for r, n in (("K1", 8), ("K2", 40), ("K3", 1), ("K4", 9), ("K5", 8), ("K6", 1), ("K7", 3), ("K8", 8), ("K9", 3), ("K10", 1)):
        chk.require_instances(r, n)
