# -*- coding: utf-8 -*-
"""C03 Status roll-up of scenario, outline, rule, feature follows the documented table."""
from ..report import run_parallel
from . import common as T
from .. import rules_status

EXPLANATION = (
    "Static analysis. R1: the truth tables of the Status predicates are extracted from the enum's source by abstract "
    "evaluation for every member and compared with the classification table written from the property "
    "(passed-like / failure / error / skipped / untested: disjoint, covering every reportable member; has_failed = "
    "error or failure; untested not final) and with the Error?/Failed?/Untested?/Pending?/Undefined? columns of "
    "docs/appendix.status.rst. R2: ScenarioStatus.from_step_status and OuterStatus.from_inner_status evaluated on "
    "every documented inner status equal the documented inner->outer table. R3: Scenario, ScenarioContainer (as "
    "Feature and as Rule) and ScenarioOutline.compute_status are explored by loop fixpoint over child-status "
    "sequences of EVERY length and order (alphabet: the statuses the child kind can end with); every abstract exit "
    "is checked against clauses (a)-(f) of the property, including 'decided without looking at the children' and the "
    "counter-vs-length idiom of the outline. R4: in every run() (Scenario, Feature, Rule, ScenarioOutline) the cached "
    "status at exit is cleared or was written after the last child finished - with user code reading the status "
    "mid-run as an input -, hook_failed is re-initialised, every step is re-run or re-assigned, and run() itself does "
    "not leave should_skip set. R5: each reset() chain re-initialises the status-relevant fields and recurses into "
    "the children. R6: the step objects a scenario (or outline row) iterates for its status are its own - background "
    "steps are fresh, reset copies per scenario, never the Background's objects and never shared between two scenarios "
    "(otherwise a never-run scenario reports the statuses another scenario left behind). " + T.SOUNDNESS)
NOT_DECIDED = ("which child-status sequences real runs can produce (all sequences are checked instead, which is "
               "stronger); error-context fields (error_message, captured) are outside the property")


def t_own_steps(chk, ix):
    # roll-up reads step.status of all_steps: a scenario's steps must be its own objects (R6 = S5 of C02)
    from .. import rules_order
    rules_order.check_step_order(chk, ix)
    chk.rules.pop("S4", None)
    chk.rules["R6"] = chk.rules.pop("S5")
    chk.rules["R6"]["what"] = "a scenario's status is computed from its OWN step objects: background steps are fresh reset copies per scenario / outline row"
    for f in chk.findings + chk.imprecise:
        if f.rule == "S5":
            f.rule = "R6"
    chk.findings[:] = [f for f in chk.findings if f.rule != "S4"]


def t_status(chk, ix):
    from .. import rules_generic
    rules_generic.check_iterator_truth(chk, ix)
    # the auto-retry helper patches scenario.run of every row: each row must keep calling its OWN run
    rules_generic.check_late_binding(chk, ix, modules=("behave.contrib", "behave.model", "behave.runner"))
    # row scenarios are built once and keep their state (status, skip marks): build_scenarios clears every table's modified mark
    from .. import rules_outline
    rules_outline.check_build_order(chk, ix)
    rules_status.check_status_tables(chk, ix)
    rules_status.check_mapping_functions(chk, ix)
    rules_status.check_rollup(chk, ix, tier=chk.tier)
    rules_status.check_reset_chain(chk, ix)
    rules_status.check_mark_skipped_postcondition(chk, ix)


def run(chk, ix, tier):
    run_parallel(chk, [(t_status, ()), (t_own_steps, ()), (T.t_run_hook, (("H1",),)), (T.t_scenario, (("R4",),))] + T.container_tasks(("R4",)))
    for r, n in (("B1", 1), ("B4", 1), ("R1", 20), ("R2", 15), ("R3", 4), ("R4", 4), ("R5", 5), ("R6", 5), ("R7", 8), ("H1", 10), ("RF5", 3)):
        chk.require_instances(r, n)
