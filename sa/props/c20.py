# -*- coding: utf-8 -*-
"""C20 Configuration precedence: command line over config file over defaults; userdata."""
from .. import rules_config

EXPLANATION = (
    "Static analysis of the glue around argparse/configparser (whose own semantics are trusted). Z1: "
    "Configuration.__init__ evaluated with recording stand-ins for load_configuration and the argument parser: the config files "
    "are loaded first, the defaults given to the parser contain what the files set, only then the command line is parsed, and the "
    "parsed value is what the Configuration stores - precedence by construction. Z14: setup_userdata does not write to the dictionary "
    "it was given (the shared default) and the -D defines win. Z15: configured runner aliases win over built-in ones. RF8: the config "
    "readers keep no memo. Z2: the OPTIONS table "
    "(extracted from the source): every negative (--no-x / store_false) option shares its dest with a positive option; "
    "both config readers (ini and pyproject.toml) have a branch for every action kind that occurs in the config-file "
    "schema. Z9: both readers evaluated on a config token with one option of every action kind: each value lands under "
    "its destination (file tags under config_tags), typed by its action, nothing else is stored and paths are resolved once "
    "against dirname(path). Z6: format_outfiles_coupling evaluated "
    "abstractly with os.path.join/normpath as markers: given and derived outfiles and paths are all resolved against "
    "the config file's directory. Z7: load_configuration evaluated with the class-level (shared) userdata dict in the "
    "defaults and config files that carry userdata: no shared object is mutated; make_defaults works on a copy. Z4: "
    "setup_userdata wraps the file data and then applies the command-line defines; parse_user_define splits at the "
    "first '=' and maps a bare name to 'true'; all documented -D schemas (quoted pair, quoted value, padded, '=' inside the "
    "value, empty value) constant-folded on 14 texts. Z8: for the eight --x/--no-x pairs whose help calls one side 'the "
    "default behaviour' the effective default (Configuration.defaults, else the implicit default of the first option of that "
    "destination in table order, as argparse resolves it) is that side. Z5: UserData.getas evaluated for missing / right-typed / textual values "
    "with a converter that succeeds or raises: default returned untouched (converter not called), typed value as is, "
    "text converted, conversion errors propagate.")
NOT_DECIDED = ("argparse's own resolution of defaults and option polarity, config-file discovery on disk, quote stripping "
               "on concrete -D strings, the order of list-valued options inside configparser")
TECHNIQUE = "static analysis: Configuration.__init__ evaluated with recording stand-ins for the file loader and the argument parser (order and data flow of the precedence chain), must-precede rule for the userdata, table-consistency rules on OPTIONS and the two config readers (sibling agreement), abstract evaluation of the path coupling, getas decision table and shared-defaults effect rule; static constant propagation of the string-level glue (the source interpreted on enumerated literal inputs, stdlib calls folded) against oracles written in the rule"


def run(chk, ix, tier):
    rules_config.check_init_order(chk, ix)
    rules_config.check_options_table(chk, ix)
    rules_config.check_outfiles_coupling(chk, ix)
    rules_config.check_defaults_not_mutated(chk, ix)
    rules_config.check_userdata(chk, ix)
    rules_config.check_readers_by_evaluation(chk, ix)
    rules_config.check_user_define_concrete(chk, ix, tier)
    rules_config.check_documented_defaults(chk, ix)
    rules_config.check_userdata_before_consumers(chk, ix)
    rules_config.check_parser_is_fresh(chk, ix)
    rules_config.check_loglevel_names(chk, ix)
    rules_config.check_typed_getters_concrete(chk, ix)
    rules_config.check_command_args_unchanged(chk, ix)
    rules_config.check_setup_userdata(chk, ix)
    rules_config.check_runner_aliases(chk, ix)
    # every Configuration reads its files anew (a file may be edited between two runs of one process): the readers keep no memo
    from .. import rules_generic
    rules_generic.check_memoryless(chk, ix, ["behave.configuration:read_configuration", "behave.configuration:load_configuration",
                                             "behave.configuration:config_filenames"])
    for r, n in (("Z1", 1), ("Z2", 6), ("Z4", 16), ("Z5", 4), ("Z6", 3), ("Z7", 2), ("Z9", 14), ("Z8", 10), ("Z10", 1), ("Z11", 1), ("Z12", 11), ("Z13", 6), ("Z14", 2), ("Z15", 3)):
        chk.require_instances(r, n)
