# -*- coding: utf-8 -*-
"""C17 Rerun file lists exactly the unsuccessful scenarios; fed back it selects them."""
from .. import rules_rerun, rules_location
from . import common as T

EXPLANATION = (
    "Static analysis. Q1/Q2: RerunFormatter.eof evaluated abstractly for a feature in every failed/error-class status "
    "(failed, error, hook_error) containing one scenario of every scenario-level status collects exactly the "
    "has_failed ones, in walk order (Q5). Q3: close() evaluated for failures x named file x file exists performs "
    "open+write / remove / nothing and always closes the stream. Q4 (writer/reader agreement): the only lines written "
    "without a leading '#' are '%s\\n' % scenario.location, once per collected scenario in list order; "
    "FileLocation.__str__ is '%s:%d'; FileLocationParser.pattern (as regex AST) reads '<anything>:<digits>' into "
    "FileLocation(filename, int(line)); FeatureListParser.parse skips blank and '#' lines. Read-back selection: the "
    "obligations L4 (identity-based unselected set, setup/teardown exemption), L1 (entity at a line -> its scenarios), "
    "L6 and L8 (one collector re-used for all files is fully re-initialised) of C10 are re-checked here because the "
    "two-run history depends on them.")
NOT_DECIDED = "the closed loop on concrete files and paths (file system, relative path resolution); line arithmetic beyond the sampled line database (see C10, L3)"
TECHNIQUE = "static analysis: abstract evaluation of the rerun formatter on status tokens (decision tables), writer/reader format agreement over string formats and the regex AST, selection rules shared with C10"


def run(chk, ix, tier):
    # row scenarios are built once and keep their state (status, skip marks): build_scenarios clears every table's modified mark
    from .. import rules_outline
    rules_outline.check_build_order(chk, ix)
    rules_rerun.check_collect(chk, ix)
    rules_rerun.check_close(chk, ix)
    rules_rerun.check_format_agreement(chk, ix)
    rules_location.check_line_expansion(chk, ix)
    rules_location.check_build_feature(chk, ix)
    rules_location.check_add_location_and_clear(chk, ix)
    rules_location.check_walk_scenarios(chk, ix, "L10")
    # the line written to the rerun file is the line of the row in the feature file (shared with C04/C10)
    from .. import rules_parser
    rules_parser.check_line_numbers(chk, ix)
    chk.rules.pop("E4", None)
    chk.findings[:] = [f_ for f_ in chk.findings if f_.rule != "E4"]
    # the rerun file is read back by the list-file reader: every location written comes back as written
    rules_location.check_location_parsing(chk, ix)
    rules_rerun.check_outfile_mode(chk, ix)
    # what the rerun formatter reads at the end is the scenario's FINAL status: a failed hook leaves hook_error cached (R4)
    T.t_scenario(chk, ix, ("R4",))
    for r, n in (("B1", 1), ("B4", 1), ("Q1", 6), ("Q3", 8), ("Q4", 6), ("Q5", 3), ("L9", 11), ("P3", 12), ("L4", 6), ("L8", 3), ("L10", 3), ("Q6", 1), ("R4", 1)):
        chk.require_instances(r, n)
