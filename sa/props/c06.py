# -*- coding: utf-8 -*-
"""C06 Scenario Outline expansion: one scenario per row, exact placeholder substitution."""
from .. import rules_outline, rules_select, rules_parser

EXPLANATION = (
    "Static analysis: the outline builder's code is evaluated abstractly on labelled tokens (no concrete texts). "
    "B1: build_scenarios on an outline with examples e1[r1,r2], e2[no table], e3[r3] yields exactly the scenarios "
    "(e1,r1),(e1,r2),(e3,r3) in this order and clears every table's modified mark. B2: make_step_for_row substitutes "
    "in the step name, the doc-string, every table heading and every table cell (the template texts are tokens whose "
    "replace() result is marked), the field list is compared with Step's constructor, and the row scenario is created "
    "at row.line with parent = the outline. G3: its tags are the rendered template tags followed by the Examples tags. "
    "B3: with copy/deepcopy modelled on the token heap, no write of the builder reaches an object that existed before "
    "the call (template step, its table, headings list, row cells; template tag list; examples) except the bookkeeping "
    "indices of example/row. B4: every Table method that changes rows/headings/cells sets modified=True unconditionally; "
    "ScenarioOutline.scenarios rebuilds exactly when a table is modified. B5: every element the parser builds, in particular every table row, receives the parser's current line (so "
    "'scenario.line = row.line' is the row's real line even with comment or blank lines inside the table). B6: render_template constant-folded on 16 "
    "template texts (placeholder at the start/middle/end, after a '>' or before a '<', repeated, unknown, nested "
    "brackets, none) x with/without params equals sequential replacement of every <column>. B7: add_column / "
    "ensure_column_exists / remove_column(s) evaluated on a real Table with two Rows sharing its headings list: afterwards "
    "every row sees exactly the table's headings and has one cell per heading.")
NOT_DECIDED = ("cell values containing other column names beyond the sampled universe, name-annotation schemas (str.format on user schemas)")
TECHNIQUE = "static analysis: abstract evaluation of the outline builder on a token heap with copy/deepcopy semantics (effect and provenance obligations) + structural effect rule on the Table mutators; static constant propagation of the string-level glue (the source interpreted on enumerated literal inputs, stdlib calls folded) against oracles written in the rule"


def run(chk, ix, tier):
    rules_outline.check_build_order(chk, ix)
    rules_outline.check_step_substitution(chk, ix)
    rules_outline.check_table_modified(chk, ix)
    rules_outline.check_render_template(chk, ix, tier)
    # the row's line is the row's line in the file (a row scenario is located there): P3 of C04 for table rows and examples
    rules_parser.check_line_numbers(chk, ix)
    chk.rules.pop("E4", None)
    chk.rules["B5"] = chk.rules.pop("P3")
    chk.rules["B5"]["what"] = "examples rows (like every parsed element) carry the number of the line they stand on: a row scenario is located at its row"
    for f in chk.findings + chk.imprecise:
        if f.rule == "P3":
            f.rule = "B5"
    chk.findings[:] = [f for f in chk.findings if f.rule != "E4"]
    rules_outline.check_table_columns(chk, ix)
    rules_outline.check_tag_names(chk, ix)
    rules_outline.check_configured_schema_reaches_builder(chk, ix)
    rules_outline.check_scenario_names_concrete(chk, ix)
    rules_outline.check_row_tags_concrete(chk, ix, "B9")
    rules_parser.check_tags_consumed(chk, ix, "P6")
    rules_select.check_builder_effects(chk, ix, ("B3", "G3", "G2", "B2"))
    for r, n in (("B1", 1), ("B2", 3), ("B3", 2), ("B4", 5), ("B5", 12), ("B6", 30), ("B7", 5), ("B8", 20), ("B9", 3), ("B10", 2), ("B11", 4), ("P6", 5)):
        chk.require_instances(r, n)
