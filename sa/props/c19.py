# -*- coding: utf-8 -*-
"""C19 Active tags exclude exactly by the documented per-category logic."""
from .. import rules_active

EXPLANATION = (
    "Static analysis by abstract evaluation of the active-tag code on tokens (the comparison results of individual "
    "tags are inputs). A1: is_tag_group_enabled evaluated for every list of up to three tags of one category "
    "(prefixes use/not/only/not_active x matches / does not match, every order): enabled <=> (no positive tag or some "
    "positive tag matches) and no negative tag matches. A2: a category unknown to the value provider never excludes - "
    "evaluated with a plain dict, ActiveTagValueProvider and CompositeActiveTagValueProvider (over a dict and over a "
    "provider) as value_provider; an empty group is enabled. A3: should_exclude_with <=> some group disabled (all "
    "group vectors up to length 3), should_run_with is its negation, the composite excludes iff a member does. A5: "
    "is_tag_negated agrees with the prefix table. A6: Number/BoolValueObject.matches: a conversion error gives a falsy "
    "result, otherwise the base comparison decides on the converted value. A7: a lazy (callable) value is evaluated on "
    "every read and never replaced by its result; three successive lookups of a lazy category through an "
    "ActiveTagValueProvider (get and []) and through a CompositeActiveTagValueProvider over a dict, over a nested provider "
    "and with the owning provider in second position each evaluate the callable again (the composite's category cache must "
    "not freeze a value). A8: group_active_tags_by_category evaluated on a tag list in which "
    "the tags of one category are separated by another category's tag yields exactly one group per category. A9: the "
    "matcher's constructor evaluated with default and custom prefixes / value separator; the compiled tag pattern (constant "
    "folded) applied to ~60 concrete tags reads exactly PREFIX.with_CATEGORY<sep>VALUE tags as active tags.")
NOT_DECIDED = ("the comparison semantics of user-supplied compare functions; tag texts beyond the sampled universe of A9")
TECHNIQUE = "static analysis: exhaustive abstract evaluation of the active-tag decision code over small token universes (truth tables), provider-class exploration for the unknown-category path, effect rule on lazy values; static constant propagation of the string-level glue (the source interpreted on enumerated literal inputs, stdlib calls folded) against oracles written in the rule"


def run(chk, ix, tier):
    rules_active.check_group_logic(chk, ix)
    rules_active.check_unknown_category(chk, ix)
    rules_active.check_provider_known_unknown(chk, ix)
    rules_active.check_exclude_composition(chk, ix)
    rules_active.check_negation_and_values(chk, ix)
    rules_active.check_provider_learns_later(chk, ix)
    rules_active.check_grouping(chk, ix)
    rules_active.check_tag_pattern(chk, ix)
    rules_active.check_matcher_keeps_provider(chk, ix)
    rules_active.check_value_objects_concrete(chk, ix)
    for r, n in (("A1", 100), ("A2", 8), ("A3", 10), ("A5", 4), ("A6", 4), ("A7", 6), ("A8", 1), ("A9", 40), ("A10", 2)):
        chk.require_instances(r, n)
