# -*- coding: utf-8 -*-
"""C07 tag-expression v2 glue: wildcard operands, check(), list form, '@' stripping, {config.tags}."""
from .. import rules_tags

EXPLANATION = (
    "The boolean grammar itself lives in the third-party cucumber_tag_expressions package and is trusted; the "
    "repository's glue around it is decided. T1: Matcher.evaluate evaluated abstractly for every vector of per-tag "
    "fnmatchcase results up to three tags (15 vectors): the result is 'any' of them, fnmatchcase is called with (tag, "
    "whole pattern) and nothing else decides (a case-insensitive fnmatch, a prefix test or a negated result each "
    "change a table row). T2: contains_wildcards is glob.has_magic and make_operand builds a Matcher exactly for "
    "wildcard text. T3: Expression.check is patched in as 'return self.evaluate(tags)' and every local Expression "
    "subclass defines evaluate and __str__; the patched Not.__str__ evaluated for every operand kind (Literal, Matcher, "
    "Not, And, Or, True_, Never) keeps the operand one parenthesised unit directly under 'not', and to_string (pretty and plain) on eight printed "
    "expressions yields a text with the same truth table over its operands under the grammar's reading (not > and > or), "
    "computed by a 40-line reference reader. T4 also on 13 concrete renderings (constant folding). T4: _parse_tag_expression_v2 evaluated on an abstract text with a "
    "has-'@' flag: the text reaching TagExpressionParser.parse never has '@'; on a two-term list the text is "
    "'(t1) and (t2)' with the grammar's own AND keyword. T5: setup_tag_expression evaluated with make_tag_expression "
    "returning a token whose str() is a marker: the placeholder {config.tags} is replaced by the PRINTED parsed config "
    "expression in string and list form, and TagExpressionProtocol.use(self.tag_expression_protocol) is an "
    "unconditional top-level statement before the first parse.")
NOT_DECIDED = ("the third-party parser's precedence/associativity and its printing of expressions (trusted dependency, "
               "outside /repo); fnmatch's own pattern semantics")
TECHNIQUE = "static analysis: abstract evaluation of Matcher.evaluate over all fnmatchcase result vectors (decision table), abstract text with '@'-taint through the v2 builder, marker-token evaluation of the {config.tags} substitution, must-precede rule for the protocol selection; static constant propagation of the string-level glue (the source interpreted on enumerated literal inputs, stdlib calls folded) against oracles written in the rule"


def run(chk, ix, tier):
    rules_tags.check_matcher(chk, ix)
    rules_tags.check_expression_patch(chk, ix)
    rules_tags.check_printing(chk, ix)
    rules_tags.check_v2_glue(chk, ix)
    rules_tags.check_v2_glue_concrete(chk, ix)
    rules_tags.check_v2_list_form(chk, ix)
    rules_tags.check_v2_renderings(chk, ix, tier)
    rules_tags.check_config_tags(chk, ix)
    # under auto-detection a list of terms with wildcards (and no keyword) must reach the v2 parser (shared with C08)
    rules_tags.check_autodetect(chk, ix)
    for r, n in (("T1", 140), ("T2", 3), ("T3", 25), ("T4", 200), ("T5", 4)):
        chk.require_instances(r, n)
