# -*- coding: utf-8 -*-
"""Task wrappers (module level, so that they can be dispatched to forked workers)."""
from .. import rules_step, rules_scenario, rules_container, rules_runner, rules_status


def t_step(chk, ix, rules):
    rules_step.check_step_run(chk, ix, set(rules))


def t_scenario(chk, ix, rules):
    rules_scenario.check_scenario_run(chk, ix, set(rules), tier=chk.tier)


def t_container(chk, ix, rules, which=("Feature", "Rule", "outline")):
    rules_container.check_container_run(chk, ix, set(rules), tier=chk.tier, which=tuple(which))


def container_tasks(rules):
    return [(t_container, (tuple(rules), (w,))) for w in ("Feature", "Rule", "outline")]


def t_run_model(chk, ix, rules):
    rules_runner.check_run_model(chk, ix, set(rules), tier=chk.tier)


def t_run_hook(chk, ix, rules):
    rules_runner.check_run_hook(chk, ix, set(rules), tier=chk.tier)
    if "H1" in rules:
        rules_runner.check_tag_hook_owner_real_context(chk, ix)


def t_run_behave(chk, ix):
    rules_runner.check_run_behave(chk, ix)


def t_abort_wiring(chk, ix):
    rules_runner.check_abort_wiring(chk, ix)


SOUNDNESS = ("The explorer over-approximates every concrete execution of the analysed function whose callees obey "
             "their summaries (each summary is itself an obligation proved on the callee's source) and whose opaque "
             "library calls are pure; user code (hooks, step functions, cleanups) is maximally nondeterministic. "
             "An obligation failing only on a path with precision loss is reported as ANALYSIS-ERROR, never as a violation.")
