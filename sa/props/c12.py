# -*- coding: utf-8 -*-
"""C12 Hooks: nested order, after-hooks always paired, hook faults contained."""
from ..report import run_parallel
from . import common as T

EXPLANATION = (
    "Static analysis. H1/H5/V6: ModelRunner.run_hook explored for every hook name x every context nesting (feature / "
    "rule / scenario layers present) x dry-run x hook present x every user-hook outcome class (returns, each Exception "
    "class incl. AssertionError without message, non-Exception BaseExceptions): no Exception escapes, exactly the "
    "element concerned is marked hook_failed (tag hooks: the innermost running element), it receives an error "
    "message, nothing else is written, hook_failures is incremented once, only *_all hooks abort, nothing is called in "
    "dry-run. H2: Scenario.run and ScenarioContainer.run (as Feature and Rule) explored with the run_hook summary and a "
    "nesting monitor, for tag lists and child lists of every length: before_tag* before_X body after_X after_tag*, "
    "after-phase iff before-phase entered, a failed before-phase suppresses the body, hooks are attributed to the "
    "running element, none for not-selected elements or in dry-run. H3: Step.run: before_step, the step unless that "
    "hook failed, after_step on every path that found a definition. H4: run_model: before_all first, after_all after "
    "the feature loop on every path, no feature after a failed before_all. ST/STM: with --stop or abort nothing "
    "further runs after the first failure (incl. a failing after-hook). Fault model: any Exception from any hook call, "
    "i.e. every injection point at once. " + T.SOUNDNESS)
NOT_DECIDED = ("the relative order of several after_tag calls (not specified); behaviour under KeyboardInterrupt inside "
               "a hook (outside the property's fault model; see C18); the statuses of elements outside the failing "
               "element's ancestry are covered through C01/C03 obligations, not re-stated here")


def t_skip(chk, ix):
    from .. import rules_container
    rules_container.check_outline_skip(chk, ix)
    # the feature's own hooks run exactly when something inside the feature runs - also when that is a scenario of a rule
    from .. import rules_select
    rules_select.check_container_children_concrete(chk, ix)
    # ... and 'something inside it runs' is decided on the effective (inherited) tags (shared with C09)
    rules_select.check_tag_consultation(chk, ix)


def run(chk, ix, tier):
    run_parallel(chk, [
        (T.t_run_hook, (("H1", "H5", "V6"),)),
        (T.t_step, (("H3", "S1"),)),
        (T.t_scenario, (("H2", "V2", "R4"),)),
        (T.t_run_model, (("H4", "STM", "V6", "V4"),)),
        (t_skip, ()),
        (T.t_abort_wiring, ()),      # a failing before_all / after_all hook aborts the run through Context.abort(reason=...)
    ] + T.container_tasks(("H2", "ST", "V3")))
    for r, n in (("H1", 10), ("H2", 3), ("H3", 8), ("H4", 1), ("H5", 10), ("H6", 2)):
        chk.require_instances(r, n)
