# -*- coding: utf-8 -*-
"""C04 Gherkin parsing is faithful: structure, text, tags, step types and line numbers."""
from ..report import run_parallel
from .. import rules_parser

EXPLANATION = (
    "Static analysis of the parser; decides structural necessary conditions of faithful parsing, not text fidelity. "
    "P2 (step types): the parser's real code is interpreted abstractly as a machine over line classes (see C05), for "
    "every sequence of lines from the entry points parse_feature, parse_scenario and parse_steps; a monitor on every "
    "Step construction checks: Given/When/Then lines give their own type; And/But/* inherit the type of the preceding "
    "step OF THE SAME statement; '*' as first step is a given; And/But as first step take the background's type or are a "
    "ParserError - so a step type leaking from an earlier scenario/background is a violation. P1: the keyword kinds the "
    "parser looks up (read from its source) all have non-empty alias lists in every entry of i18n.languages (80 "
    "languages). P3: every model element constructed by the parser (Feature, Rule, Background, Scenario, "
    "ScenarioOutline, Examples, Step, Tag, Table, table rows, doc-string Text) receives the parser's current line (Text: "
    "the line of the opening quotes), and in every line loop the line counter is incremented before anything can skip "
    "the line. P5: Parser.action_table constant-folded on 13 concrete rows (escaped pipes, empty cells, padding, "
    "unicode, a trailing backslash): the cells are the row split at unescaped pipes, stripped, with only the escaped pipe unescaped. P6: every builder that hands the pending tags to a "
    "model element rebinds self.tags to a fresh list afterwards (tags belong to exactly the statement they precede). P7: action_steps / action_multiline_text "
    "evaluated on concrete lines (constant folding): a doc-string opened by one delimiter kind and containing lines of "
    "the other kind ends only at its own delimiter, and its text is the lines in between minus the opening indent. P8: escape_cell (renderer) composed with action_table's row split, both "
    "constant-folded on rows whose cells contain pipes: the re-parsed cells equal the original ones. P9: Parser.parse_tags constant-folded on 11 tag "
    "lines (tags with '#', '.', '-', '=', ':' inside, trailing comments, malformed words).")
NOT_DECIDED = ("text fidelity of names, descriptions, tags, cells and doc-string dedent (string contents beyond the sampled universes of P7-P9); parse_file decoding; the renderers in model_describe beyond pipe escaping (P8); full trace equivalence with a "
               "reference grammar machine (P4 of the design) was not built - the machine exploration decides P2 and, "
               "in C05, the error discipline")


def t_entry(chk, ix, entry):
    # E1 (shared with C05): no internal exception from a parse entry point - an entry point that dies on legal text parses nothing
    rules_parser.check_machine(chk, ix, entry, ("P2", "E1"), tier=chk.tier)


def t_alive(chk, ix):
    rules_parser.check_entry_can_succeed(chk, ix)


def t_struct(chk, ix):
    rules_parser.check_keyword_table(chk, ix)
    rules_parser.check_line_numbers(chk, ix)
    rules_parser.check_cell_splitter(chk, ix)
    rules_parser.check_tags_consumed(chk, ix, "P6")
    rules_parser.check_docstring_protocol(chk, ix)
    rules_parser.check_cell_roundtrip(chk, ix)
    rules_parser.check_table_render_roundtrip(chk, ix)
    rules_parser.check_tag_line(chk, ix, chk.tier)
    rules_parser.check_parse_tags_entry(chk, ix)
    rules_parser.check_model_adders(chk, ix)
    rules_parser.check_parse_step_concrete(chk, ix)
    rules_parser.check_step_keywords_all_languages(chk, ix)
    rules_parser.check_language_header(chk, ix)
    rules_parser.check_parse_file_passes_text(chk, ix)
    # a parse function returns a fresh model for the text it is given: it keeps no memo (the result is mutable, a file
    # may change between two calls)
    from .. import rules_generic
    rules_generic.check_memoryless(chk, ix, ["behave.parser:parse_file", "behave.parser:parse_feature", "behave.parser:parse_rule",
                                             "behave.parser:parse_scenario", "behave.parser:parse_steps", "behave.parser:parse_tags"])


def run(chk, ix, tier):
    run_parallel(chk, [(t_entry, (e,)) for e in ("parse_feature", "parse_scenario", "parse_steps")] + [(t_struct, ()), (t_alive, ())])
    chk.rules.pop("E4", None)
    chk.require_instances("P2", 3)
    chk.require_instances("P1", 60)
    chk.require_instances("P3", 12)
    chk.require_instances("P5", 13)
    chk.require_instances("P6", 5)
    chk.require_instances("P7", 2)
    chk.require_instances("P8", 10)
    chk.require_instances("P9", 11)
    chk.require_instances("P10", 4)
    chk.require_instances("P11", 8)
    chk.require_instances("RF8", 6)
    chk.require_instances("P12", 16)
    chk.require_instances("P14", 500)
    chk.require_instances("P15", 5)
    chk.require_instances("P13", 3)
