# -*- coding: utf-8 -*-
"""C10 File-location and name selection pick exactly the addressed scenarios."""
from ..report import run_parallel
from . import common as T
from .. import rules_location, rules_select


EXPLANATION = (
    "Static analysis; decides the structural part of location/name selection, not the arithmetic on line numbers. "
    "L1: FeatureLineDatabase.select_scenarios_by_line evaluated abstractly with the entity found at the line being a "
    "Feature, Rule, ScenarioOutline or Scenario token gives exactly that entity's scenarios; RF1: the isinstance "
    "ladders of the selection code test subclasses before base classes (ScenarioOutline before Scenario). L3: the line "
    "data is sorted and bisect runs on its keys. L4: build_feature of both collectors, evaluated on scenario tokens "
    "including a scenario with the SAME NAME as the selected one and @setup/@teardown scenarios: exactly the unselected "
    "ones are mark_skipped (identity, not name equality), the feature is untouched without lines or for a bare file. "
    "L6: add_location: no line / line 0 selects all, a line is recorded. L7: name selection truth tables of Scenario "
    "and ScenarioOutline; G4: should_run consults tags AND name. L8: collector.clear() re-initialises every attribute "
    "any collector method assigns (parse_features re-uses one collector for all files). L9: FileLocationParser.parse and "
    "FeatureListParser.parse evaluated on concrete texts by constant folding (re, os.path, glob are the stdlib's): "
    "FILE, FILE:LINE, padded, drive-letter and colon-in-directory forms; a list file with comments, indented comments, "
    "blank lines, padded names, relative and absolute paths, with and without a base directory.")
NOT_DECIDED = ("line databases beyond the sampled one (L3 evaluates select_run_item_by_line on one concrete database, every line from -1 to "
               "past the end, asked twice); wildcard expansion in list files (file system); grouping of locations in parse_features beyond L8")
TECHNIQUE = "static analysis: abstract evaluation of the selection code on model tokens (identity vs equality semantics of sets/lists, truth tables), ladder-order rule over the resolved class hierarchy, field-reset rule; static constant propagation of the string-level glue (the source interpreted on enumerated literal inputs, stdlib calls folded) against oracles written in the rule"


def t_loc(chk, ix):
    # row scenarios are built once and keep their state (status, skip marks): build_scenarios clears every table's modified mark
    from .. import rules_outline
    rules_outline.check_build_order(chk, ix)
    rules_location.check_line_expansion(chk, ix)
    rules_location.check_build_feature(chk, ix)
    rules_location.check_add_location_and_clear(chk, ix)
    rules_location.check_name_selection(chk, ix)
    rules_location.check_location_parsing(chk, ix)
    rules_location.check_walk_scenarios(chk, ix, "L10")
    # file:LINE addresses the lines the parser recorded: every element, every table row carries its own line
    from .. import rules_parser
    rules_parser.check_line_numbers(chk, ix)
    chk.rules.pop("E4", None)
    chk.findings[:] = [f_ for f_ in chk.findings if f_.rule != "E4"]
    funcs = [ix.func("behave.runner_util:FeatureLineDatabase.select_scenarios_by_line"),
             ix.func("behave.runner_util:FeatureLineDatabase.make_line_data_for"),
             ix.func("behave.model:ScenarioContainer.walk_scenarios")]
    rules_location.check_ladders(chk, ix, funcs)
    rules_select.check_should_run_table(chk, ix)


def run(chk, ix, tier):
    t_loc(chk, ix)
    for r, n in (("B1", 1), ("B4", 1), ("L1", 4), ("L3", 17), ("L4", 6), ("L6", 3), ("L7", 8), ("L8", 3), ("L9", 11), ("L10", 3), ("P3", 12), ("RF1", 1), ("G4", 16)):
        chk.require_instances(r, n)
