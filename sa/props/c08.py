# -*- coding: utf-8 -*-
"""C08 tag-expression v1 semantics and dialect auto-detection."""
from .. import rules_tags

EXPLANATION = (
    "U1: TagExpression.check (v1) evaluated abstractly on every formula of up to two OR-groups over the literals "
    "a, -a, b, -b against every subset of {a, b} (complete truth tables, ~190 rows): the result equals the AND of "
    "OR-groups with '-' negation. TagExpression.__init__ evaluated on decorated arguments ('@a,-@b', '~c', '-@slow:3', "
    "'~slow:3,@fast:2'): stored literals keep the negation, lose '@' and ':limit', limits are recorded per tag. "
    "End to end: ~300 renderings (plain / @ / ~ / ~@ / :limit / padded decoration, list and space-separated string form) of "
    "CNF formulas over a, -a, b, -b incl. a tag in both polarities are parsed by the real __init__ / _parse_tag_expression_v1 "
    "and evaluated by the real check() on every subset of {a, b} (constant folding), against the formula's own truth table. "
    "U2: _select_tag_expression_parser4auto evaluated for all 32 combinations of its four word predicates and "
    "one/several words: v1 NOT-prefix with a v2 keyword or wildcard is a TagExpressionError, a v2 keyword or wildcard "
    "selects v2, comma/prefix/several words select v1, a single plain word selects v2; and on the text "
    "'(-@a or @b) and @c' every predicate sees the words with parentheses split off, so a prefix after '(' is seen. "
    "U3: the v2 keyword list equals the third-party Token table (read from its source); the v1 NOT prefixes equal "
    "what normalize_tag handles. U4: protocol members dispatch to their own parser; make_tag_expression uses the "
    "current protocol exactly when none is passed. U5: Configuration.setup_tag_expression installs the configured protocol "
    "with an unconditional top-level TagExpressionProtocol.use(self.tag_expression_protocol) before the first parse, and "
    "use()/current() share one class-level slot. The concrete U2 universe (~65 renderings incl. tags containing "
    "or/and/not as substrings, dots, dashes, '=', limits, prefixes after '(') is evaluated through the real word "
    "predicates by constant folding.")
NOT_DECIDED = ("limit enforcement across a run (v1 ':n' limits are counted at run time), the word predicates' own bodies "
               "on arbitrary text (they are one-line any() over words, evaluated only through the sample text)")
TECHNIQUE = "static analysis: abstract evaluation of v1 check() over complete truth tables, of v1 parsing on decorated literals, and of the dialect selector over its full predicate decision table; table-agreement rules against the third-party token table; static constant propagation of the string-level glue (the source interpreted on enumerated literal inputs, stdlib calls folded) against oracles written in the rule"


def run(chk, ix, tier):
    rules_tags.check_v1(chk, ix)
    rules_tags.check_v1_end_to_end(chk, ix)
    rules_tags.check_autodetect(chk, ix)
    rules_tags.check_autodetect_concrete(chk, ix)
    rules_tags.check_v1_renderings(chk, ix, tier)
    rules_tags.check_v2_renderings(chk, ix, tier)
    rules_tags.check_v2_glue_concrete(chk, ix)
    rules_tags.check_v2_list_form(chk, ix)
    rules_tags.check_tables_and_dispatch(chk, ix)
    rules_tags.check_protocol_use(chk, ix, "U5")
    for r, n in (("U1", 900), ("U2", 250), ("U3", 2), ("U4", 7), ("U5", 7), ("T4", 200)):
        chk.require_instances(r, n)
