# -*- coding: utf-8 -*-
"""C01 Run verdict: no false green, no false red."""
from ..report import run_parallel
from . import common as T

EXPLANATION = (
    "Static analysis (abstract interpretation over finite domains, no repository code is run). The verdict chain is "
    "decided level by level, each function for ALL inputs: V1 Step.run returns False <=> final status has_failed; "
    "V2 Scenario.run returns True <=> a step failed / a hook failed / the context pop raised (step sequences of every "
    "length via loop fixpoint) and nothing is recorded as undefined for a not-selected scenario; V3 Feature/Rule/"
    "ScenarioOutline.run return True <=> a child failed / own hook failed / pop raised; ST/STM --stop and abort stop "
    "at the first failure; V4 run_model's result is truthy <=> feature failed, KeyboardInterrupt, aborted, hook "
    "failure, new undefined steps or cleanup error; V5 run_behave returns 1 <=> runner.run() truthy or an exception "
    "of its except ladder was reported, main passes it on; V6 failing hooks are counted and *_all hooks abort; "
    "V7 the abort flag written by Context.abort is the one ModelRunner.aborted reads. Composition of the per-level "
    "iff-obligations (assume/guarantee, induction over tree depth) gives the property for every feature tree. " + T.SOUNDNESS)
NOT_DECIDED = ("that the process exit code equals main()'s return value (interpreter); third-party runner classes plugged "
               "in through RunnerPlugin; the value of tag expressions (C07/C08)")
ASSUMPTIONS = ["callee summaries used: Step.run (proved by V1/S1), run_hook (proved by H1/V6), child.run() of "
               "features/rules/scenarios (proved by V2/V3)"]


def t_generic(chk, ix):
    # retry / patch helpers must not hand out late-bound closures (a patched scenario running another one's run())
    from .. import rules_generic
    rules_generic.check_late_binding(chk, ix)
    rules_generic.check_finally_jumps(chk, ix)
    rules_generic.check_shared_class_state(chk, ix, ("behave",), floor=100)
    # excluding an element (name / file:LINE selection, a hook) must not blow up on an element without children: false red
    from .. import rules_status
    rules_status.check_mark_skipped_postcondition(chk, ix)
    # a cleanup that is silently not registered cannot fail the run
    from .. import rules_context
    rules_context.check_add_cleanup(chk, ix)
    # a scenario that was not selected (file:line) is not run - also when it has the same title as a selected one
    from .. import rules_location
    rules_location.check_build_feature(chk, ix)


def run(chk, ix, tier):
    run_parallel(chk, [
        (T.t_step, (("V1", "S1"),)),
        (T.t_scenario, (("V2",),)),
    ] + T.container_tasks(("V3", "ST")) + [
        (T.t_run_model, (("V4", "V6", "STM"),)),
        (T.t_run_hook, (("V6",),)),
        (T.t_run_behave, ()),
        (T.t_abort_wiring, ()),
        (t_generic, ()),
    ])
    for r, n in (("V1", 8), ("V2", 1), ("V3", 3), ("V4", 1), ("V5", 2), ("V6", 10), ("V7", 3), ("S1", 8), ("RF5", 10), ("RF7", 8)):
        chk.require_instances(r, n)
