# -*- coding: utf-8 -*-
"""C11 Step matching and dispatch: full-text match, right definition, right arguments."""
from .. import rules_matching, rules_order

EXPLANATION = (
    "Static analysis of the glue around the pattern libraries (what parse / parse_type / re match is trusted). "
    "M2: StepRegistry.find_match and find_step_definition evaluated abstractly on a registry with two typed and one "
    "generic definition for every combination of which definitions match, for a typed and a generic step: the first "
    "matching definition in the order 'type list, then generic list' is bound, and the lookup mutates no registry "
    "object. M3: add_step_definition evaluated for a good/bad new definition against every relevant content of the "
    "type's list (same definition, matching definition, other, in both orders): ignored / AmbiguousStep / appended as "
    "specified; Matcher.matches(own pattern text) is true even when the matcher's own match() says no. M4: Match.run "
    "evaluated on [anonymous, named, anonymous] arguments calls func(context, pos1, pos2, named=...); parse arguments "
    "are ordered by start offset. M5: every Argument is built with original = step_text[start:end] for the very "
    "start/end it stores (regex: the same group's start/end). M1: parse matchers use parser.parse (whole text) with "
    "case_sensitive=True, the simplified regex matcher anchors ^...$, regex matchers use match() and no IGNORECASE. "
    "M6: the default matcher is restored after every step module. M7: decorators for the four types in both "
    "spellings. M8: two parse matchers with the same pattern text but different custom types get separate parsers "
    "built from their own types. S7 (shared with C02): converter errors become MatchWithError. M9: every in-repo subclass of ParseMatcher resolves TYPE_REGISTRY to the single registry object defined on ParseMatcher, which register_type() writes and __init__ reads as default; M3 also requires that existing definitions are compared with the decorator's step text, not with a matcher-rewritten pattern.")
NOT_DECIDED = ("what the third-party pattern languages match on concrete texts (typed fields, cardinality fields, regex "
               "groups), type-converter results")
TECHNIQUE = "static analysis: exhaustive abstract evaluation of lookup/registration over token registries (decision tables, no-mutation effect rule), the matcher glue (module loading order, matcher-factory call sequences, match objects, cucumber check_match) evaluated with recording stand-ins, ownership rule for parsers"


def run(chk, ix, tier):
    rules_matching.check_lookup(chk, ix)
    rules_matching.check_lookup_sequences(chk, ix)
    rules_matching.check_matcher_factory(chk, ix)
    rules_matching.check_registration(chk, ix)
    rules_matching.check_dispatch(chk, ix)
    rules_matching.check_fulltext(chk, ix)
    rules_matching.check_module_glue(chk, ix)
    rules_matching.check_parser_ownership(chk, ix)
    rules_matching.check_type_registry_sharing(chk, ix)
    rules_matching.check_unwrap_function(chk, ix)
    rules_matching.check_same_step_definition(chk, ix)
    rules_matching.check_type_pattern_groups(chk, ix)
    rules_matching.check_match_objects_have_arguments(chk, ix)
    rules_matching.check_cucumber_check_match(chk, ix)
    rules_order.check_match_protection(chk, ix)
    for r, n in (("M1", 5), ("M2", 36), ("M3", 10), ("M4", 2), ("M5", 3), ("M6", 300), ("M7", 1), ("M8", 1), ("M9", 3), ("M10", 4), ("M11", 4), ("M12", 5), ("M13", 3)):
        chk.require_instances(r, n)
