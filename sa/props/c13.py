# -*- coding: utf-8 -*-
"""C13 Context scoping and cleanups: layered visibility, LIFO exactly-once cleanup."""
from ..report import run_parallel
from . import common as T
from .. import rules_context

EXPLANATION = (
    "Static analysis of the Context class and of the run methods that use it. X1: Context._pop evaluated abstractly with "
    "a raising and a non-raising cleanup phase: exactly one frame is removed on every exit, and the cleanups ran while "
    "the frame was still current. X2: _do_cleanups evaluated on three registered cleanups, each forking into 'returns' "
    "and 'raises' (8 fault combinations) x fail_on_cleanup_errors: every cleanup runs exactly once in reverse "
    "registration order; the first error is re-raised iff the flag is set. X3: add_cleanup(f,'a'); add_cleanup(f,'b') "
    "registers two cleanups in the current or the named layer. X4: lookups scan all frames from the current one outward, deletion only the current one. X13: every history of "
    "push / pop / set / get / delete / contains up to length 4 (thorough: 5), from a new Context made by its own __init__ and from one "
    "whose outer value is shadowed, evaluated step by step on constants and compared with a stack of dictionaries. X5: Scenario.run and "
    "ScenarioContainer.run (Feature, Rule): one push, exactly one pop on every non-BaseException path; a raising pop "
    "gives error status and a failed result. X8: run_model runs the test-run level cleanups after after_all and a "
    "failure makes the run fail. X6: a generator fixture registers its cleanup before the setup part runs. X7: "
    "execute_steps evaluated with sub-steps that overwrite text/table and pass or fail: the caller's values - also None "
    "- are restored on every exit. X9: the mode/layer context managers restore in finally. X10: use_or_assign_param / "
    "use_or_create_param keep an existing attribute, also one whose value is None. " + T.SOUNDNESS)
NOT_DECIDED = ("operation histories longer than the bound, with several attribute names, or mixing user/behave mode (the masking warnings); "
               "fixture composition helpers beyond the registration order")
TECHNIQUE = "static analysis: abstract evaluation of Context methods on a frame-stack heap model with fault forks (cleanup order/exactly-once obligations), scope typestate monitors over the run methods, bounded operation histories (push/pop/set/get/delete/contains) evaluated on constants against a stack-of-dictionaries reference, structural finally rules"


def t_ctx(chk, ix):
    rules_context.check_pop_and_cleanups(chk, ix)
    rules_context.check_add_cleanup(chk, ix)
    rules_context.check_stack_end(chk, ix)
    rules_context.check_fixture_and_managers(chk, ix)
    rules_context.check_execute_steps(chk, ix)
    rules_context.check_use_or_param(chk, ix)
    rules_context.check_root_frame_is_own(chk, ix)
    rules_context.check_fresh_context_per_run(chk, ix)
    rules_context.check_scope_histories(chk, ix)


def run(chk, ix, tier):
    run_parallel(chk, [(t_ctx, ()), (T.t_scenario, (("X5",),)), (T.t_run_model, (("X8",),))]
                 + [(T.t_container, (("X5",), (w,))) for w in ("Feature", "Rule")])
    for r, n in (("X1", 2), ("X2", 2), ("X3", 2), ("X4", 4), ("X5", 3), ("X6", 1), ("X7", 2), ("X8", 1), ("X9", 2), ("X10", 6), ("X11", 1), ("X12", 2), ("X13", 100)):
        chk.require_instances(r, n)
