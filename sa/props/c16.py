# -*- coding: utf-8 -*-
"""C16 JUnit reports are well-formed XML with counters that match their test cases."""
from .. import rules_junit

EXPLANATION = (
    "Static analysis. JUnitReporter._process_scenario is explored abstractly for a scenario of every scenario-level "
    "status x show_skipped x the show_skipped_always userdata switch x where the responsible step is (own steps, "
    "inherited Background step, no step at all with and without error message, undefined step in a skipped scenario), "
    "with ElementTree elements modelled as tokens: J2 the tests/errors/failures/skipped counters equal the number of "
    "appended test cases and of their error/failure/skipped children; J3 a failed/errored scenario gets exactly one "
    "failure/error entry and the step handed to the description is found among ALL steps; J4 no internal exception on "
    "any path (None error message / traceback). J1 (taint): names, messages and captured output are tainted tokens; "
    "string formatting/concatenation/strip keep the taint, _escape_invalid_xml_chars clears it; every value given to "
    "Element.set must be clean; CDATA text is escaped by the patched serializer (escape_CDATA applied to CDATA nodes, "
    "serializer installed), escape_CDATA neutralises ']]>' and afterwards only replaces invalid characters (nothing "
    "that deletes characters, such as ANSI stripping, runs after the neutralisation). J5: the walker over run items "
    "produces one test case per scenario incl. outline rows inside rules. J6: --junit forces the three captures on. J7: the literal table of code point ranges "
    "the sanitiser's pattern is compiled from covers every code point XML 1.0 forbids (C0 controls except tab/LF/CR, "
    "surrogates, U+FFFE/U+FFFF) and none of a sample of ordinary characters; the escape function applies that pattern.")
NOT_DECIDED = "ElementTree's own escaping of attribute and text content; file names and directories; the bytes of the report"
TECHNIQUE = "static analysis: abstract exploration of the JUnit reporter with XML element tokens (counter/entry conservation, nullness), taint analysis from model texts to XML sinks through the sanitisers, structural rules on the CDATA serializer path; static constant propagation of the string-level glue (the source interpreted on enumerated literal inputs, stdlib calls folded) against oracles written in the rule"


def run(chk, ix, tier):
    # row scenarios are built once and keep their state (status, skip marks): build_scenarios clears every table's modified mark
    from .. import rules_outline
    rules_outline.check_build_order(chk, ix)
    rules_junit.check_process_scenario(chk, ix)
    rules_junit.check_culprit_step(chk, ix)
    rules_junit.check_problem_description_names_step(chk, ix)
    rules_junit.check_cdata_path(chk, ix)
    rules_junit.check_walker_and_capture(chk, ix)
    # the reporter reads its switches (behave.reporter.junit.*) from the userdata when it is created: -D defines are merged before
    from .. import rules_config
    rules_config.check_userdata_before_consumers(chk, ix)
    # every test case reports the final status of ITS scenario: outline rows do not share Step objects (shared with C02)
    from .. import rules_order
    rules_order.check_step_order(chk, ix)
    rules_junit.check_illegal_char_table(chk, ix)
    rules_junit.check_feature_filenames(chk, ix)
    # the test case shows the scenario's FINAL status: a hook failure after the status was read must still end as hook_error (shared with C03)
    from . import common as T
    T.t_scenario(chk, ix, ("R4",))
    for r, n in (("B1", 1), ("B4", 1), ("J1", 10), ("J2", 10), ("J3", 10), ("J4", 10), ("J5", 1), ("J6", 1), ("J7", 7), ("J8", 3)):
        chk.require_instances(r, n)
