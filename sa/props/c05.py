# -*- coding: utf-8 -*-
"""C05 Parser error discipline: only ParserError, with a usable line number."""
from ..report import run_parallel
from .. import rules_parser

EXPLANATION = (
    "Static analysis. The parser's real code (parse_* wrappers, Parser.*, the action_<state> methods, keyword matching, "
    "step parsing, tag parsing) is interpreted abstractly as a machine over LINE CLASSES: a text is an abstract sequence "
    "of lines, each line one of 17-20 classes (blank, comment, language comment, tag line, each keyword kind, each step "
    "keyword kind, table row, doc-string delimiters, other text) decided by the same prefix tests the parser applies, on "
    "synthetic keyword tokens; model objects are small tokens keeping only None-ness / emptiness facts. The loop over "
    "lines is solved by fixpoint over loop-head states, so EVERY sequence of line classes (infinitely many documents) is "
    "covered, from every entry point (parse_feature, parse_rule, parse_scenario, parse_steps, parse_tags). E7 (structural): a "
    "re-used Parser object starts clean (reset() re-initialises every parsing field, before every line loop). E1: no "
    "internal exception (attribute access on None, index into an empty or possibly empty list, failing assert, missing "
    "key) on any path; E2: an And/But step that is the first step of its statement (no background steps) is never "
    "accepted with a step type left over from an earlier statement (the catalogued fault is rejected); E3: every exception that leaves is a ParserError; E5: the wrappers attach the filename; "
    "E8: the model constructors and add_* methods the parser calls (Table, add_row, Row, Step, Scenario, ScenarioOutline, "
    "Examples, Background, Feature, Rule) evaluated with arbitrary strings and cell lists reach no assertion over the text's "
    "content and no internal exception (the machine itself uses model tokens). E4 (structural): every ParserError construction passes the current line; E6: no while loop and no call cycle "
    "except action_table<->action_steps. A counterexample is an abstract sentence such as 'entry=parse_rule: RULE_KW'.")
NOT_DECIDED = ("that the error is reported at the injected line for a concrete injected fault (covered only through E4: "
               "the error carries the current line, and C04/P3: lines are counted before anything is skipped); "
               "errors raised inside third-party code (re) on concrete texts")


def t_entry(chk, ix, entry, reuse=False):
    rules = ("E1", "E3", "E5") if entry == "parse_tags" else ("E1", "E2", "E3", "E5")
    rules_parser.check_machine(chk, ix, entry, rules, tier=chk.tier, reuse=reuse)


def t_struct(chk, ix):
    rules_parser.check_line_numbers(chk, ix)
    rules_parser.check_termination(chk, ix)
    rules_parser.check_reset_clears(chk, ix)
    rules_parser.check_model_constructors(chk, ix)
    rules_parser.check_error_message_hostile(chk, ix)
    rules_parser.check_regex_ambiguity(chk, ix)
    # a second rule with the same (or no) title is a legal document: it must be built like the first (shared with C04)
    rules_parser.check_model_adders(chk, ix)
    # text that only begins like a keyword is not a step: it must reach the error discipline, not be accepted (shared with C04)
    rules_parser.check_parse_step_concrete(chk, ix)


def run(chk, ix, tier):
    tasks = [(t_entry, (e,)) for e in ("parse_feature", "parse_rule", "parse_scenario", "parse_steps", "parse_tags")]
    tasks.append((t_struct, ()))
    run_parallel(chk, tasks)
    chk.rules.pop("P3", None)
    chk.require_instances("E1", 5)
    chk.require_instances("E2", 4)
    chk.require_instances("E8", 10)
    chk.require_instances("E4", 8)
    chk.require_instances("E9", 30)
    chk.require_instances("E7", 3)
    chk.require_instances("E10", 2)
