# -*- coding: utf-8 -*-
"""C15 Formatter event protocol well formed; JSON/plain/progress reports mirror model."""
from ..report import run_parallel
from . import common as T
from .. import rules_formatter

EXPLANATION = (
    "Static analysis. Event protocol (emission side, with two formatters that must agree): F1 Step.run emits exactly "
    "match then result per formatter unless quiet, on every path; F2 Scenario.run explored over step sequences of every "
    "length: per formatter scenario, step*, (match result)* and the results form a PREFIX of the announced steps (once a "
    "step got no result no later step of that scenario gets one; also in dry-run with undefined steps), nothing for a "
    "scenario that is not shown; F3 Feature/Rule: opening (feature|rule, background) and closing (eof|rule_finished) "
    "callbacks are guarded alike, also when user code skips the feature mid-run; F4 run_model: uri before each run "
    "feature, close exactly once per formatter after the loop. Consumer side: F5 the JSON formatter is driven abstractly "
    "with a protocol script (scenario with a failing step that has a message, a Rule background after a scenario, next "
    "scenario): statuses land in their own elements, the i-th result is attached to the i-th step; F6 JSON writer and "
    "reader agree on keys and element types; F7 the progress dot table and the colour aliases cover every step status; "
    "F8 formatters that report the dequeued step reset/drain their queue at every boundary. " + T.SOUNDNESS)
NOT_DECIDED = ("the bytes of plain/progress/pretty output; JSON validity of user-provided values (json.dumps); "
               "make_formatters stream pairing; outline/rule elements are not part of the JSON format")
TECHNIQUE = "static analysis: typestate monitors over the emitting run methods (abstract interpretation), abstract evaluation of the JSON formatter on a protocol script, writer/reader key agreement, table coverage and queue-reset effect rules; static constant propagation of the string-level glue (the source interpreted on enumerated literal inputs, stdlib calls folded) against oracles written in the rule"


def t_fmt(chk, ix):
    rules_formatter.check_json_cursor(chk, ix)
    rules_formatter.check_json_keys(chk, ix)
    rules_formatter.check_json_text_roundtrip(chk, ix)
    rules_formatter.check_indent(chk, ix)
    rules_formatter.check_display_tables(chk, ix)
    rules_formatter.check_step_queues(chk, ix)
    rules_formatter.check_stream_opener_close(chk, ix)
    rules_formatter.check_json_argument_values(chk, ix)
    # the table the plain / pretty formatters print is the table of the model (cells with pipes escaped): shared with C04
    from .. import rules_parser
    rules_parser.check_table_render_roundtrip(chk, ix)
    # what formatter.match() receives: every match object carries its arguments as a list (shared with C11)
    from .. import rules_matching
    rules_matching.check_match_objects_have_arguments(chk, ix)


def run(chk, ix, tier):
    run_parallel(chk, [(t_fmt, ()), (T.t_step, (("F1",),)), (T.t_scenario, (("F2",),)), (T.t_run_model, (("F4",),))]
                 + [(T.t_container, (("F3",), (w,))) for w in ("Feature", "Rule")])
    for r, n in (("F1", 8), ("F2", 1), ("F3", 2), ("F4", 1), ("F5", 2), ("F6", 6), ("F7", 2), ("F8", 3), ("F10", 7), ("F11", 8), ("F12", 2), ("P8", 4), ("M12", 5), ("F13", 7)):
        chk.require_instances(r, n)
