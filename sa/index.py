# -*- coding: utf-8 -*-
"""Source model of /repo/behave: modules, classes (with MRO), functions, enums,
constant folding and name resolution.  Nothing under the repository is imported
or executed: every fact is read from the parsed source (stdlib ``ast``).
"""
from __future__ import annotations

import ast
import builtins
import os
import sys


class AnalysisError(Exception):
    """The analysis cannot give a verdict (anchor missing, unsupported construct,
    imprecision).  Never reported as a violation: exit code 2."""


def repo_root():
    return os.environ.get("VERIF_REPO", "/repo")


class EnumVal(object):
    """A member of an in-repo Enum class, e.g. Status.passed."""
    __slots__ = ("cls", "name", "value")

    def __init__(self, cls, name, value=None):
        self.cls = cls
        self.name = name
        self.value = value

    def __eq__(self, other):
        return isinstance(other, EnumVal) and (self.cls, self.name) == (other.cls, other.name)

    def __ne__(self, other):
        return not self.__eq__(other)

    def __hash__(self):
        return hash((self.cls, self.name))

    def __repr__(self):
        return "%s.%s" % (self.cls, self.name)

    def __lt__(self, other):
        return (self.cls, self.name) < (other.cls, other.name)


class NotConst(Exception):
    pass


class FuncInfo(object):
    def __init__(self, module, cls, node, kind="function"):
        self.module = module
        self.cls = cls              # ClassInfo or None
        self.node = node
        self.name = node.name
        self.kind = kind            # function | method | staticmethod | classmethod | property | setter
        self.qualname = (cls.name + "." if cls else "") + node.name
        self.fullname = module.name + ":" + self.qualname

    @property
    def file(self):
        return self.module.relpath

    @property
    def lineno(self):
        return self.node.lineno

    def __repr__(self):
        return "<Func %s>" % self.fullname


class ClassInfo(object):
    def __init__(self, module, node):
        self.module = module
        self.node = node
        self.name = node.name
        self.fullname = module.name + ":" + node.name
        self.base_exprs = node.bases
        self.bases = []             # resolved: ClassInfo or str (external name)
        self.methods = {}           # name -> FuncInfo (getter for properties)
        self.setters = {}           # name -> FuncInfo
        self.class_consts = {}      # name -> ast expr
        self.is_enum = False
        self.enum_members = {}      # name -> value
        self._mro = None

    def __repr__(self):
        return "<Class %s>" % self.fullname

    def mro(self):
        if self._mro is None:
            self._mro = _c3(self)
        return self._mro

    def lookup(self, name):
        """Find a method / property through the MRO (in-repo classes only)."""
        for c in self.mro():
            if isinstance(c, ClassInfo) and name in c.methods:
                return c.methods[name]
        return None

    def lookup_setter(self, name):
        for c in self.mro():
            if isinstance(c, ClassInfo) and name in c.setters:
                return c.setters[name]
        return None

    def lookup_const(self, name):
        for c in self.mro():
            if isinstance(c, ClassInfo) and name in c.class_consts:
                return c, c.class_consts[name]
        return None

    def is_subclass_of(self, other):
        """other: ClassInfo or external class name (str)."""
        for c in self.mro():
            if c is other:
                return True
            if isinstance(c, str) and isinstance(other, str) and c == other:
                return True
            if isinstance(c, ClassInfo) and isinstance(other, str) and c.name == other:
                return True
        if isinstance(other, str):
            # external bases: follow builtin hierarchy
            for c in self.mro():
                if isinstance(c, str):
                    bc = getattr(builtins, c.split(".")[-1], None)
                    bo = getattr(builtins, other.split(".")[-1], None)
                    if isinstance(bc, type) and isinstance(bo, type) and issubclass(bc, bo):
                        return True
        return False

    def external_bases(self):
        return [c for c in self.mro() if isinstance(c, str)]


def _c3(cls):
    def merge(seqs):
        res = []
        seqs = [list(s) for s in seqs if s]
        while seqs:
            for s in seqs:
                cand = s[0]
                if not any(cand in t[1:] for t in seqs):
                    break
            else:
                # inconsistent hierarchy; fall back to depth-first
                cand = seqs[0][0]
            res.append(cand)
            seqs = [[x for x in s if x is not cand and x != cand] for s in seqs]
            seqs = [s for s in seqs if s]
        return res
    parents = []
    for b in cls.bases:
        if isinstance(b, ClassInfo):
            parents.append(b.mro())
        else:
            parents.append([b])
    return [cls] + merge(parents + [list(cls.bases)])


class Module(object):
    def __init__(self, name, path, relpath, src):
        self.name = name
        self.path = path
        self.relpath = relpath
        self.src = src
        self.lines = src.splitlines()
        self.tree = ast.parse(src, filename=path)
        self.imports = {}       # local name -> (module name, attr or None)
        self.classes = {}
        self.functions = {}
        self.consts = {}        # name -> ast expr (module-level simple assignments)
        for node in ast.walk(self.tree):
            for child in ast.iter_child_nodes(node):
                child._parent = node

    def __repr__(self):
        return "<Module %s>" % self.name


class Index(object):
    """Parsed and resolved view of the behave package in the working tree."""

    def __init__(self, root=None, package="behave"):
        self.root = root or repo_root()
        self.package = package
        self.modules = {}
        self.classes_by_name = {}    # short name -> [ClassInfo]
        self._load()
        self._resolve()

    # -- loading ---------------------------------------------------------
    def _load(self):
        pkg_dir = os.path.join(self.root, self.package)
        if not os.path.isdir(pkg_dir):
            raise AnalysisError("package directory not found: %s" % pkg_dir)
        for dirpath, dirnames, filenames in os.walk(pkg_dir):
            dirnames[:] = sorted(d for d in dirnames if d != "__pycache__")
            for fn in sorted(filenames):
                if not fn.endswith(".py"):
                    continue
                path = os.path.join(dirpath, fn)
                rel = os.path.relpath(path, self.root)
                modname = rel[:-3].replace(os.sep, ".")
                if modname.endswith(".__init__"):
                    modname = modname[:-9]
                with open(path, "rb") as f:
                    src = f.read().decode("utf-8")
                try:
                    mod = Module(modname, path, rel, src)
                except SyntaxError as e:
                    raise AnalysisError("cannot parse %s: %s" % (rel, e))
                self.modules[modname] = mod
                self._scan(mod)

    def _scan(self, mod):
        def scan_body(body):
            for node in body:
                if isinstance(node, ast.Import):
                    for a in node.names:
                        mod.imports[(a.asname or a.name).split(".")[0]] = (a.name if a.asname else a.name.split(".")[0], None)
                elif isinstance(node, ast.ImportFrom):
                    base = node.module or ""
                    if node.level:
                        parts = mod.name.split(".")
                        is_pkg = mod.path.endswith("__init__.py")
                        up = node.level - (1 if is_pkg else 0)
                        parent = parts[:len(parts) - up] if up else parts
                        if not is_pkg:
                            parent = parts[:-node.level]
                        base = ".".join(parent + ([node.module] if node.module else []))
                    for a in node.names:
                        mod.imports[a.asname or a.name] = (base, a.name)
                elif isinstance(node, ast.ClassDef):
                    ci = ClassInfo(mod, node)
                    mod.classes[node.name] = ci
                    self.classes_by_name.setdefault(node.name, []).append(ci)
                    self._scan_class(mod, ci)
                elif isinstance(node, (ast.FunctionDef, ast.AsyncFunctionDef)):
                    mod.functions[node.name] = FuncInfo(mod, None, node)
                elif isinstance(node, ast.Assign):
                    for t in node.targets:
                        if isinstance(t, ast.Name):
                            mod.consts[t.id] = node.value
                elif isinstance(node, (ast.If, ast.Try)):
                    # module-level conditional definitions (six.PY2 ...): scan all arms
                    for sub in ("body", "orelse", "finalbody"):
                        scan_body(getattr(node, sub, []) or [])
                    for h in getattr(node, "handlers", []) or []:
                        scan_body(h.body)
        scan_body(mod.tree.body)

    def _scan_class(self, mod, ci):
        def scan(body):
            for node in body:
                if isinstance(node, (ast.FunctionDef, ast.AsyncFunctionDef)):
                    kind = "method"
                    setter = False
                    for d in node.decorator_list:
                        if isinstance(d, ast.Name) and d.id in ("staticmethod", "classmethod", "property"):
                            kind = d.id
                        elif isinstance(d, ast.Attribute) and d.attr == "setter":
                            setter = True
                    fi = FuncInfo(mod, ci, node, "setter" if setter else kind)
                    if setter:
                        ci.setters[node.name] = fi
                    else:
                        ci.methods[node.name] = fi
                elif isinstance(node, ast.Assign):
                    for t in node.targets:
                        if isinstance(t, ast.Name):
                            ci.class_consts[t.id] = node.value
                elif isinstance(node, ast.If):
                    # e.g. "if six.PY2:" blocks; python3 semantics: take orelse only
                    if _is_py2_test(node.test):
                        scan(node.orelse)
                    else:
                        scan(node.body)
                        scan(node.orelse)
        scan(ci.node.body)

    # -- resolution ------------------------------------------------------
    def _resolve(self):
        for mod in self.modules.values():
            for ci in mod.classes.values():
                for b in ci.base_exprs:
                    ci.bases.append(self._resolve_base(mod, b))
        for mod in self.modules.values():
            for ci in mod.classes.values():
                if any((isinstance(c, str) and c.split(".")[-1] in ("Enum", "IntEnum"))
                       for c in ci.mro()):
                    ci.is_enum = True
                    for k, v in ci.class_consts.items():
                        try:
                            ci.enum_members[k] = self.fold(v, mod)
                        except NotConst:
                            pass

    def _resolve_base(self, mod, expr):
        r = self.resolve_expr(mod, expr)
        if isinstance(r, ClassInfo):
            return r
        return _dotted(expr) or "<?>"

    def resolve_name(self, mod, name, _depth=0):
        """Resolve a module-level name to ClassInfo | FuncInfo | Module | ('const', mod, expr) | ('ext', dotted) | None."""
        if _depth > 8:
            return None
        if name in mod.classes:
            return mod.classes[name]
        if name in mod.functions:
            return mod.functions[name]
        if name in mod.imports:
            base, attr = mod.imports[name]
            if attr is None:
                if base in self.modules:
                    return self.modules[base]
                return ("ext", base)
            full = base + "." + attr
            if full in self.modules:
                return self.modules[full]
            if base in self.modules:
                r = self.resolve_name(self.modules[base], attr, _depth + 1)
                if r is not None:
                    return r
                return ("ext", full)
            return ("ext", full)
        if name in mod.consts:
            return ("const", mod, mod.consts[name])
        return None

    def resolve_expr(self, mod, expr):
        if isinstance(expr, ast.Name):
            return self.resolve_name(mod, expr.id)
        if isinstance(expr, ast.Attribute):
            base = self.resolve_expr(mod, expr.value)
            if isinstance(base, Module):
                return self.resolve_name(base, expr.attr)
            if isinstance(base, tuple) and base[0] == "ext":
                return ("ext", base[1] + "." + expr.attr)
            if isinstance(base, ClassInfo):
                m = base.lookup(expr.attr)
                if m:
                    return m
            return None
        return None

    # -- lookup helpers --------------------------------------------------
    def module(self, name):
        if name not in self.modules:
            raise AnalysisError("anchor missing: module %s" % name)
        return self.modules[name]

    def cls(self, spec):
        """spec: 'behave.model:Scenario' or short unique name 'Scenario'."""
        if ":" in spec:
            m, c = spec.split(":")
            mod = self.module(m)
            if c not in mod.classes:
                raise AnalysisError("anchor missing: class %s" % spec)
            return mod.classes[c]
        cands = self.classes_by_name.get(spec, [])
        if len(cands) != 1:
            raise AnalysisError("anchor missing or ambiguous: class %s (%d candidates)" % (spec, len(cands)))
        return cands[0]

    def func(self, spec):
        """spec: 'behave.model:Scenario.run' or 'behave.parser:parse_feature'."""
        m, q = spec.split(":")
        mod = self.module(m)
        if "." in q:
            c, f = q.split(".", 1)
            if c not in mod.classes:
                raise AnalysisError("anchor missing: class %s:%s" % (m, c))
            ci = mod.classes[c]
            fi = ci.methods.get(f) or ci.setters.get(f)
            if fi is None:
                raise AnalysisError("anchor missing: method %s" % spec)
            return fi
        if q not in mod.functions:
            raise AnalysisError("anchor missing: function %s" % spec)
        return mod.functions[q]

    def subclasses(self, ci):
        out = []
        for mod in self.modules.values():
            for c in mod.classes.values():
                if c is not ci and ci in c.mro():
                    out.append(c)
        return out

    def all_functions(self):
        for mod in self.modules.values():
            for f in mod.functions.values():
                yield f
            for c in mod.classes.values():
                for f in c.methods.values():
                    yield f
                for f in c.setters.values():
                    yield f

    def enum(self, name):
        ci = self.cls(name)
        if not ci.is_enum:
            raise AnalysisError("anchor is not an Enum: %s" % name)
        return ci

    def enum_members(self, name):
        ci = self.enum(name)
        return [EnumVal(ci.name, k, v) for k, v in ci.enum_members.items()]

    # -- constant folding --------------------------------------------------
    def fold(self, expr, mod, env=None, _depth=0):
        """Fold a literal expression to a python value (EnumVal for enum members)."""
        if _depth > 20:
            raise NotConst("too deep")
        f = lambda e: self.fold(e, mod, env, _depth + 1)
        if isinstance(expr, ast.Constant):
            return expr.value
        if isinstance(expr, ast.Tuple):
            return tuple(f(e) for e in expr.elts)
        if isinstance(expr, ast.List):
            return [f(e) for e in expr.elts]
        if isinstance(expr, ast.Set):
            return set(f(e) for e in expr.elts)
        if isinstance(expr, ast.Dict):
            d = {}
            for k, v in zip(expr.keys, expr.values):
                if k is None:
                    d.update(f(v))
                else:
                    d[f(k)] = f(v)
            return d
        if isinstance(expr, ast.Name):
            if env and expr.id in env:
                return env[expr.id]
            if expr.id in ("True", "False", "None"):
                return {"True": True, "False": False, "None": None}[expr.id]
            r = self.resolve_name(mod, expr.id)
            if isinstance(r, tuple) and r[0] == "const":
                return self.fold(r[2], r[1], None, _depth + 1)
            raise NotConst(expr.id)
        if isinstance(expr, ast.Attribute):
            # Enum member  Status.passed / Status.passed.name / .value
            if isinstance(expr.value, ast.Attribute) and expr.attr in ("name", "value"):
                try:
                    inner = f(expr.value)
                except NotConst:
                    inner = None
                if isinstance(inner, EnumVal):
                    return inner.name if expr.attr == "name" else inner.value
            base = self.resolve_expr(mod, expr.value)
            if isinstance(base, ClassInfo):
                if base.is_enum and expr.attr in base.class_consts:
                    v = base.enum_members.get(expr.attr)
                    if v is None:
                        try:
                            v = self.fold(base.class_consts[expr.attr], base.module)
                        except NotConst:
                            v = None
                    return EnumVal(base.name, expr.attr, v)
                lc = base.lookup_const(expr.attr)
                if lc:
                    return self.fold(lc[1], lc[0].module, None, _depth + 1)
            if isinstance(base, Module):
                r = self.resolve_name(base, expr.attr)
                if isinstance(r, tuple) and r[0] == "const":
                    return self.fold(r[2], r[1], None, _depth + 1)
            if env is not None and isinstance(expr.value, ast.Name) and expr.value.id == "cls" and "cls" in env:
                ci = env["cls"]
                if isinstance(ci, ClassInfo) and ci.is_enum and expr.attr in ci.class_consts:
                    return EnumVal(ci.name, expr.attr, ci.enum_members.get(expr.attr))
            raise NotConst(ast.dump(expr))
        if isinstance(expr, ast.Call):
            fn = expr.func
            if isinstance(fn, ast.Name) and fn.id in ("dict", "OrderedDict"):
                d = {}
                if expr.args:
                    a = f(expr.args[0])
                    d.update(a if isinstance(a, dict) else dict(a))
                for kw in expr.keywords:
                    if kw.arg is None:
                        d.update(f(kw.value))
                    else:
                        d[kw.arg] = f(kw.value)
                return d
            if isinstance(fn, ast.Name) and fn.id in ("set", "frozenset", "list", "tuple", "sorted"):
                if not expr.args:
                    return {"set": set(), "frozenset": frozenset(), "list": [], "tuple": (), "sorted": []}[fn.id]
                a = f(expr.args[0])
                return {"set": set, "frozenset": frozenset, "list": list, "tuple": tuple, "sorted": sorted}[fn.id](a)
            if isinstance(fn, ast.Attribute) and fn.attr == "format" and not expr.keywords:
                s = f(fn.value)
                if isinstance(s, str):
                    return s.format(*[f(a) for a in expr.args])
            if isinstance(fn, ast.Attribute) and fn.attr in ("lower", "upper", "strip") and not expr.args:
                s = f(fn.value)
                if isinstance(s, str):
                    return getattr(s, fn.attr)()
            if isinstance(fn, ast.Attribute) and fn.attr == "copy" and not expr.args:
                s = f(fn.value)
                if isinstance(s, (dict, list, set)):
                    return s.copy()
            raise NotConst(ast.dump(expr)[:80])
        if isinstance(expr, ast.BinOp):
            l, r = f(expr.left), f(expr.right)
            try:
                if isinstance(expr.op, ast.Add):
                    return l + r
                if isinstance(expr.op, ast.Mod):
                    return l % r
                if isinstance(expr.op, ast.Mult):
                    return l * r
                if isinstance(expr.op, ast.Sub):
                    return l - r
                if isinstance(expr.op, ast.BitOr):
                    return l | r
            except Exception as e:     # noqa
                raise NotConst(str(e))
        if isinstance(expr, ast.UnaryOp):
            v = f(expr.operand)
            if isinstance(expr.op, ast.USub):
                return -v
            if isinstance(expr.op, ast.Not):
                return not v
        if isinstance(expr, ast.JoinedStr):
            out = ""
            for p in expr.values:
                if isinstance(p, ast.Constant):
                    out += str(p.value)
                else:
                    out += str(f(p.value))
            return out
        raise NotConst(type(expr).__name__)

    # -- builtin exception hierarchy ----------------------------------------
    @staticmethod
    def builtin_class(name):
        o = getattr(builtins, name, None)
        return o if isinstance(o, type) else None

    def exc_is_subclass(self, exc, handler):
        """exc, handler: ClassInfo or builtin class name (str)."""
        if isinstance(exc, ClassInfo):
            if isinstance(handler, ClassInfo):
                return handler in exc.mro()
            return exc.is_subclass_of(handler)
        if isinstance(handler, ClassInfo):
            return False
        be, bh = self.builtin_class(exc.split(".")[-1]), self.builtin_class(handler.split(".")[-1])
        if be is None or bh is None:
            raise AnalysisError("unknown exception class %r / %r" % (exc, handler))
        return issubclass(be, bh)

    def stats(self):
        nf = sum(1 for _ in self.all_functions())
        nc = sum(len(m.classes) for m in self.modules.values())
        return {"modules": len(self.modules), "classes": nc, "functions": nf}


def _is_py2_test(test):
    d = _dotted(test)
    return d in ("six.PY2", "PY2")


def _dotted(expr):
    if isinstance(expr, ast.Name):
        return expr.id
    if isinstance(expr, ast.Attribute):
        b = _dotted(expr.value)
        return (b + "." + expr.attr) if b else None
    return None


dotted = _dotted


def unparse(node):
    try:
        return ast.unparse(node)
    except Exception:      # noqa
        return "<%s>" % type(node).__name__


def norm_stmt(node):
    """Normalised one-line text of a statement head (key for findings; no line numbers)."""
    if isinstance(node, (ast.If, ast.While)):
        return "if " + unparse(node.test)
    if isinstance(node, ast.For):
        return "for %s in %s" % (unparse(node.target), unparse(node.iter))
    if isinstance(node, ast.Try):
        return "try"
    if isinstance(node, ast.With):
        return "with " + ", ".join(unparse(i.context_expr) for i in node.items)
    if isinstance(node, (ast.FunctionDef, ast.ClassDef)):
        return "def " + node.name
    s = unparse(node)
    return " ".join(s.split())[:160]


_INDEX_CACHE = {}


def get_index():
    root = repo_root()
    if root not in _INDEX_CACHE:
        _INDEX_CACHE[root] = Index(root)
    return _INDEX_CACHE[root]
