# -*- coding: utf-8 -*-
"""Finite monitors advanced on explorer events; their state lives in State.ghost."""
from __future__ import annotations


class Dfa(object):
    """Deterministic monitor.  ``select(ev) -> symbol | None``;
    transitions: {(state, symbol): state}.  An undefined transition records the
    first offending (state, symbol) under ghost[name + '.err'] (sticky)."""

    def __init__(self, name, select, transitions, start):
        self.name = name
        self.select = select
        self.t = transitions
        self.start = start

    def init(self, st):
        st.ghost[self.name] = self.start

    def on_event(self, st, ev):
        sym = self.select(ev)
        if sym is None:
            return
        cur = st.ghost.get(self.name, self.start)
        nxt = self.t.get((cur, sym))
        if nxt is None:
            nxt = self.t.get((cur, "*"))
        if nxt is None:
            if self.name + ".err" not in st.ghost:
                st.ghost[self.name + ".err"] = "unexpected %s in state %s" % (sym, cur)
            return
        st.ghost[self.name] = nxt


class Recorder(object):
    """Records facts from events into ghost via a python function."""

    def __init__(self, fn):
        self.fn = fn

    def init(self, st):
        pass

    def on_event(self, st, ev):
        self.fn(st, ev)


class MonitorSet(object):
    def __init__(self, monitors):
        self.monitors = list(monitors)

    def init(self, st):
        for m in self.monitors:
            m.init(st)

    def __call__(self, st, ev):
        for m in self.monitors:
            m.on_event(st, ev)


def capture_monitor():
    def sel(ev):
        if ev[0] == "capture" and ev[1] in ("start", "stop"):
            return ev[1]
        return None
    # start may be issued while started (nested: controller ignores it); stop when idle is a no-op
    return Dfa("cap", sel, {("idle", "start"): "started", ("started", "stop"): "idle",
                            ("started", "start"): "started", ("idle", "stop"): "idle"}, "idle")


def scenario_capture_monitor():
    def sel(ev):
        if ev[0] == "capture" and ev[1] in ("setup", "teardown"):
            return ev[1]
        return None
    return Dfa("scap", sel, {("none", "setup"): "setup", ("setup", "teardown"): "done"}, "none")


def scope_monitor():
    def sel(ev):
        if ev[0] == "push":
            return "push"
        if ev[0] == "pop":
            return "pop"
        return None
    return Dfa("scope", sel, {("out", "push"): "in", ("in", "pop"): "done"}, "out")


def formatter_seq_recorder(n):
    """ghost['fmt<i>'] = tuple of method names (bounded; '...' when longer than 6)."""
    def fn(st, ev):
        if ev[0] != "fmt":
            return
        k = "fmt%s" % ev[1]
        cur = st.ghost.get(k, ())
        if len(cur) < 6:
            st.ghost[k] = cur + (ev[2],)
        elif cur[-1] != "...":
            st.ghost[k] = cur + ("...",)
    return Recorder(fn)
