# -*- coding: utf-8 -*-
"""C06 Scenario Outline expansion.

  B1  build_scenarios: one scenario per examples row, in examples-block then row order;
      only examples without a table are skipped
  B2  make_step_for_row substitutes in every text-bearing field of a step (name, text,
      table headings, table cells); the row scenario sits at the row's line
  B3  the step handed to a row is a deep copy: substitution writes never reach the template
  B4  every Table method that changes rows/headings/cells marks the table modified;
      ScenarioOutline.scenarios rebuilds whenever a table is modified; build_scenarios clears the mark
"""
from __future__ import annotations

import ast

from .index import AnalysisError, ClassInfo, unparse, norm_stmt
from .values import Top, HObj, Ref, Exc, State, ClassVal, GE2
from .absint import Interp
from .report import Finding
from . import rules_select

WHAT = {
    "B1": "exactly one scenario per examples row, in examples-block then row order; only table-less examples are skipped",
    "B2": "placeholders are substituted in every text-bearing field of a step (name, doc-string, table headings and cells); row scenario at the row's line",
    "B3": "row steps are deep copies: substitution writes never reach the template (nor another row)",
    "B6": "render_template replaces every <column> of the row (and params) wherever it stands in the text and leaves all other text unchanged",
    "B7": "after every column operation of the Table API each row still sees the table's headings and has one cell per heading",
    "B4": "Table mutators mark the table modified; scenarios are rebuilt iff a table is modified; building clears the mark",
}


def _fail(chk, rule, func, witness, text, path=()):
    chk.fail(Finding(rule, func.fullname, witness, text, file=func.file, line=func.lineno, stmt="def " + func.name,
                     path=list(path)))


def check_build_order(chk, ix):
    chk.rule("B1", WHAT["B1"])
    func = ix.func("behave.model:ScenarioOutlineBuilder.build_scenarios")
    made = []

    def make_for(it, st, args, kw, node):
        ex, row = args[1], args[2]
        lab = (st.obj(ex).label, st.obj(row).label)
        made.append(lab)
        return [(st, "val", st.alloc(HObj("RowScenario", {"of": lab}, label="scenario%s" % (lab,))))]
    stubs = {"@with": "transparent", "ScenarioOutlineBuilder.make_scenario_for": make_for,
             "text": lambda it, st, a, k, n: [(st, "val", "n")]}
    it = Interp(ix, stubs=stubs, name="build_scenarios")
    st = State()
    st.frames = []

    def table(rows):
        rrefs = [st.alloc(HObj("RowTok", {"index": None, "id": None}, label=r)) for r in rows]
        return st.alloc(HObj("TableTok", {"rows": st.alloc(HObj("list", kind="list", items=rrefs)), "modified": True},
                             label="table"))
    stubs["TableTok.__iter__"] = None
    ex1 = st.alloc(HObj("ExTok", {"table": table(["r1", "r2"]), "name": "A", "index": None, "location": "loc"}, label="e1"))
    ex2 = st.alloc(HObj("ExTok", {"table": None, "name": "B", "index": None, "location": "loc"}, label="e2"))
    ex3 = st.alloc(HObj("ExTok", {"table": table(["r3"]), "name": "C", "index": None, "location": "loc"}, label="e3"))
    ex4 = st.alloc(HObj("ExTok", {"table": table([]), "name": "D", "index": None, "location": "loc"}, label="e4"))
    outline = st.alloc(HObj("OutlineTok", {"examples": st.alloc(HObj("list", kind="list", items=[ex1, ex2, ex3, ex4]))},
                            label="outline"))
    builder = st.alloc(HObj(ix.cls("behave.model:ScenarioOutlineBuilder"), {"annotation_schema": "x"}, label="builder"))
    # iterating a table token iterates its rows
    orig_iter = it.iter_values

    def iter_values(s, v, node):
        if isinstance(v, Ref) and s.obj(v).clsname() == "TableTok":
            return orig_iter(s, s.obj(v).fields["rows"], node)
        return orig_iter(s, v, node)
    it.iter_values = iter_values
    del stubs["TableTok.__iter__"]
    it.stubs = stubs
    st.freeze_base()
    outs = it.run(func, st, [outline], {}, self_val=builder)
    chk.absorb(it)
    chk.instance("B1")
    if len(outs) != 1 or outs[0][1] != "val":
        raise AnalysisError("build_scenarios not evaluable on tokens: %r" % ([(k, v) for _, k, v in outs][:2],))
    s, _, res = outs[0]
    items = s.obj(res).items if isinstance(res, Ref) else None
    got = [s.obj(x).fields["of"] for x in items] if items is not None else None
    want = [("e1", "r1"), ("e1", "r2"), ("e3", "r3")]
    if got == want:
        chk.ok("B1", {"examples": ["e1[r1,r2]", "e2[no table]", "e3[r3]", "e4[header only]"], "scenarios": got}, nontrivial_key="order")
    else:
        _fail(chk, "B1", func, "scenarios=%r" % (got,), "outline with examples e1[r1,r2], e2[no table], e3[r3], e4[header only] expands to %r, "
              "expected one scenario per row in order %r" % (got, want))
    # B4 (part): building clears the modified mark of every table it used
    chk.rule("B4", WHAT["B4"])
    chk.instance("B4")
    marks = [s.obj(s.obj(e).fields["table"]).fields.get("modified") for e in (ex1, ex3, ex4)]
    if marks == [False, False, False]:
        chk.ok("B4", {"build_scenarios": "clears table.modified"}, nontrivial_key="clear mark")
    else:
        _fail(chk, "B4", func, "modified marks after build=%r" % (marks,), "build_scenarios leaves table.modified=%r for the tables of e1[2 rows], e3[1 row], "
              "e4[header only]: the scenarios would be rebuilt on every access (run status, skip marks and selections lost)" % (marks,))


def check_step_substitution(chk, ix):
    chk.rule("B2", WHAT["B2"])
    chk.rule("B3", WHAT["B3"])
    func = ix.func("behave.model:ScenarioOutlineBuilder.make_step_for_row")
    writes = []

    def rec(st, ev):
        if ev[0] == "setattr" and ev[1] <= st.base_oid:
            writes.append((st, "attribute %s of the template step's %s" % (ev[3], st.heap[ev[1]].label)))
        if ev[0] in ("setitem",) and ev[1] <= st.base_oid:
            writes.append((st, "item of %s" % (st.heap[ev[1]].label,)))

    def deep(st, ref, memo):
        if not isinstance(ref, Ref):
            return ref
        if ref.oid in memo:
            return memo[ref.oid]
        o = st.obj(ref)
        n = HObj(o.cls, {}, kind=o.kind, label=(o.label or "") + " (copy)")
        nref = st.alloc(n)
        memo[ref.oid] = nref
        n.fields = {k: deep(st, v, memo) for k, v in o.fields.items()}
        if o.items is not None:
            n.items = [deep(st, x, memo) for x in o.items]
        return nref

    def deepcopy(it, st, args, kw, node):
        return [(st, "val", deep(st, args[0], {}))]

    def shallow(it, st, args, kw, node):
        o = st.obj(args[0])
        n = HObj(o.cls, dict(o.fields), kind=o.kind, label=(o.label or "") + " (shallow copy)")
        if o.items is not None:
            n.items = list(o.items)
        return [(st, "val", st.alloc(n))]

    def render(it, st, args, kw, node):
        a = [x for x in args if not isinstance(x, ClassVal)]
        return [(st, "val", ("rendered", a[0]))]

    def table_ctor(it, st, args, kw, node):
        n = HObj("TableTok", {"headings": args[0], "rows": kw.get("rows", args[1] if len(args) > 1 else None)}, label="new table")
        return [(st, "val", st.alloc(n))]
    stubs = {"@with": "transparent", "copy.deepcopy": deepcopy, "copy.copy": shallow,
             "ScenarioOutlineBuilder.render_template": render}
    it = Interp(ix, stubs=stubs, on_event=rec, name="make_step_for_row")
    # item writes into lists must be visible: wrap set_item
    orig_set_item = it.set_item

    def set_item(st, base, idx, v, node):
        if isinstance(base, Ref):
            it.emit(st, ("setitem", base.oid))
        return orig_set_item(st, base, idx, v, node)
    it.set_item = set_item
    orig_iter = it.iter_values

    def iter_values(s, v, node):
        if isinstance(v, Ref) and s.obj(v).clsname() == "TableTok":
            return orig_iter(s, s.obj(v).fields["rows"], node)
        return orig_iter(s, v, node)
    it.iter_values = iter_values

    class Cell(object):
        """a template text: replace() gives a marked text"""
        abs_type = "str"

        def __init__(self, name, done=False):
            self.name, self.done = name, done

        def __repr__(self):
            return "Cell(%s,%s)" % (self.name, self.done)

        def abs_truth(self):
            return True

        def abs_call(self, it_, st, name, args, kwargs, node):
            if name == "replace":
                return [(st, "val", Cell(self.name, True))]
            return [(st, "val", self)]
    st = State()
    st.frames = []
    hd = st.alloc(HObj("list", kind="list", items=[Cell("h1")], label="template table headings"))
    cells = st.alloc(HObj("list", kind="list", items=[Cell("c1")], label="template table row cells"))
    trow = st.alloc(HObj("RowTok", {"cells": cells}, open=True, label="template table row"))
    ttable = st.alloc(HObj("TableTok", {"headings": hd, "rows": st.alloc(HObj("list", kind="list", items=[trow], label="template table rows"))},
                           open=True, label="template step table"))
    step = st.alloc(HObj("StepTok", {"name": "step <x>", "text": "doc <x>", "table": ttable}, open=True, label="template step"))
    row = st.alloc(HObj("ExRow", {}, label="examples row"))
    it.stubs["ExRow.items"] = lambda it_, s, a, k, n: [(s, "val", (("x", "1"),))]
    st.freeze_base()
    outs = it.run(func, st, [step, row], {}, self_val=ClassVal(ix.cls("behave.model:ScenarioOutlineBuilder")))
    chk.absorb(it)
    chk.instance("B2")
    chk.instance("B3")
    good = [o for o in outs if o[1] == "val"]
    if len(good) != len(outs) or not good:
        raise AnalysisError("make_step_for_row not evaluable on tokens: %r" % ([(k, v) for _, k, v in outs][:2],))
    for (s, _, res) in good:
        o = s.obj(res)
        problems = []
        if not (isinstance(o.fields.get("name"), tuple) and o.fields["name"][0] == "rendered"):
            problems.append("step name is not rendered")
        if not (isinstance(o.fields.get("text"), tuple) and o.fields["text"][0] == "rendered"):
            problems.append("doc-string is not rendered")
        tb = o.fields.get("table")
        if isinstance(tb, Ref):
            to = s.obj(tb)
            hs = s.obj(to.fields["headings"]).items if isinstance(to.fields.get("headings"), Ref) else None
            if not hs or not all(isinstance(c, Cell) and c.done for c in hs):
                problems.append("table headings are not substituted")
            rws = s.obj(to.fields["rows"]).items if isinstance(to.fields.get("rows"), Ref) else None
            for r in rws or []:
                cs = s.obj(s.obj(r).fields["cells"]).items
                if not all(isinstance(c, Cell) and c.done for c in cs):
                    problems.append("table cells are not substituted")
            if not rws:
                problems.append("table rows lost")
        else:
            problems.append("step table lost")
        if problems:
            _fail(chk, "B2", func, "; ".join(sorted(set(problems))), "row step: " + "; ".join(sorted(set(problems))), s.path)
        else:
            chk.ok("B2", {"fields_substituted": ["name", "text", "table.headings", "table.rows[*].cells"]}, nontrivial_key="fields")
        # template untouched?
        tmpl_h = s.obj(hd).items
        tmpl_c = s.obj(cells).items
        touched = [c for c in tmpl_h + tmpl_c if isinstance(c, Cell) and c.done]
        shared = isinstance(tb, Ref) and (tb.oid <= s.base_oid or (isinstance(s.obj(tb).fields.get("headings"), Ref) and s.obj(tb).fields["headings"].oid <= s.base_oid))
        if touched or writes or shared:
            what = (writes[0][1] if writes else "template table %s" % ("cells/headings rewritten" if touched else "objects shared with the row step"))
            _fail(chk, "B3", func, "template mutated: %s" % what,
                  "substitution for one row writes into the template step (%s): later rows see the first row's values" % what, s.path)
        else:
            chk.ok("B3", {"template_step": "untouched", "row_step": "deep copy"}, nontrivial_key="deep")
    # the text-bearing fields of Step are exactly the ones handled
    stepc = ix.cls("behave.model:Step")
    init = stepc.methods.get("__init__")
    params = [a.arg for a in init.node.args.args[1:]]
    textual = [p for p in params if p in ("name", "text", "table") or p.endswith("_text")]
    extra = [p for p in params if p not in ("filename", "line", "keyword", "step_type", "name", "text", "table")]
    chk.instance("B2")
    if extra:
        _fail(chk, "B2", init, "new Step field(s) %s" % extra, "Step has constructor field(s) %s that the outline "
              "substitution does not know about" % extra)
    else:
        chk.ok("B2", {"step_text_fields": textual}, nontrivial_key="step fields")


def check_render_template(chk, ix, tier="quick"):
    """B6: ScenarioOutlineBuilder.render_template on concrete texts (constant folding of str.replace)."""
    chk.rule("B6", WHAT["B6"])
    bc = ix.cls("behave.model:ScenarioOutlineBuilder")
    f = bc.lookup("render_template")
    row = [("limit", "5"), ("state", "on"), ("name", "state")]
    params = [("examples.name", "E1"), ("row.id", "1.2")]
    texts = ["<limit>", "x > <limit>", "idle -> <state>", "no placeholder", "a <unknown> b", "<limit> and <state>", "<<limit>>", "a > b",
             "<limit", "limit>", "", "<name>", "-- <examples.name>@<row.id> <limit>", "x<limit>y<limit>z", ">> <state> <<", "<state>>"]
    # generated: every sequence of up to three pieces (thorough: all, quick: every 5th)
    pieces = ["", "x ", "> ", "<", "<limit>", "<state>", " y", ">", "<name>", "<row.id>"]
    gen = sorted({a + b + c for a in pieces for b in pieces for c in pieces} - set(texts))
    texts = texts + (gen if tier == "thorough" else gen[::5])

    def oracle(t, with_params):
        for k, v in row + (params if with_params else []):
            t = t.replace("<%s>" % k, v)
        return t
    it = Interp(ix, name="render_template")
    it.int_sat = 1000
    it.list_cap = 100
    for t in texts:
        for with_params in (False, True):
            st = State()
            st.frames = []
            r = st.alloc(HObj("dict", kind="dict", items=list(row), label="row"))
            args = [t, r] + ([st.alloc(HObj("dict", kind="dict", items=list(params), label="params"))] if with_params else [])
            outs = it.call_function(st, f, args, {}, None, self_val=ClassVal(bc) if f.kind == "classmethod" else None)
            chk.instance("B6")
            if len(outs) != 1 or outs[0][1] not in ("val",) or not isinstance(outs[0][2], str):
                raise AnalysisError("render_template not foldable on %r: %r" % (t, [(k, v) for _, k, v in outs][:3]))
            want = oracle(t, with_params)
            if outs[0][2] == want:
                chk.ok("B6", {"template": t, "row": dict(row), "rendered": want}, nontrivial_key=(t, with_params))
            else:
                _fail(chk, "B6", f, "%r -> %r" % (t, outs[0][2]), "the template text %r with row %r%s renders as %r; expected %r" % (
                    t, dict(row), " and params" if with_params else "", outs[0][2], want))
    chk.absorb(it)


def check_table_columns(chk, ix):
    """B7: Table column operations keep rows and table consistent (rows look their cells up through the headings)."""
    chk.rule("B7", WHAT["B7"])
    tc = ix.cls("behave.model:Table")
    rc = ix.cls("behave.model:Row")
    ops = [("add_column", ["c"]), ("add_column", ["c", ("x",)]), ("ensure_column_exists", ["c"]), ("ensure_column_exists", ["a"]),
           ("remove_column", ["a"]), ("remove_columns", [("a",)])]
    for name, args in ops:
        f = tc.lookup(name)
        if f is None:
            continue
        it = Interp(ix, name="Table." + name)
        it.int_sat = 1000
        it.list_cap = 100
        st = State()
        st.frames = []
        H = st.alloc(HObj("list", kind="list", items=["a", "b"], label="headings"))
        rows = []
        for i in range(2):
            cells = st.alloc(HObj("list", kind="list", items=["%d-a" % i, "%d-b" % i], label="cells"))
            from .abscall import construct as _construct
            o_ = _construct(it, st, ClassVal(rc), [H, cells], {"line": 4 + i}, None)
            if len(o_) != 1 or o_[0][1] != "val":
                raise AnalysisError("Row(...) not evaluable: %r" % ([(k, v) for _, k, v in o_][:2],))
            st = o_[0][0]
            st.wobj(o_[0][2]).label = "row%d" % i
            rows.append(o_[0][2])
        me = st.alloc(HObj(tc, {"headings": H, "rows": st.alloc(HObj("list", kind="list", items=rows)), "line": 3, "modified": False}, label="table"))
        cargs = [st.alloc(HObj("list", kind="list", items=list(a))) if isinstance(a, tuple) and name == "add_column" else a for a in args]
        # the rows have been used before (an outline was built from them): row.items() was asked once already
        ri = rc.lookup("items")
        if ri is None:
            raise AnalysisError("anchor missing: Row.items")
        for r in rows:
            o0 = it.call_function(st, ri, [], {}, None, self_val=r)
            if len(o0) != 1 or o0[0][1] != "val":
                raise AnalysisError("Row.items not evaluable: %r" % ([(k, v) for _, k, v in o0][:2],))
            st = o0[0][0]
        outs = it.call_function(st, f, cargs, {}, None, self_val=me)
        chk.absorb(it)
        chk.instance("B7")
        outs = [o for o in outs if not (o[1] == "raise" and o[2].internal == "assert")]
        if not outs or any(k != "val" for _, k, _ in outs):
            raise AnalysisError("Table.%s not evaluable on tokens: %r" % (name, [(k, v) for _, k, v in outs][:3]))
        problems = []
        th = None
        for (s2, _, _) in outs:
            def items(v, _s=s2):
                return list(_s.obj(v).items) if isinstance(v, Ref) and _s.obj(v).items is not None else v
            th = items(s2.obj(me).fields["headings"])
            for r in items(s2.obj(me).fields["rows"]):
                ro = s2.obj(r)
                rh, cells = items(ro.fields["headings"]), items(ro.fields["cells"])
                if rh != th:
                    problems.append("%s sees the headings %r, the table has %r" % (ro.label, rh, th))
                elif not isinstance(cells, list) or len(cells) != len(th):
                    problems.append("%s has the cells %r for the headings %r" % (ro.label, cells, th))
                else:
                    o1 = it.call_function(s2.fork(), ri, [], {}, None, self_val=r)
                    pairs = None
                    if len(o1) == 1 and o1[0][1] == "val":
                        try:
                            kind, seq = it.iter_values(o1[0][0], o1[0][2], None)
                            pairs = [tuple(x) if isinstance(x, tuple) else x for x in seq] if kind == "concrete" else None
                        except AnalysisError:
                            pairs = None
                    if pairs is None:
                        raise AnalysisError("Row.items() after Table.%s not evaluable" % name)
                    if pairs != list(zip(th, cells)):
                        problems.append("%s.items() gives %r, its headings and cells are %r" % (ro.label, pairs, list(zip(th, cells))))
        if not problems:
            chk.ok("B7", {"operation": "%s(%s)" % (name, ", ".join(map(repr, args))), "headings": th}, nontrivial_key=(name, repr(args)))
        else:
            _fail(chk, "B7", f, "%s%r: %s" % (name, tuple(args), problems[0]), "after Table.%s%r %s: placeholders of the changed column "
                  "are (not) substituted for rows that existed before the call" % (name, tuple(args), "; ".join(problems)))


def check_table_modified(chk, ix):
    chk.rule("B4", WHAT["B4"])
    tc = ix.cls("behave.model:Table")
    mutating_calls = {"append", "insert", "extend", "remove", "pop", "clear", "sort", "reverse"}
    for name, f in sorted(tc.methods.items()):
        if name.startswith("__") and name != "__init__":
            continue
        mutates = False
        for n in ast.walk(f.node):
            if isinstance(n, (ast.Assign, ast.AugAssign)):
                for t in (n.targets if isinstance(n, ast.Assign) else [n.target]):
                    u = unparse(t)
                    if u in ("self.rows", "self.headings") or u.startswith(("self.rows[", "self.headings[")) or ".cells" in u:
                        mutates = True
            elif isinstance(n, ast.Delete):
                for t in n.targets:
                    u = unparse(t)
                    if "headings" in u or "rows" in u or "cells" in u:
                        mutates = True
            elif isinstance(n, ast.Call) and isinstance(n.func, ast.Attribute) and n.func.attr in mutating_calls:
                u = unparse(n.func.value)
                if u in ("self.rows", "self.headings") or u.endswith(".cells"):
                    mutates = True
        if not mutates:
            continue
        chk.instance("B4")
        top = any(isinstance(s, ast.Assign) and unparse(s.targets[0]) == "self.modified" and isinstance(s.value, ast.Constant)
                  and s.value.value is True for s in f.node.body)
        if top:
            chk.ok("B4", {"Table method": name, "marks_modified": True}, nontrivial_key=name)
        else:
            _fail(chk, "B4", f, "Table.%s does not mark modified" % name,
                  "Table.%s changes rows/headings/cells without (unconditionally) setting modified=True: an outline "
                  "whose examples table was changed this way is not re-expanded" % name)
    # scenarios property: rebuild iff modified
    oc = ix.cls("behave.model:ScenarioOutline")
    prop = oc.lookup("scenarios")
    built = {"n": 0}
    for modified in (True, False):
        def build(it, st, args, kw, node):
            st.ghost["built"] = True
            return [(st, "val", st.alloc(HObj("list", kind="list", items=[], label="fresh scenarios")))]
        stubs = {"ScenarioOutlineBuilder.build_scenarios": build,
                 "ScenarioOutline._is_any_example_table_modified": lambda it, st, a, k, n, _m=modified: [(st, "val", _m)],
                 "ScenarioOutline._expected_scenarios_count": lambda it, st, a, k, n: [(st, "val", Top("expected-count", True))]}
        it = Interp(ix, stubs=stubs, name="ScenarioOutline.scenarios")
        st = State()
        st.frames = []
        old = st.alloc(HObj("list", kind="list", items=None, label="old scenarios"))
        st.obj(old).count = GE2
        me = st.alloc(HObj(oc, {"_scenarios": old, "examples": Top("examples", True), "annotation_schema": "x"}, open=True, label="outline"))
        st.freeze_base()
        outs = it.run(prop, st, [], {}, self_val=me)
        chk.absorb(it)
        chk.instance("B4")
        for (s, k, v) in outs:
            if k != "val":
                raise AnalysisError("ScenarioOutline.scenarios raised %r" % (v,))
            rebuilt = bool(s.ghost.get("built")) and isinstance(v, Ref) and v.oid != old.oid
            if rebuilt == modified:
                chk.ok("B4", {"table_modified": modified, "rebuilt": rebuilt}, nontrivial_key=("rebuild", modified))
            else:
                _fail(chk, "B4", prop, "modified=%s rebuilt=%s" % (modified, rebuilt),
                      "ScenarioOutline.scenarios with an examples table modified=%s: scenarios %s" % (
                          modified, "rebuilt" if rebuilt else "NOT rebuilt (the old expansion is returned)"), s.path)
    chk.require_instances("B4", 5)


WHAT["B8"] = "tags rendered from a row (Tag.make_name) keep every alphanumeric character of the cell, unicode included; blanks become '_', quotes and other punctuation outside the allowed set disappear"


def check_tag_names(chk, ix):
    """B8: Tag.make_name constant-folded on cell values (it turns '<column>' tags into tag names)."""
    chk.rule("B8", WHAT["B8"])
    tc = ix.cls("behave.model:Tag")
    f = tc.lookup("make_name")
    lc = tc.lookup_const("allowed_chars")
    allowed = ix.fold(lc[1], lc[0].module) if lc else "._-=:,;()"
    lq = tc.lookup_const("quoting_chars")
    quoting = tuple(ix.fold(lq[1], lq[0].module)) if lq else ("'", '"', "<", ">")

    def oracle(text):
        out = []
        for ch in text:
            if ch.isalnum() or ch in allowed:
                out.append(ch)
            elif ch.isspace():
                out.append("_")
        return "".join(out)
    samples = ["plain", "two words", "Zürich", "København", "東京", "a.b-c=d:e", 'say "hi"', "<value>", "x/y&z", "tab\there", "", "café au lait", "1.2.3", "(a,b);c"]
    it = Interp(ix, name="Tag.make_name")
    it.fold_regex = True
    it.int_sat = 1000
    it.list_cap = 1000
    # row tags are made with unescape=True: the two-character sequences backslash-t / backslash-n stand for a tab / a newline
    cases = [(t_, False) for t_ in samples] + [(t_, True) for t_ in ("plain", "Zürich", "東京 tower", "café", "a\\tb", "line\\nbreak", "München\\tNord")]
    for text, unescape in cases:
        st = State()
        st.frames = []
        outs = it.call_function(st, f, [text], {"unescape": True} if unescape else {}, None, self_val=ClassVal(tc))
        chk.instance("B8")
        if len(outs) != 1 or outs[0][1] != "val" or not isinstance(outs[0][2], str):
            raise AnalysisError("Tag.make_name not foldable on %r: %r" % (text, [(k, v) for _, k, v in outs][:2]))
        want = oracle(text.replace("\\t", "\t").replace("\\n", "\n") if unescape else text)
        if outs[0][2] == want:
            chk.ok("B8", {"cell": text, "unescape": unescape, "tag name": want}, nontrivial_key=(text, unescape))
        else:
            _fail(chk, "B8", f, "%r -> %r" % (text, outs[0][2]), "Tag.make_name(%r) gives %r; keeping alphanumerics (any script) and the allowed punctuation, "
                  "blanks as '_', gives %r - a row tag built from this cell no longer matches the value shown in the scenario" % (text, outs[0][2], want))
    chk.absorb(it)


WHAT["B9"] = "row tags: every '<placeholder>' of an outline tag is rendered from the row's cells AND from the row parameters (row.id, row.index, examples.name, examples.index); tags with unknown placeholders are dropped"


def check_row_tags_concrete(chk, ix, rule="B9"):
    """make_row_tags constant-folded: parametrised outline tags use the same placeholder sources as names and steps."""
    chk.rule(rule, WHAT["B9"])
    bc = ix.cls("behave.model:ScenarioOutlineBuilder")
    f = bc.lookup("make_row_tags")
    it = Interp(ix, name="make_row_tags")
    it.fold_regex = True
    it.int_sat = 1000
    it.list_cap = 100
    cases = [(["fixed", "city.<city>", "row.<row.id>", "ex.<examples.name>", "unknown.<nope>", "n<row.index>.<city>"],
              [("city", "Paris")], [("row.id", "1.2"), ("row.index", "2"), ("examples.name", "E1"), ("examples.index", "1")],
              ["fixed", "city.Paris", "row.1.2", "ex.E1", "n2.Paris"]),
             (["plain"], [("city", "Rome")], [], ["plain"]),
             ([], [("city", "Rome")], [("row.id", "1.1")], [])]
    for tags, row, params, want in cases:
        st = State()
        st.frames = []
        args = [st.alloc(HObj("list", kind="list", items=list(tags))), st.alloc(HObj("dict", kind="dict", items=list(row), label="row")),
                st.alloc(HObj("dict", kind="dict", items=list(params), label="params"))]
        outs = it.call_function(st, f, args, {}, None, self_val=ClassVal(bc))
        chk.instance(rule)
        if len(outs) != 1 or outs[0][1] != "val":
            raise AnalysisError("make_row_tags not foldable: %r" % ([(k, v) for _, k, v in outs][:3],))
        v = outs[0][2]
        got = list(outs[0][0].obj(v).items) if isinstance(v, Ref) and outs[0][0].obj(v).items is not None else v
        if got == want:
            chk.ok(rule, {"outline tags": tags, "row": dict(row), "params": dict(params), "row tags": got}, nontrivial_key=repr(tags))
        else:
            _fail(chk, rule, f, "%r -> %r" % (tags, got), "the outline tags %r with row %r and row parameters %r give the row tags %r; expected %r" % (
                tags, dict(row), dict(params), got, want))
    chk.absorb(it)



WHAT["B10"] = "the name schema set in the configuration is the one the outline builder formats row names with"


def check_configured_schema_reaches_builder(chk, ix):
    """B10: Configuration.setup_model() evaluated with a configured scenario_outline_annotation_schema, then
    ScenarioOutline.scenarios on an outline that has to build its rows: the builder is created with that schema."""
    chk.rule("B10", WHAT["B10"])
    cc = ix.cls("behave.configuration:Configuration")
    oc = ix.cls("behave.model:ScenarioOutline")
    f = cc.lookup("setup_model")
    prop = oc.lookup("scenarios")
    if f is None or prop is None:
        raise AnalysisError("anchor missing: Configuration.setup_model / ScenarioOutline.scenarios")
    for schema, want in (("  {name} [{row.id}]  ", "{name} [{row.id}]"), (None, None)):
        got = []

        def builder_ctor(i, s_, a, k, n):
            arg = a[0] if a else k.get("annotation_schema")
            got.append(arg)
            return [(s_, "val", s_.alloc(HObj("BuilderTok", {}, open=True, label="builder")))]
        it = Interp(ix, stubs={"ScenarioOutlineBuilder": builder_ctor, "BuilderTok.build_scenarios": lambda i, s_, a, k, n: [(s_, "val", s_.alloc(HObj("list", kind="list", items=[])))],
                               "ScenarioOutline._is_any_example_table_modified": lambda i, s_, a, k, n: [(s_, "val", True)]},
                    name="setup_model -> ScenarioOutline.scenarios")
        it.int_sat = 100
        st = State()
        st.frames = []
        cfg = st.alloc(HObj(cc, {"scenario_outline_annotation_schema": schema}, label="config"))
        outs = it.call_function(st, f, [], {}, None, self_val=cfg)
        if len(outs) != 1 or outs[0][1] != "val":
            raise AnalysisError("Configuration.setup_model not evaluable: %r" % [(k, v) for _, k, v in outs][:3])
        cur = outs[0][0]
        outline = cur.alloc(HObj(oc, {"_scenarios": cur.alloc(HObj("list", kind="list", items=[])), "examples": cur.alloc(HObj("list", kind="list", items=[]))}, label="outline"))
        outs = it.call_function(cur, prop, [], {}, None, self_val=outline)
        chk.absorb(it)
        chk.instance("B10")
        if len(outs) != 1 or outs[0][1] != "val" or len(got) != 1:
            raise AnalysisError("ScenarioOutline.scenarios not evaluable after setup_model: %r / %r" % ([(k, v) for _, k, v in outs][:3], got))
        default = ix.fold(ix.cls("behave.model:ScenarioOutlineBuilder").lookup_const("annotation_schema")[1], ix.module("behave.model"))
        expect = want if want is not None else default
        if got[0] == expect or (want is None and got[0] is None):
            chk.ok("B10", {"configured schema": schema, "builder created with": got[0]}, nontrivial_key=repr(schema))
        else:
            chk.fail(Finding("B10", f.fullname, "configured %r -> builder gets %r" % (schema, got[0]),
                             "with scenario_outline_annotation_schema = %r in the configuration, ScenarioOutline.scenarios creates its builder with %r; "
                             "expected %r: the configured name schema is ignored, row scenarios get the default names" % (schema, got[0], expect),
                             file=f.file, line=f.lineno, stmt="def setup_model"))


WHAT["B11"] = ("generated scenario names: placeholders of the outline title AND of the Examples title are rendered from the row, and the "
               "name schema is filled with the rendered titles ({name}, {examples.name}, {row.id}, {row.index}, {examples.index})")


def check_scenario_names_concrete(chk, ix):
    """B11: ScenarioOutlineBuilder.make_scenario_name evaluated (render_template included) for several name schemas on a row <a>=X."""
    chk.rule("B11", WHAT["B11"])
    bc = ix.cls("behave.model:ScenarioOutlineBuilder")
    f = bc.lookup("make_scenario_name")
    if f is None:
        raise AnalysisError("anchor missing: ScenarioOutlineBuilder.make_scenario_name")
    cases = [
        ("{name} -- @{row.id} {examples.name}", "Buy <a>", "Shop <a>", "Buy X -- @1.2 Shop X"),
        ("{name} -- @{row.id} {examples.name}", "Plain", "", "Plain -- @1.2 "),
        ("{name}:{examples.index}/{row.index}", "T <a><b>", "E", "T XY:1/2"),
        ("{examples.name}|{name}", "no placeholder", "<b>-<a>", "Y-X|no placeholder"),
    ]
    for schema, title, ex_name, want in cases:
        it = Interp(ix, name="make_scenario_name")
        it.int_sat = 100
        it.list_cap = 100
        st = State()
        st.frames = []
        me = st.alloc(HObj(bc, {"annotation_schema": schema}, label="builder"))
        ex = st.alloc(HObj("ExamplesTok", {"name": ex_name, "index": 1}, label="examples"))

        def row_items(it_, st_, a, k, n):
            return [(st_, "val", (("a", "X"), ("b", "Y")))]
        it.stubs["RowTok.items"] = row_items
        row = st.alloc(HObj("RowTok", {"id": "1.2", "index": 2}, label="row"))
        try:
            # the placeholders build_scenarios hands over (texts), as make_scenario_for passes them on
            params = st.alloc(HObj("dict", kind="dict", items=[("examples.name", ex_name), ("examples.index", "1"), ("row.index", "2"), ("row.id", "1.2")]))
            outs = it.call_function(st, f, [title, ex, row, params], {}, None, self_val=me)
        except AnalysisError as e:
            raise AnalysisError("make_scenario_name not evaluable (%r): %s" % (schema, e))
        chk.absorb(it)
        chk.instance("B11")
        if len(outs) != 1 or outs[0][1] != "val" or not isinstance(outs[0][2], str):
            raise AnalysisError("make_scenario_name(%r, %r) under %r does not fold to a string: %r" % (title, ex_name, schema, [(k, v) for _, k, v in outs][:2]))
        got = outs[0][2]
        if got == want:
            chk.ok("B11", {"schema": schema, "outline": title, "examples": ex_name, "name": got}, nontrivial_key=(schema, title))
        else:
            chk.fail(Finding("B11", f.fullname, "%r / %r under %r -> %r" % (title, ex_name, schema, got),
                             "outline %r, Examples %r, row <a>=X <b>=Y (row.id 1.2, row.index 2, examples.index 1), name schema %r: the generated name is %r, "
                             "expected %r" % (title, ex_name, schema, got, want), file=f.file, line=f.lineno, stmt="def make_scenario_name"))
    chk.require_instances("B11", 4)
