# -*- coding: utf-8 -*-
"""C09 tag selection with inheritance (and the name-selection truth tables used by C10).

  G1  effective_tags = own tags + the parent's effective tags (outline: own minus parametrised)
  G2  every insertion of a child sets .parent to the container / template
  G3  row scenario tags = rendered template tags followed by the Examples block's tags
  G4  Scenario.should_run = not should_skip and (no config or (tags selected and name selected))
  G5  selection consults effective_tags; container/outline 'own match or any child'
  B3  the outline builder writes only to objects it created (template immutability)
"""
from __future__ import annotations

import ast

from .index import AnalysisError, ClassInfo, EnumVal
from .values import Top, HObj, Ref, Exc, State, ClassVal, AbsSeq, GE2
from .absint import Interp
from .monitors import MonitorSet, Recorder
from .report import Finding

WHAT = {
    "G1": "effective_tags = own tags plus the parent's effective tags, recursively (outline: without parametrised tags)",
    "G2": "every insertion of a child (add_scenario, add_rule, add_background, outline row) sets its parent",
    "G3": "row scenario tags = rendered template tags + Examples block tags",
    "G4": "Scenario.should_run truth table: not should_skip and (no config or (tags and name))",
    "G5": "selection consults effective_tags; containers and outlines: own match or any child's",
    "B2": "row scenario located at the row's own line",
    "B3": "the outline builder mutates only objects it created itself (template, examples and their lists stay untouched apart from bookkeeping indices)",
}


def _fail(chk, rule, func, witness, text, path=()):
    chk.fail(Finding(rule, func.fullname, witness, text, file=func.file, line=func.lineno, stmt="def " + func.name,
                     path=list(path)))


def _set_items(st, v):
    if isinstance(v, (set, frozenset)):
        return set(v)
    if isinstance(v, Ref):
        o = st.obj(v)
        if o.kind in ("set", "list") and o.items is not None:
            return set(o.items)
    return None


def check_effective_tags(chk, ix):
    chk.rule("G1", WHAT["G1"])
    it = Interp(ix, stubs={"@with": "transparent"}, name="effective_tags")
    for spec, own, want in (("behave.model_core:TagAndStatusStatement", ("own",), {"own", "p1", "gp"}),
                            ("behave.model:ScenarioOutline", ("own", "x<param>"), {"own", "p1", "gp"}),
                            ("behave.model:Scenario", ("own",), {"own", "p1", "gp"}),
                            ("behave.model:Rule", ("own",), {"own", "p1", "gp"})):
        ci = ix.cls(spec)
        prop = ci.lookup("effective_tags")
        if prop is None:
            raise AnalysisError("anchor missing: %s.effective_tags" % spec)
        st = State()
        st.frames = []
        base = ix.cls("behave.model_core:TagAndStatusStatement")
        gp = st.alloc(HObj(base, {"tags": ("gp",), "parent": None}, label="grandparent"))
        par = st.alloc(HObj(base, {"tags": ("p1",), "parent": gp}, label="parent"))
        me = st.alloc(HObj(ci, {"tags": own, "parent": par}, label="element"))
        outs = it.call_function(st, prop, [], {}, None, self_val=me)
        chk.instance("G1")
        if len(outs) != 1 or outs[0][1] != "val":
            raise AnalysisError("%s.effective_tags not evaluable: %r" % (ci.name, outs))
        got = _set_items(outs[0][0], outs[0][2])
        if got is None:
            raise AnalysisError("%s.effective_tags result not concrete" % ci.name)
        if got == want:
            chk.ok("G1", {"class": ci.name, "own": list(own), "effective": sorted(got)}, nontrivial_key=spec)
        else:
            _fail(chk, "G1", prop, "%s: %s" % (ci.name, sorted(map(str, got))),
                  "%s.effective_tags of an element tagged %s under parents tagged p1 / gp is %s, expected %s" % (
                      ci.name, list(own), sorted(map(str, got)), sorted(want)))
        # an untagged ancestor in between does not cut the chain
        st3 = State()
        st3.frames = []
        gp3 = st3.alloc(HObj(base, {"tags": ("gp",), "parent": None}, label="grandparent"))
        par3 = st3.alloc(HObj(base, {"tags": (), "parent": gp3}, label="untagged parent"))
        me3 = st3.alloc(HObj(ci, {"tags": own, "parent": par3}, label="element"))
        outs = it.call_function(st3, prop, [], {}, None, self_val=me3)
        got = _set_items(outs[0][0], outs[0][2]) if len(outs) == 1 and outs[0][1] == "val" else None
        chk.instance("G1")
        if got == {"own", "gp"}:
            chk.ok("G1", {"class": ci.name, "own": list(own), "parent": [], "grandparent": ["gp"], "effective": sorted(got)}, nontrivial_key=spec + ":untagged-parent")
        else:
            _fail(chk, "G1", prop, "%s under an untagged parent: %r" % (ci.name, sorted(map(str, got)) if got is not None else None),
                  "%s.effective_tags of an element tagged %s under an UNTAGGED parent whose own parent is tagged gp is %r, expected "
                  "['gp', 'own']: inheritance stops at the untagged ancestor" % (ci.name, list(own), sorted(map(str, got)) if got is not None else None))
        # no parent
        st2 = State()
        st2.frames = []
        me2 = st2.alloc(HObj(ci, {"tags": ("own",), "parent": None}, label="element"))
        outs = it.call_function(st2, prop, [], {}, None, self_val=me2)
        got = _set_items(outs[0][0], outs[0][2]) if len(outs) == 1 and outs[0][1] == "val" else None
        chk.instance("G1")
        if got == {"own"}:
            chk.ok("G1", None, nontrivial_key=spec + ":noparent")
        else:
            _fail(chk, "G1", prop, "%s without parent: %r" % (ci.name, got), "effective_tags without parent is %r" % (got,))
    chk.absorb(it)
    chk.require_instances("G1", 12)


def check_parent_links(chk, ix):
    chk.rule("G2", WHAT["G2"])
    it = Interp(ix, stubs={"@with": "transparent",
                           "Background": lambda i, s, a, k, n: [(s, "val", s.alloc(HObj("BgTok", {"parent": None, "inherited_background": None, "use_inheritance": True}, open=True)))]},
                name="parent links")
    feat_c, rule_c = ix.cls("behave.model:Feature"), ix.cls("behave.model:Rule")
    cases = [(feat_c, "add_scenario"), (rule_c, "add_scenario"), (feat_c, "add_rule"), (feat_c, "add_background"),
             (rule_c, "add_background")]
    for ci, meth in cases:
        f = ci.lookup(meth)
        if f is None:
            raise AnalysisError("anchor missing: %s.%s" % (ci.name, meth))
        st = State()
        st.frames = []

        def lst():
            return st.alloc(HObj("list", kind="list", items=[]))
        feature = st.alloc(HObj(feat_c, {"background": None, "scenarios": lst(), "run_items": lst(), "rules": lst(),
                                         "tags": (), "parent": None}, label="feature"))
        me = feature if ci is feat_c else st.alloc(HObj(rule_c, {
            "background": None, "scenarios": lst(), "run_items": lst(), "feature": feature, "parent": feature,
            "_use_background_inheritance": True, "tags": ()}, label="rule"))
        child = st.alloc(HObj("ChildTok", {"parent": None, "feature": None, "background": None, "filename": "f", "line": 1},
                              open=True, label="child"))
        outs = it.call_function(st, f, [child], {}, None, self_val=me)
        chk.instance("G2")
        bad = [o for o in outs if o[1] != "val"]
        if bad:
            raise AnalysisError("%s.%s not evaluable: %r" % (ci.name, meth, bad[:1]))
        for (s, _, _) in outs:
            par = s.obj(child).fields.get("parent")
            if isinstance(par, Ref) and par.oid == me.oid:
                chk.ok("G2", {"method": "%s.%s" % (ci.name, meth), "child.parent": "the container"},
                       nontrivial_key=(ci.name, meth))
            else:
                _fail(chk, "G2", f, "%s.%s leaves parent=%r" % (ci.name, meth, par),
                      "%s.%s does not set the child's parent to the container: tag inheritance breaks for it" % (ci.name, meth),
                      s.path)
    chk.absorb(it)
    chk.require_instances("G2", 5)


def check_should_run_table(chk, ix):
    """G4 (+ the container variant): explored over should_skip x config x tags x name."""
    chk.rule("G4", WHAT["G4"])
    for spec, has_name in (("behave.model:Scenario", True), ("behave.model:ScenarioOutline", True),
                           ("behave.model:Feature", False), ("behave.model:Rule", False)):
        ci = ix.cls(spec)
        f = ci.lookup("should_run")
        if f is None:
            raise AnalysisError("anchor missing: %s.should_run" % spec)

        def sel(tag, key):
            def stub(it, st, args, kw, node):
                s2 = st.fork()
                st.ghost[key] = True
                s2.ghost[key] = False
                return [(st, "val", True), (s2, "val", False)]
            return stub
        stubs = {"TagAndStatusStatement.should_run_with_tags": sel("tags", "tags"),
                 "ScenarioContainer.should_run_with_tags": sel("tags", "tags"),
                 "ScenarioOutline.should_run_with_tags": sel("tags", "tags"),
                 "Scenario.should_run_with_name_select": sel("name", "name"),
                 "ScenarioOutline.should_run_with_name_select": sel("name", "name")}
        it = Interp(ix, stubs=stubs, name=ci.name + ".should_run")
        for with_config in (True, False):
            for skip in (True, False):
                st = State()
                st.frames = []
                cfg = st.alloc(HObj("ConfigStub", {"tag_expression": Top("te", True)}, open=True)) if with_config else None
                me = st.alloc(HObj(ci, {"should_skip": skip}, label="element"))
                st.freeze_base()
                outs = it.run(f, st, [cfg] if with_config else [], {}, self_val=me)
                chk.instance("G4")
                for (s, k, v) in outs:
                    if k != "val":
                        raise AnalysisError("%s.should_run raised %r" % (ci.name, v))
                    tags, name = s.ghost.get("tags"), s.ghost.get("name")
                    want = (not skip) and ((not with_config) or ((tags is not False) and (name is not False or not has_name)))
                    # a selector that was not consulted must not have been needed
                    consulted_ok = True
                    if with_config and not skip:
                        if tags is None:
                            consulted_ok = False
                        if has_name and tags is True and name is None:
                            consulted_ok = False
                    tv = it.truth(s.fork(), v)
                    got = tv[0][1] if len(tv) == 1 else None
                    if got is want and consulted_ok:
                        chk.ok("G4", {"class": ci.name, "should_skip": skip, "config": with_config,
                                      "tags": tags, "name": name, "should_run": got},
                               nontrivial_key=(spec, skip, with_config, tags, name))
                    else:
                        _fail(chk, "G4", f, "%s skip=%s config=%s tags=%s name=%s -> %s" % (ci.name, skip, with_config, tags, name, got),
                              "%s.should_run gives %s for should_skip=%s, config=%s, tags selected=%s, name selected=%s "
                              "(expected %s%s)" % (ci.name, got, skip, with_config, tags, name, want,
                                                   "" if consulted_ok else "; a selector was not consulted"), s.path)
        chk.absorb(it)
    chk.require_instances("G4", 16)


def check_tag_consultation(chk, ix):
    chk.rule("G5", WHAT["G5"])
    # (a) element level: the expression is checked against effective_tags
    marker = ("effective-tags-marker",)
    got = {}

    def te_check(it, st, args, kw, node):
        st.ghost["checked_with"] = "effective" if args[1:] and args[1] == marker else repr(args[1:])
        return [(st, "val", Top("bool:sel", True, domain=(True, False)))]
    base = ix.cls("behave.model_core:TagAndStatusStatement")
    f = base.lookup("should_run_with_tags")
    it = Interp(ix, stubs={"TagExprStub.check": te_check}, attr_stubs={
        "TagAndStatusStatement.effective_tags": lambda i, s, b, n: [(s, "val", marker)]}, name="should_run_with_tags")
    for spec in ("behave.model:Scenario", "behave.model:Feature", "behave.model:Rule", "behave.model:ScenarioOutline"):
        ci = ix.cls(spec)
        f = ci.lookup("should_run_with_tags")
        st = State()
        st.frames = []
        te = st.alloc(HObj("TagExprStub", {}, label="tag_expression"))

        def child_factory(interp, s):
            out = []
            for val in (True, False):
                s2 = s.fork()
                c = s2.alloc(HObj("ChildStub", {"sel": val}, label="child"))
                if val:
                    s2.ghost["child_selected"] = True
                out.append((s2, c, "child selected=%s" % val))
            return out
        seq = AbsSeq("children", child_factory)
        lst = HObj("list", kind="list", items=None, label="children")
        lst.base = "children"
        lst.fields["@seq"] = seq
        lref = st.alloc(lst)
        me = st.alloc(HObj(ci, {"run_items": lref, "tags": ("t",), "parent": None,
                                "_scenarios": st.alloc(HObj("list", kind="list", items=[], label="row cache (not built yet)"))}, label="element"))
        it.stubs["ChildStub.should_run_with_tags"] = lambda i, s, a, k, n: [(s, "val", s.obj(a[0]).fields["sel"])]
        it.attr_stubs["ScenarioOutline.scenarios"] = lambda i, s, b, n: [(s, "val", seq)]
        st.freeze_base()
        outs = it.run(f, st, [te], {}, self_val=me)
        chk.instance("G5")
        is_container = ci.name in ("Feature", "Rule", "ScenarioOutline")
        for (s, k, v) in outs:
            if k != "val":
                raise AnalysisError("%s.should_run_with_tags raised %r" % (ci.name, v))
            cw = s.ghost.get("checked_with")
            own = None
            for o in s.heap.values():
                pass
            tv = it.truth(s.fork(), v)
            got = tv[0][1] if len(tv) == 1 else None
            child_sel = bool(s.ghost.get("child_selected"))
            exhausted = "#iter:children" not in s.ghost
            if cw != "effective":
                _fail(chk, "G5", f, "%s checks %s" % (ci.name, cw),
                      "%s.should_run_with_tags evaluates the tag expression on %s instead of the effective (inherited) tags" % (ci.name, cw), s.path)
                continue
            # own decision is in the path notes; derive from result + children
            if is_container:
                if got is True or (got is False and not child_sel):
                    chk.ok("G5", {"class": ci.name, "result": got, "some_child_selected": child_sel},
                           nontrivial_key=(spec, got, child_sel))
                else:
                    _fail(chk, "G5", f, "%s result=%s child_selected=%s" % (ci.name, got, child_sel),
                          "%s.should_run_with_tags returns %s although a child is selected" % (ci.name, got), s.path)
            else:
                chk.ok("G5", {"class": ci.name, "checks": "effective_tags"}, nontrivial_key=(spec, got))
        # containers: a False result requires all children examined; True requires own or a selected child
    # (b) an outline whose rows are not built yet (row cache empty): a selected row still selects the outline
    oc = ix.cls("behave.model:ScenarioOutline")
    fo = oc.lookup("should_run_with_tags")
    for rows in ((False, True), (False, False), (True,)):
        st = State()
        st.frames = []
        te = st.alloc(HObj("TagExprStub", {}, label="tag_expression"))
        toks = [st.alloc(HObj("ChildStub", {"sel": r}, label="row")) for r in rows]
        rowlist = st.alloc(HObj("list", kind="list", items=toks, label="rows (built on demand)"))
        it2 = Interp(ix, stubs={"TagExprStub.check": lambda i, s, a, k, n: [(s, "val", False)],
                                "ChildStub.should_run_with_tags": lambda i, s, a, k, n: [(s, "val", s.obj(a[0]).fields["sel"])]},
                     attr_stubs={"TagAndStatusStatement.effective_tags": lambda i, s, b, n: [(s, "val", marker)],
                                 "ScenarioOutline.scenarios": lambda i, s, b, n: [(s, "val", rowlist)]}, name="outline.should_run_with_tags")
        me = st.alloc(HObj(oc, {"tags": ("t",), "parent": None,
                                "_scenarios": st.alloc(HObj("list", kind="list", items=[], label="row cache (not built yet)"))}, label="outline"))
        outs = it2.call_function(st, fo, [te], {}, None, self_val=me)
        chk.absorb(it2)
        chk.instance("G5")
        got = outs[0][2] if len(outs) == 1 and outs[0][1] == "val" else None
        if got is any(rows):
            chk.ok("G5", {"class": "ScenarioOutline", "own_tags_selected": False, "rows_selected": list(rows), "result": got}, nontrivial_key=("outline-rows", rows))
        else:
            _fail(chk, "G5", fo, "outline rows=%s (cache empty) -> %r" % (list(rows), got),
                  "ScenarioOutline.should_run_with_tags with rows selected %s (rows not built yet) returns %r, expected %s: the "
                  "outline (and the hooks of its feature/rule) is decided without looking at its rows" % (list(rows), got, any(rows)))
    chk.absorb(it)
    chk.require_instances("G5", 7)


def check_container_children_concrete(chk, ix, rule="G5"):
    """G5 (c): a feature whose only selected scenario lives inside a rule is selected - the children that count are ALL its
    run items (scenarios, outlines and rules), not the direct scenarios alone.  Concrete children, sibling lists present."""
    chk.rule(rule, WHAT["G5"])
    fc = ix.cls("behave.model:Feature")
    f = fc.lookup("should_run_with_tags")
    for placement in ("scenario inside a rule", "direct scenario", "nowhere"):
        st = State()
        st.frames = []
        te = st.alloc(HObj("TagExprStub", {}, label="tag_expression"))
        direct = st.alloc(HObj("ChildStub", {"sel": placement == "direct scenario"}, label="direct scenario"))
        rule_ = st.alloc(HObj("ChildStub", {"sel": placement == "scenario inside a rule"}, label="rule"))

        def lst(items, label):
            return st.alloc(HObj("list", kind="list", items=list(items), label=label))
        me = st.alloc(HObj(fc, {"run_items": lst([direct, rule_], "run_items"), "scenarios": lst([direct], "scenarios (direct children)"),
                                "rules": lst([rule_], "rules"), "tags": (), "parent": None, "background": None}, label="feature"))
        it = Interp(ix, stubs={"TagExprStub.check": lambda i, s, a, k, n: [(s, "val", False)],
                               "ChildStub.should_run_with_tags": lambda i, s, a, k, n: [(s, "val", s.obj(a[0]).fields["sel"])],
                               "ScenarioContainer.walk_scenarios": lambda i, s, a, k, n: [(s, "val", lst([direct], "walk"))]},
                    attr_stubs={"TagAndStatusStatement.effective_tags": lambda i, s, b, n: [(s, "val", ())]}, name="Feature.should_run_with_tags")
        outs = it.call_function(st, f, [te], {}, None, self_val=me)
        chk.absorb(it)
        chk.instance(rule)
        if len(outs) != 1 or outs[0][1] != "val" or not isinstance(outs[0][2], bool):
            raise AnalysisError("Feature.should_run_with_tags not evaluable on concrete children: %r" % [(k, v) for _, k, v in outs][:3])
        want = placement != "nowhere"
        if outs[0][2] is want:
            chk.ok(rule, {"selected": placement, "feature selected": want}, nontrivial_key=("concrete", placement))
        else:
            _fail(chk, rule, f, "selected %s -> %s" % (placement, outs[0][2]),
                  "a feature whose own tags do not match and whose selected scenario is %s answers should_run_with_tags = %s, expected %s "
                  "(a feature runs - hooks and all - exactly when something inside it is selected)" % (placement, outs[0][2], want), outs[0][0].path)


def check_builder_effects(chk, ix, rules=("B3", "G3", "G2")):
    """make_scenario_for on tokens: what it hands to Scenario(...), and what it mutates."""
    for r in rules:
        chk.rule(r, WHAT[r])
    func = ix.func("behave.model:ScenarioOutlineBuilder.make_scenario_for")
    captured = []
    muts = []

    def rec(st, ev):
        if ev[0] in ("append", "extend"):
            if ev[1] <= st.base_oid:
                muts.append((st, "%s() on %s" % (ev[0], ev[2] or "a pre-existing list")))
        elif ev[0] == "setattr" and ev[1] <= st.base_oid:
            lab = st.heap[ev[1]].label if ev[1] in st.heap else "?"
            if not (lab in ("example", "row") and ev[3] in ("index", "id")):
                muts.append((st, "attribute %s of %s written" % (ev[3], lab)))

    def scenario_ctor(it, st, args, kw, node):
        tags = args[4] if len(args) > 4 else kw.get("tags")
        captured.append((st, tags, kw.get("parent", "<absent>"), args[1] if len(args) > 1 else kw.get("line")))
        return [(st, "val", st.alloc(HObj("RowScenario", {}, open=True, label="row scenario")))]

    def step_for_row(it, st, args, kw, node):
        src = args[1] if isinstance(args[0], ClassVal) else args[0]
        o = st.obj(src)
        return [(st, "val", st.alloc(HObj(o.cls, dict(o.fields), label=(o.label or "") + "*")))]
    stubs = {"@with": "transparent", "Scenario": scenario_ctor,
             "ScenarioOutlineBuilder.make_scenario_name": lambda it, st, a, k, n: [(st, "val", "name")],
             "ScenarioOutlineBuilder.make_step_for_row": step_for_row,
             "ScenarioOutlineBuilder.render_template": lambda it, st, a, k, n: [(st, "val", "rendered:" + (a[-3] if isinstance(a[-3], str) else a[0] if isinstance(a[0], str) else "?"))] if False else [(st, "val", a[1] if isinstance(a[0], ClassVal) else a[0])],
             "Tag.make_name": lambda it, st, a, k, n: [(st, "val", a[1] if isinstance(a[0], ClassVal) else a[0])],
             "copy_and_reset_steps": lambda it, st, a, k, n: [(st, "val", st.alloc(HObj("list", kind="list", items=[])))],
             "ScenarioOutlineBuilder.has_parametrized_steps": lambda it, st, a, k, n: [(st, "val", False)]}
    for tmpl_tags in ((), ("t1", "t<x>")):
        captured[:] = []
        muts[:] = []
        it = Interp(ix, stubs=stubs, on_event=rec, name="make_scenario_for")
        st = State()
        st.frames = []

        def lst(items, label):
            return st.alloc(HObj("list", kind="list", items=list(items), label=label))
        ttags = lst(tmpl_tags, "template.tags")
        etags = lst(["e1"], "example.tags")
        tmpl = st.alloc(HObj("TemplateStub", {"tags": ttags, "steps": lst([], "template.steps"),
                                              "background_steps": lst([], "template.background_steps"),
                                              "name": "outline", "filename": "f", "keyword": "Scenario Outline",
                                              "description": None, "background": None, "feature": None},
                             label="template"))
        builder = st.alloc(HObj(ix.cls("behave.model:ScenarioOutlineBuilder"), {"annotation_schema": "x"}, label="builder"))
        example = st.alloc(HObj("ExampleStub", {"tags": etags, "name": "ex", "index": 1}, open=True, label="example"))
        row = st.alloc(HObj("RowStub", {"line": 42, "index": 1, "id": "1.1"}, open=True, label="row"))
        st.freeze_base()
        outs = it.run(func, st, [example, row, tmpl, Top("params", True)], {}, self_val=builder)
        chk.absorb(it)
        bad = [o for o in outs if o[1] != "val"]
        if bad or not captured:
            raise AnalysisError("make_scenario_for not evaluable: %r" % (bad[:1],))
        if "B3" in rules:
            chk.instance("B3")
            if muts:
                for (s, what) in muts[:3]:
                    _fail(chk, "B3", func, what, "the outline builder mutates a template/examples object: %s "
                          "(rows influence each other and the template)" % what, s.path)
            else:
                chk.ok("B3", {"template_tags": list(tmpl_tags), "mutations_of_preexisting_objects": 0},
                       nontrivial_key=("B3", tmpl_tags))
        for (s, tags, parent, line) in captured:
            if "G3" in rules:
                chk.instance("G3")
                items = s.obj(tags).items if isinstance(tags, Ref) else None
                want = [t for t in tmpl_tags if "<" not in t] + ["e1"]
                # rendered parametrised tags are kept when the placeholder is known; here render is identity -> dropped
                if items is not None and [x for x in items if x in want] == want and items[-1:] == ["e1"]:
                    chk.ok("G3", {"template_tags": list(tmpl_tags), "examples_tags": ["e1"], "row_tags": items},
                           nontrivial_key=("G3", tmpl_tags))
                else:
                    _fail(chk, "G3", func, "row tags=%r template=%r" % (items, tmpl_tags),
                          "row scenario tags are %r for template tags %r and Examples tags ['e1']" % (items, list(tmpl_tags)), s.path)
            if "G2" in rules:
                chk.instance("G2")
                if isinstance(parent, Ref) and parent.oid == tmpl.oid:
                    chk.ok("G2", {"method": "make_scenario_for", "row.parent": "the outline"}, nontrivial_key="row-parent")
                else:
                    _fail(chk, "G2", func, "row parent=%r" % (parent,), "row scenario is created without parent=outline: it inherits no tags", s.path)
            if "B2" in rules:
                chk.instance("B2")
                if line == 42:
                    chk.ok("B2", {"row_scenario_line": "row.line"}, nontrivial_key="row-line")
                else:
                    _fail(chk, "B2", func, "row scenario line=%r" % (line,),
                          "row scenario is located at %r instead of the row's own line" % (line,), s.path)
