# -*- coding: utf-8 -*-
"""C04 / C05: the Gherkin parser.

Explored as a machine over line classes (sa/parser_machine.py), from every entry point:
  E1  no internal exception (None dereference, index on empty list, failing assert,
      missing key) is reachable for ANY sequence of line classes
  E3  every exception leaving the parser is a ParserError
  E5  the parse_* wrappers attach the filename to the ParserError
  P2  step types: given/when/then set the type; and/but/* inherit it within the same
      statement; and/but as first step fall back to the background or are an error
Structural:
  P1  keyword table total for every language        P3  elements get the current line number
  P5  cell splitter = pipe not preceded by backslash E4  ParserError carries self.line
  E6  termination: no while loop, only the table<->steps call cycle
"""
from __future__ import annotations

import ast

from .index import AnalysisError, ClassInfo, EnumVal, unparse, NotConst, norm_stmt
from .values import Top, GE2, HObj, Ref, Exc, State
from .report import Finding
from .absint import Interp
from . import parser_machine as PM

WHAT = {
    "E1": "no internal exception reachable in the parser for any sequence of line classes, from every entry point",
    "E3": "only ParserError leaves the parser",
    "E2": "catalogued fault 'And/But without any preceding step' is rejected (no step type left over from an earlier statement is used)",
    "E5": "parse_* wrappers attach the filename to a ParserError",
    "P2": "step type: given/when/then set it; and/but/* inherit within the statement; and/but first => background type or ParserError",
    "P1": "every keyword kind the parser looks up has a non-empty alias list in every language",
    "P3": "every model element built by the parser receives the current line number; lines are counted before any skip",
    "P5": "table cells are split at pipes not preceded by a backslash and only the escaped pipe is unescaped",
    "P6": "pending tags are consumed: a builder that hands self.tags to a model element rebinds self.tags to a fresh list (no sharing, no carry-over to the next statement)",
    "P7": "a doc-string ends only at the delimiter that opened it; the lines in between are its text minus the opening indent",
    "P8": "table cells with pipes survive render (escape_cell) -> parse (split on unescaped pipes, unescape)",
    "P13": "parse_file parses the text of the file as it is (utf-8 decoded, nothing normalised or stripped), under the file's name and the given language",
    "P12": "a line is a step exactly when it begins with a step keyword as the language table spells it (the trailing blank included): 'Andrew likes toast' is not an And-step; keyword, type and text are what the line says",
    "P11": "a container keeps every child it is given - also one that has the same keyword and title as an earlier child (model elements compare equal by title)",
    "P9": "tag lines are read word by word: '@word' -> tag 'word' (any characters), '#word' starts a comment, anything else is a ParserError",
    "P10": "every parse_* entry point can return a model for some text (it is not dead)",
    "E8": "model constructors / add_* called by the parser with file text contain no assertion over that text (only type checks)",
    "E10": "no regular expression the parser applies to a line of the file is exponentially ambiguous (a backtracking matcher would need time exponential in the line length: parsing would not end)",
    "E9": "building the error message cannot itself fail: braces, percent signs and format fields in the offending text are copied, never interpreted",
    "E4": "every ParserError raised by the parser carries the current line",
    "E6": "parser terminates: no while loop; only call cycle is action_table <-> action_steps",
}
STATEMENTS = ("Background", "Scenario", "ScenarioOutline")


def _parser_obj(st):
    for o in st.heap.values():
        if isinstance(o.cls, ClassInfo) and o.cls.name == "Parser":
            return o
    return None


def _bg_has_steps(st):
    """Does the current container's background (or what it inherits) have steps?  None if unknown."""
    p = _parser_obj(st)
    if p is None:
        return None
    cont = p.fields.get("scenario_container")
    if not isinstance(cont, Ref):
        return False
    bg = st.obj(cont).fields.get("background")
    if not isinstance(bg, Ref):
        return False
    bo = st.obj(bg)

    def nonempty(lref):
        if not isinstance(lref, Ref):
            return False
        lo = st.obj(lref)
        if lo.items is not None:
            return len(lo.items) > 0
        return lo.count != 0
    if nonempty(bo.fields.get("steps")):
        return True
    ib = bo.fields.get("inherited_background")
    if isinstance(ib, Ref) and nonempty(st.obj(ib).fields.get("steps")):
        return True
    return False


def explore_entry(ix, entry, classes, reuse=False, track_p2=True):
    """-> (interp, exits, p2_violations)"""
    p2 = []

    def events(st, ev):
        if not track_p2:
            return
        g = st.ghost
        if ev[0] == "iter" and PM.is_lines(ev[2]):
            g["cur"] = PM.line_of(ev[3]).cls
        elif ev[0] == "new":
            kind = ev[1]
            if kind in STATEMENTS:
                g["prev_type"] = None
                g["in_stmt"] = kind
            elif kind == "Step":
                stype = st.obj(Ref(ev[2])).fields.get("step_type")
                cur = g.get("cur")
                prev = g.get("prev_type")
                err = None
                base = {"STEP_GIVEN": "given", "STEP_WHEN": "when", "STEP_THEN": "then"}
                if cur in base:
                    if stype != base[cur]:
                        err = "%s line gives step type %r" % (cur, stype)
                elif cur in ("STEP_AND", "STEP_BUT", "STEP_STAR"):
                    if prev is not None:
                        if stype != prev:
                            err = "%s after a %r step gives step type %r (must inherit)" % (cur, prev, stype)
                    elif cur == "STEP_STAR":
                        if stype != "given":
                            err = "'*' as first step of a %s gives step type %r (nothing to inherit: given expected; " \
                                  "a stale type of an earlier statement leaked)" % (g.get("in_stmt"), stype)
                    else:
                        has_bg = _bg_has_steps(st)
                        if not has_bg:
                            err = "%s as first step of a %s without background steps is accepted with type %r " \
                                  "(must be a ParserError; a stale type of an earlier statement leaked)" % (
                                      cur, g.get("in_stmt"), stype)
                        elif stype not in ("given", "when", "then"):
                            err = "%s as first step gives step type %r" % (cur, stype)
                if err:
                    p2.append((st, err))
                g["prev_type"] = stype if isinstance(stype, str) else None
    st = State()
    st.frames = []
    it = PM.make_interp(ix, st, events)
    it.budget = 80000000
    func = ix.func(PM.ENTRY_POINTS[entry][0])
    text = PM.TextVal(classes)
    if reuse:
        return _explore_reuse(ix, it, st, text)
    st.freeze_base()
    args = [text] if entry == "parse_tags" else [text, None, "x.feature"]
    outs = it.run(func, st, args, {})
    return it, outs, p2


def _explore_reuse(ix, it, st, text):
    """A Parser object that is used again after an earlier (possibly failed) parse:
    every field holds an arbitrary left-over value."""
    pc = ix.cls("behave.parser:Parser")
    kw = it.module_attrs[("behave.i18n", "languages")]

    def stale(kind, extra=None):
        f = {"kind": kind, "line": None, "tags": None}
        f.update(extra or {})
        return st.alloc(HObj(kind, f, label="stale " + kind))
    stale_steps = PM._count_list(st, "stale.steps", keep_last=True)
    stale_scn = stale("Scenario", {"steps": stale_steps, "description": PM._count_list(st, "d", sink=True), "background": None})
    stale_table = stale("Table", {"headings": Top("headings", True), "rows": PM._count_list(st, "rows", sink=True)})
    stale_ex = stale("Examples", {"table": None})
    fields = {
        "language": "en", "variant": "feature", "keywords": None, "state": Top("stale-state", True),
        "line": GE2, "last_step_type": Top("stale", True, domain=(None, "then")),
        "multiline_start": Top("stale", True), "multiline_leading": Top("stale", True),
        "multiline_terminator": Top("stale", True), "filename": "old.feature",
        "scenario_container": Top("stale", True, domain=(None,)), "feature": Top("stale-feature", True, domain=(None,)),
        "rule": None, "parent": None,
        "statement": Top("stale", True, domain=(None, stale_scn)),
        "tags": st.alloc(HObj("list", kind="list", items=[])), "lines": st.alloc(HObj("list", kind="list", items=[])),
        "table": Top("stale", True, domain=(None, stale_table)),
        "examples": Top("stale", True, domain=(None, stale_ex)),
    }
    parser = st.alloc(HObj(pc, fields, label="reused parser"))
    st.freeze_base()
    outs = []
    for meth in ("parse", "parse_steps"):
        f = pc.lookup(meth)
        outs.extend(it.run(f, st.fork(), [text, "x.feature"], {}, self_val=parser))
    return it, outs, []


def _check_exits(chk, ix, entry, it, outs, p2, rules, func):
    fname = func.fullname + "[entry %s]" % entry
    for (s, err) in p2:
        if "E2" in rules and "must be a ParserError" in err:
            chk.fail(Finding("E2", "behave.parser:Parser.parse_step[entry %s]" % entry, err.split(" is accepted")[0],
                             err, file=func.file, line=func.lineno, path=list(s.path)[-40:]))
        if "P2" in rules:
            chk.fail(Finding("P2", "behave.parser:Parser.parse_step[entry %s]" % entry, err.split(" gives")[0].split(" is accepted")[0],
                             err, file=func.file, line=func.lineno, path=list(s.path)[-40:]))
    for (s, k, v) in outs:
        if k != "raise":
            if "E1" in rules:
                chk.ok("E1", None, nontrivial_key=(entry, "return"))
            continue
        cls = v.clsname()
        lines = [p for p in s.path if "next lines element" in p or "(lines) element" in p]
        sentence = " ".join(p.rsplit(": ", 1)[1] for p in lines[-12:])
        if v.internal is not None or cls != "ParserError":
            rule = "E1" if v.internal is not None or cls in ("AttributeError", "IndexError", "KeyError", "AssertionError", "TypeError") else "E3"
            if rule in rules:
                chk.fail(Finding(rule, fname, "%s at %s" % (cls, (v.origin or "?").split(":", 1)[0] + ":" + norm_origin(ix, v.origin)),
                                 "internal exception %s reachable from %s (%s) after the lines: %s" % (
                                     cls, entry, v.origin, sentence or "<none>"),
                                 file=func.file, line=func.lineno, path=list(s.path)[-30:], imprecise=bool(s.imprecise)))
            continue
        if "E1" in rules:
            chk.ok("E1", {"entry": entry, "lines": sentence, "outcome": "ParserError at " + str(v.origin)},
                   nontrivial_key=(entry, v.origin))
        if "E3" in rules:
            chk.ok("E3", None, nontrivial_key=(entry, v.origin))
        if "E5" in rules and entry != "parse_tags":
            fn_ok = False
            if v.ref is not None and v.ref.oid in s.heap:
                fn_ok = "filename" in s.obj(v.ref).fields
            if fn_ok:
                chk.ok("E5", None, nontrivial_key=(entry, "filename"))
            else:
                chk.fail(Finding("E5", func.fullname, "no filename on ParserError",
                                 "%s lets a ParserError pass without attaching the filename" % entry,
                                 file=func.file, line=func.lineno, path=list(s.path)[-10:]))


def norm_origin(ix, origin):
    """statement text at file:line (line-number free key)."""
    try:
        f, ln = origin.split(" ")[0].rsplit(":", 1)
        for m in ix.modules.values():
            if m.relpath == f:
                return " ".join(m.lines[int(ln) - 1].split())[:80]
    except Exception:       # noqa
        pass
    return str(origin)


def check_machine(chk, ix, entry, rules, tier="quick", reuse=False):
    for r in rules:
        chk.rule(r, WHAT[r])
    classes = list(PM.LINE_CLASSES) if tier == "thorough" else [c for c in PM.LINE_CLASSES if c not in ("STEP_THEN", "STEP_BUT", "DOC_SQ")]
    it, outs, p2 = explore_entry(ix, entry, classes, reuse=reuse, track_p2=("P2" in rules or "E2" in rules))
    chk.absorb(it)
    func = ix.func(PM.ENTRY_POINTS[entry][0]) if not reuse else ix.func("behave.parser:Parser.parse")
    for r in rules:
        chk.instance(r)
    _check_exits(chk, ix, entry + ("(reused parser)" if reuse else ""), it, outs, p2, set(rules), func)
    if "P2" in rules and not p2:
        chk.ok("P2", {"entry": entry, "step type violations": 0}, nontrivial_key=(entry, "P2"))
    if "E2" in rules and not any("must be a ParserError" in e for (_, e) in p2):
        chk.ok("E2", {"entry": entry, "dangling And/But accepted": 0}, nontrivial_key=(entry, "E2"))


# ----------------------------------------------------------------------
# structural rules
# ----------------------------------------------------------------------
KEYWORD_KINDS = ("feature", "rule", "background", "scenario", "scenario_outline", "examples",
                 "given", "when", "then", "and", "but")


def check_docstring_protocol(chk, ix):
    """P7: a doc-string is closed only by the delimiter that opened it; everything in between is its text, with the
    opening indent removed.  Parser.action_steps / action_multiline_text evaluated on concrete lines (constant folding)."""
    chk.rule("P7", WHAT["P7"])
    pc = ix.cls("behave.parser:Parser")
    a_steps, a_text = pc.lookup("action_steps"), pc.lookup("action_multiline_text")
    if a_steps is None or a_text is None:
        raise AnalysisError("anchor missing: Parser.action_steps / action_multiline_text")
    dq, sq = '"' * 3, "'" * 3
    for opener, other in ((dq, sq), (sq, dq)):
        texts = []
        stubs = {"Text": lambda i, s_, a, k, n: (texts.append(a[0]), [(s_, "val", "TEXT")])[1],
                 "model.Text": lambda i, s_, a, k, n: (texts.append(a[0]), [(s_, "val", "TEXT")])[1],
                 "Parser._normalize_step_name": lambda i, s_, a, k, n: [(s_, "val", None)]}
        it = Interp(ix, stubs=stubs, name="doc-string protocol")
        it.int_sat = 1000
        it.list_cap = 100
        st = State()
        st.frames = []
        step = st.alloc(HObj("StepTok", {"name": "a step", "text": None}, open=True, label="step"))
        stmt = st.alloc(HObj("StatementTok", {"steps": st.alloc(HObj("list", kind="list", items=[step]))}, label="statement"))
        me = st.alloc(HObj(pc, {"state": EnumVal("State", "STEPS"), "statement": stmt, "line": 7, "filename": "x.feature",
                                "lines": st.alloc(HObj("list", kind="list", items=[])), "multiline_start": None,
                                "multiline_leading": None, "multiline_terminator": None, "variant": "feature"}, label="parser"))
        script = [(a_steps, "    " + opener), (a_text, "    first line"), (a_text, "    " + other), (a_text, "      indented " + other + " inside"),
                  (a_text, ""), (a_text, "    last line  "), (a_text, "    " + opener)]
        want_text = "\n".join(["first line", other, "  indented " + other + " inside", "", "last line"])
        cur = st
        closed_at = None
        for i, (fn, line) in enumerate(script):
            outs = it.call_function(cur, fn, [line], {}, None, self_val=me)
            if len(outs) != 1 or outs[0][1] != "val":
                raise AnalysisError("doc-string protocol not foldable at %r: %r" % (line, [(k, v) for _, k, v in outs][:3]))
            cur = outs[0][0]
            if texts and closed_at is None:
                closed_at = i
        chk.absorb(it)
        chk.instance("P7")
        state = cur.obj(me).fields.get("state")
        ok = closed_at == len(script) - 1 and texts == [want_text] and getattr(state, "name", None) == "STEPS"
        if ok:
            chk.ok("P7", {"opened_by": opener, "contains": other, "text": texts[0]}, nontrivial_key=opener)
        else:
            where = "never closed" if closed_at is None else "closed by line %d (%r)" % (closed_at, script[closed_at][1])
            chk.fail(Finding("P7", a_text.fullname, "opened by %s: %s, text %r" % (opener, where, texts[:1]),
                             "a doc-string opened by %s that contains %s lines is %s with text %r; expected it to end at the closing %s "
                             "with text %r" % (opener, other, where, texts[:1], opener, want_text),
                             file=a_text.file, line=a_text.lineno, stmt="def action_multiline_text"))


def check_cell_roundtrip(chk, ix):
    """P8: the table renderer's cell escaping and the parser's cell splitting agree: a rendered row re-parses to the
    same cells (cells with pipes, no backslashes/newlines: the parser only ever unescapes the pipe)."""
    chk.rule("P8", WHAT["P8"])
    esc = ix.func("behave.model_describe:escape_cell")
    pc = ix.cls("behave.parser:Parser")
    a_table = pc.lookup("action_table")
    rows = [["a|b", "c"], ["|", ""], ["a||b", "x|"], ["|x", "plain"], ["a|b|c"], ["no pipe", "second"]]
    for cells in rows:
        it = Interp(ix, name="escape_cell")
        it.fold_regex = True
        it.int_sat = 1000
        it.list_cap = 100
        st = State()
        st.frames = []
        rendered = []
        for c in cells:
            outs = it.call_function(st, esc, [c], {}, None)
            if len(outs) != 1 or outs[0][1] != "val" or not isinstance(outs[0][2], str):
                raise AnalysisError("escape_cell not foldable on %r: %r" % (c, [(k, v) for _, k, v in outs][:2]))
            rendered.append(outs[0][2])
        line = "| " + " | ".join(rendered) + " |"
        got = []
        stubs = {"Table": lambda i, s_, a, k, n: (got.append(a[0]), [(s_, "val", "TABLE")])[1],
                 "model.Table": lambda i, s_, a, k, n: (got.append(a[0]), [(s_, "val", "TABLE")])[1]}
        it2 = Interp(ix, stubs=stubs, name="action_table")
        it2.fold_regex = True
        it2.int_sat = 1000
        it2.list_cap = 100
        st = State()
        st.frames = []
        me = st.alloc(HObj(pc, {"table": None, "examples": None, "line": 3, "filename": "x.feature", "state": EnumVal("State", "TABLE")}, label="parser"))
        outs = it2.call_function(st, a_table, [line], {}, None, self_val=me)
        chk.absorb(it2)
        chk.instance("P8")
        if len(outs) != 1 or outs[0][1] != "val" or len(got) != 1:
            raise AnalysisError("action_table not foldable on %r: %r" % (line, [(k, v) for _, k, v in outs][:2]))
        s2 = outs[0][0]
        parsed = got[0]
        parsed = list(s2.obj(parsed).items) if isinstance(parsed, Ref) else list(parsed) if isinstance(parsed, tuple) else parsed
        want = [c.strip() for c in cells]
        if parsed == want:
            chk.ok("P8", {"cells": cells, "rendered_row": line, "reparsed": parsed}, nontrivial_key=tuple(cells))
        else:
            chk.fail(Finding("P8", esc.fullname, "%r -> %r -> %r" % (cells, line, parsed),
                             "the cells %r are rendered as the row %r, which parses back as %r: the renderer's escaping and the parser's "
                             "splitting on unescaped pipes disagree" % (cells, line, parsed), file=esc.file, line=esc.lineno, stmt="def escape_cell"))


def check_model_constructors(chk, ix):
    """E8: the model constructors and add_* methods the parser calls with text taken from the file cannot fail with
    an internal exception: evaluated abstractly with arbitrary strings / cell lists, every assert they reach is either
    decided (true) or a type check; an assert over the CONTENT of the text (e.g. unique column names) would turn a
    text-level oddity into an AssertionError instead of a ParserError."""
    chk.rule("E8", WHAT["E8"])
    mod = ix.module("behave.model")
    targets = [("Table", "__init__", {"headings": "cells", "line": "int"}), ("Table", "add_row", {"row": "cells", "line": "int"}),
               ("Row", "__init__", {"headings": "cells", "cells": "cells", "line": "int"}),
               ("Step", "__init__", {"filename": "str", "line": "int", "keyword": "str", "step_type": "str", "name": "str"}),
               ("Scenario", "__init__", {"filename": "str", "line": "int", "keyword": "str", "name": "str", "tags": "cells"}),
               ("ScenarioOutline", "__init__", {"filename": "str", "line": "int", "keyword": "str", "name": "str", "tags": "cells"}),
               ("Examples", "__init__", {"filename": "str", "line": "int", "keyword": "str", "name": "str", "tags": "cells"}),
               ("Background", "__init__", {"filename": "str", "line": "int", "keyword": "str", "name": "str"}),
               ("Feature", "__init__", {"filename": "str", "line": "int", "keyword": "str", "name": "str", "tags": "cells"}),
               ("Rule", "__init__", {"filename": "str", "line": "int", "keyword": "str", "name": "str", "tags": "cells"})]
    for cname, meth, spec in targets:
        ci = mod.classes.get(cname)
        f = ci.lookup(meth) if ci else None
        if f is None:
            raise AnalysisError("anchor missing: behave.model:%s.%s" % (cname, meth))
        it = Interp(ix, stubs={"@with": "transparent", "os.getcwd": lambda i, s_, a, k, n: [(s_, "val", "/cwd")]}, name="%s.%s" % (cname, meth))
        it.allow_guess = True       # platform switches (PLATFORM_WIN) are explored both ways
        st = State()
        st.frames = []

        def absval(kind):
            if kind == "int":
                return Top("line", True)
            if kind == "str":
                return PM.StrTop("text-from-file")
            lst = HObj("list", kind="list", items=None, label="cells from the file")
            lst.fields["@elem"] = PM.StrTop("cell")
            lst.open = True
            return st.alloc(lst)
        if meth == "__init__":
            me = st.alloc(HObj(ci, {}, open=True, label=cname.lower()))
        else:
            me = st.alloc(HObj(ci, {"headings": absval("cells"), "rows": absval("cells"), "line": Top("line", True), "modified": False},
                               open=True, label=cname.lower()))
        kwargs = {k: absval(v) for k, v in spec.items()}
        try:
            outs = it.call_function(st, f, [], kwargs, None, self_val=me)
        except AnalysisError as e:
            raise AnalysisError("%s.%s not evaluable with text from the file: %s" % (cname, meth, e))
        chk.absorb(it)
        chk.instance("E8")
        bad = []
        for a in sorted(it.stats.get("assumed_asserts", ())):
            cond = a.split(": assert ", 1)[1]
            if not cond.startswith("isinstance("):
                bad.append(a)
        for (s_, k, v) in outs:
            if k == "raise" and (v.internal is not None or v.clsname() in ("AssertionError", "AttributeError", "IndexError", "KeyError", "TypeError")):
                bad.append("%s (%s)" % (v.clsname(), v.origin))
        if not bad:
            chk.ok("E8", {"called by the parser": "%s.%s" % (cname, meth), "with": spec}, nontrivial_key=(cname, meth))
        else:
            chk.fail(Finding("E8", f.fullname, "%s.%s: %s" % (cname, meth, bad[0].split(": assert ", 1)[-1][:80]),
                             "%s.%s, which the parser calls with text taken from the file, can fail internally depending on that text: %s" % (
                                 cname, meth, "; ".join(bad[:3])), file=f.file, line=f.lineno, stmt="def " + meth))


def check_entry_can_succeed(chk, ix, entries=("parse_feature", "parse_rule", "parse_scenario", "parse_steps")):
    """P10: every parse_* entry point has a line sequence on which it returns a model: the machine exploration of the
    entry must have at least one returning exit (otherwise no text whatsoever can be parsed through it)."""
    chk.rule("P10", WHAT["P10"])
    classes = [c for c in PM.LINE_CLASSES if c not in ("STEP_THEN", "STEP_BUT", "DOC_SQ", "STEP_WHEN", "STEP_STAR", "LANG_UNKNOWN")]
    for entry in entries:
        it, outs, _ = explore_entry(ix, entry, classes, track_p2=False)
        chk.absorb(it)
        chk.instance("P10")
        func = ix.func(PM.ENTRY_POINTS[entry][0])
        returning = [o for o in outs if o[1] != "raise"]
        # a returning exit that consumed at least one keyword / step line
        kinds = {"parse_feature": ("Feature",), "parse_rule": ("Rule",), "parse_scenario": ("Scenario", "ScenarioOutline"), "parse_steps": ("list",)}[entry]
        useful = [o for o in returning if isinstance(o[2], Ref) and (o[0].obj(o[2]).clsname() in kinds or o[0].obj(o[2]).kind in kinds)]
        if useful:
            chk.ok("P10", {"entry": entry, "returning exits": len(returning), "after consuming input": len(useful)}, nontrivial_key=entry)
        else:
            errs = sorted({norm_origin(ix, o[2].origin) for o in outs if o[1] == "raise"})[:3]
            others = sorted({o[0].obj(o[2]).clsname() or o[0].obj(o[2]).kind for o in returning if isinstance(o[2], Ref)})
            chk.fail(Finding("P10", func.fullname, "%s never returns a %s" % (entry, "/".join(kinds)),
                             "%s cannot succeed: no line sequence makes it return a %s (returning exits yield %s; a %s keyword line ends in: %s)" % (
                                 entry, "/".join(kinds), others or "nothing", kinds[0], "; ".join(errs)),
                             file=func.file, line=func.lineno, stmt="def " + func.name))


def check_tag_line(chk, ix, tier="quick"):
    """P9: a tag line read word by word (Parser.parse_tags on concrete lines, constant folding): '@word' is the tag
    'word' whatever characters it contains; a word starting with '#' ends the line; anything else is a ParserError."""
    chk.rule("P9", WHAT["P9"])
    pc = ix.cls("behave.parser:Parser")
    f = pc.lookup("parse_tags")
    cases = [("@a @b", ["a", "b"]), ("  @a\t@b  ", ["a", "b"]), ("@a # comment @c", ["a"]), ("@a #c", ["a"]), ("@issue#123 @b", ["issue#123", "b"]),
             ("@a @b#x # trailing", ["a", "b#x"]), ("@a.b @c-d @e=f @g:3", ["a.b", "c-d", "e=f", "g:3"]), ("# only a comment", []),
             ("@a bad", "error"), ("bad", "error"), ("@a @@b", ["a", "@b"])]
    # generated: every line of up to three words from a small word pool (thorough: also length 4)
    import itertools as _it
    pool = ["@a", "@b#x", "#c", "bad", "@@d", "@e.f-g=h:3", "#"]

    def read(words):
        tags = []
        for w in words:
            if w.startswith("@"):
                tags.append(w[1:])
            elif w.startswith("#"):
                break
            else:
                return "error"
        return tags
    have = {c[0] for c in cases}
    for n_ in (1, 2, 3) + ((4,) if tier == "thorough" else ()):
        for ws in _it.product(pool, repeat=n_):
            line = "  ".join(ws)
            if line not in have:
                have.add(line)
                cases.append((line, read(ws)))
    for line, want in cases:
        made = []
        stubs = {"Tag": lambda i, s_, a, k, n: (made.append(a[0]), [(s_, "val", "TAG:" + str(a[0]))])[1],
                 "model.Tag": lambda i, s_, a, k, n: (made.append(a[0]), [(s_, "val", "TAG:" + str(a[0]))])[1]}
        it = Interp(ix, stubs=stubs, name="Parser.parse_tags")
        it.int_sat = 1000
        it.list_cap = 100
        st = State()
        st.frames = []
        me = st.alloc(HObj(pc, {"line": 4, "filename": "x.feature"}, label="parser"))
        outs = it.call_function(st, f, [line], {}, None, self_val=me)
        chk.absorb(it)
        chk.instance("P9")
        if len(outs) != 1:
            raise AnalysisError("Parser.parse_tags not foldable on %r: %r" % (line, [(k, v) for _, k, v in outs][:3]))
        _, k, v = outs[0]
        got = "error" if (k == "raise" and v.clsname() == "ParserError") else (list(made) if k == "val" else repr(v))
        if got == want:
            chk.ok("P9", {"tag line": line, "tags": want}, nontrivial_key=line)
        else:
            chk.fail(Finding("P9", f.fullname, "%r -> %r" % (line, got), "the tag line %r is read as %r; word by word it is %r (a '#' inside a "
                             "word belongs to the tag, only a word that starts with '#' begins a comment)" % (line, got, want),
                             file=f.file, line=f.lineno, stmt="def parse_tags"))


def check_parse_tags_entry(chk, ix):
    """P9 for the module-level entry point parse_tags(text) ("one or more lines"): all tags of all lines, in order."""
    chk.rule("P9", WHAT["P9"])
    pc = ix.cls("behave.parser:Parser")
    f = ix.func("behave.parser:parse_tags")
    if f is None or pc.lookup("parse_tags") is None:
        raise AnalysisError("anchor missing: behave.parser:parse_tags / Parser.parse_tags")
    cases = [("", []), ("@one", ["one"]), ("@one @two", ["one", "two"]), ("@one @two\n@three", ["one", "two", "three"]),
             ("@a\n\n  @b\n@c @d\n", ["a", "b", "c", "d"]), ("  \n@x", ["x"])]
    for text, want in cases:
        made = []
        tagstub = lambda i, s_, a, k, n: (made.append(a[0]), [(s_, "val", "TAG:" + str(a[0]))])[1]     # noqa: E731

        def parser_ctor(i, s_, a, k, n):
            return [(s_, "val", s_.alloc(HObj(pc, {"line": 0, "filename": None, "variant": k.get("variant", a[1] if len(a) > 1 else None)}, label="parser")))]
        it = Interp(ix, stubs={"Tag": tagstub, "model.Tag": tagstub, "Parser": parser_ctor}, name="parse_tags")
        it.int_sat = 1000
        it.list_cap = 100
        st = State()
        st.frames = []
        outs = it.call_function(st, f, [text], {}, None)
        chk.absorb(it)
        chk.instance("P9")
        if len(outs) != 1 or outs[0][1] != "val":
            raise AnalysisError("parse_tags(%r) not foldable: %r" % (text, [(k, v) for _, k, v in outs][:3]))
        s_, _, v = outs[0]
        got = None
        if isinstance(v, Ref) and s_.obj(v).items is not None:
            got = [str(x)[4:] if isinstance(x, str) and x.startswith("TAG:") else repr(x) for x in s_.obj(v).items]
        elif isinstance(v, (tuple, list)):
            got = [str(x)[4:] if isinstance(x, str) and x.startswith("TAG:") else repr(x) for x in v]
        if got == want:
            chk.ok("P9", {"parse_tags(text)": text, "tags": want}, nontrivial_key=("entry", text))
        else:
            chk.fail(Finding("P9", f.fullname, "%r -> %r" % (text, got), "parse_tags(%r) returns %r; the tags of all its lines are %r"
                             % (text, got, want), file=f.file, line=f.lineno, stmt="def parse_tags"))


def check_parse_step_concrete(chk, ix):
    """P12: Parser.parse_step evaluated on concrete lines with the English keyword table (and a language whose keywords
    carry no trailing blank)."""
    chk.rule("P12", WHAT["P12"])
    pc = ix.cls("behave.parser:Parser")
    f = pc.lookup("parse_step")
    if f is None:
        raise AnalysisError("anchor missing: Parser.parse_step")
    en = {"given": ["* ", "Given "], "when": ["* ", "When "], "then": ["* ", "Then "], "and": ["* ", "And "], "but": ["* ", "But "]}
    zh = {"given": ["* ", "\u5047\u5982", "\u5047\u8bbe"], "when": ["* ", "\u5f53"], "then": ["* ", "\u90a3\u4e48"], "and": ["* ", "\u800c\u4e14", "\u5e76\u4e14"], "but": ["* ", "\u4f46\u662f"]}
    cases = [
        (en, None, "Given a step", ("Given", "given", "a step")), (en, None, "given lower case", ("Given", "given", "lower case")),
        (en, "given", "And another", ("And", "given", "another")), (en, "when", "But not this", ("But", "when", "not this")),
        (en, "then", "* a star step", ("*", "then", "a star step")), (en, None, "* first star", ("*", "given", "first star")),
        (en, "given", "Andrew likes toast", None), (en, "given", "Butter is nice", None), (en, None, "Whenever it rains", None),
        (en, None, "Givenchy bag", None), (en, "given", "*** banner ***", None), (en, None, "Thenceforth", None),
        (en, None, "When   padded text  ", ("When", "when", "padded text")), (en, "given", "Scenario: x", None),
        (zh, None, "\u5047\u5982\u6211\u6709\u4e00\u4e2a", ("\u5047\u5982", "given", "\u6211\u6709\u4e00\u4e2a")),
        (zh, "given", "\u800c\u4e14 x", ("\u800c\u4e14", "given", "x")),
    ]
    for kws, last, line, want in cases:
        made = []

        def step_ctor(i, s_, a, k, n):
            made.append((a[2], a[3], a[4]))
            return [(s_, "val", s_.alloc(HObj("StepTok", {"keyword": a[2], "step_type": a[3], "name": a[4]}, label="step")))]
        it = Interp(ix, stubs={"model.Step": step_ctor, "Step": step_ctor}, name="Parser.parse_step")
        it.int_sat = 1000
        it.list_cap = 100
        st = State()
        st.frames = []
        kwd = st.alloc(HObj("dict", kind="dict", items=[(k_, st.alloc(HObj("list", kind="list", items=list(v_)))) for k_, v_ in kws.items()]))
        me = st.alloc(HObj(pc, {"keywords": kwd, "last_step_type": last, "line": 7, "filename": "x.feature", "scenario_container": None,
                                "statement": None}, label="parser"))
        outs = it.call_function(st, f, [line], {}, None, self_val=me)
        chk.absorb(it)
        chk.instance("P12")
        if len(outs) != 1 or outs[0][1] != "val":
            raise AnalysisError("Parser.parse_step(%r) not foldable: %r" % (line, [(k, v) for _, k, v in outs][:3]))
        got = made[0] if made else None
        if got == want and (outs[0][2] is None) == (want is None):
            chk.ok("P12", {"line": line, "after a step of type": last, "step": list(want) if want else None}, nontrivial_key=(line, last))
        else:
            chk.fail(Finding("P12", f.fullname, "%r -> %r" % (line, got),
                             "the line %r (after a %s step) is read as %s; expected %s" % (
                                 line, last or "no", "the step (keyword, type, text) = %r" % (got,) if got else "no step",
                                 "the step %r" % (want,) if want else "no step (the text only looks like a keyword: ordinary text must lead to a "
                                 "ParserError / description line, not to a step)"), file=f.file, line=f.lineno, stmt="def parse_step"))


def check_parse_file_passes_text(chk, ix):
    """P13: parse_file evaluated with a file object that returns given bytes: parse_feature receives exactly their
    utf-8 decoding (decomposed characters, compatibility characters, a BOM-less text with tabs and CR LF included)."""
    chk.rule("P13", WHAT["P13"])
    f = ix.func("behave.parser:parse_file")
    if f is None:
        raise AnalysisError("anchor missing: behave.parser:parse_file")
    texts = ["Feature: plain\n  Scenario: s\n    Given a step\n",
             "Feature: cafe\u0301 de\u0301compose\u0301\n  Scenario: \ufb01ligree \u2126 \u212b\n    Given \u0ba8\u0bc6\u0bb1\u0bbf x\n",
             "Feature: x\r\n\tScenario: tab\r\n"]
    for text in texts:
        got = []

        class FileTok(object):
            abs_type = "file"

            def abs_call(self, it_, st_, name, args, kwargs, node):
                if name == "read":
                    return [(st_, "val", text.encode("utf-8"))]
                if name in ("close", "__enter__", "__exit__"):
                    return [(st_, "val", self if name == "__enter__" else None)]
                return [(st_, "val", None)]
        stubs = {"open": lambda i, s_, a, k, n: [(s_, "val", FileTok())], "@with": "transparent",
                 "parse_feature": lambda i, s_, a, k, n: (got.append((a[0], a[1] if len(a) > 1 else k.get("language"), a[2] if len(a) > 2 else k.get("filename"))), [(s_, "val", "FEATURE")])[1]}
        it = Interp(ix, stubs=stubs, name="parse_file")
        it.int_sat = 100000
        st = State()
        st.frames = []
        try:
            outs = it.call_function(st, f, ["dir/x.feature", "de"], {}, None)
        except AnalysisError as e:
            raise AnalysisError("parse_file not evaluable on a file token: %s" % e)
        chk.absorb(it)
        chk.instance("P13")
        if len(outs) != 1 or outs[0][1] != "val" or len(got) != 1:
            raise AnalysisError("parse_file not evaluable on a file token: %r / %d calls of parse_feature" % ([(k, v) for _, k, v in outs][:3], len(got)))
        data, lang, fname = got[0]
        if not isinstance(data, str):
            raise AnalysisError("parse_file: the text handed to parse_feature does not fold to a constant (%r)" % (data,))
        if data == text and lang == "de" and fname == "dir/x.feature":
            chk.ok("P13", {"file text": ascii(text)[:80], "parsed text": "identical", "language": lang, "filename": fname}, nontrivial_key=text)
        else:
            chk.fail(Finding("P13", f.fullname, "%s -> %s" % (ascii(text)[:60], ascii(data)[:60]),
                             "parse_file hands parse_feature %s (language %r, file %r) for a file that contains %s: the text that is parsed is not the "
                             "text of the file (names, cells and doc-strings come back altered; keywords of languages written with decomposed "
                             "characters stop matching)" % (ascii(data), lang, fname, ascii(text)), file=f.file, line=f.lineno, stmt="def parse_file"))


def check_model_adders(chk, ix):
    """P11: Feature.add_rule / add_scenario, Rule.add_scenario called with two DIFFERENT children that have the same keyword
    and name (two untitled rules, 'Happy path' under two rules ...): both are kept, in order, in every child list."""
    chk.rule("P11", WHAT["P11"])
    cases = [("Feature", "add_rule", "Rule", ("rules", "run_items")), ("Feature", "add_scenario", "Scenario", ("scenarios", "run_items")),
             ("Rule", "add_scenario", "Scenario", ("scenarios", "run_items")), ("Feature", "add_scenario", "ScenarioOutline", ("scenarios", "run_items"))]
    for owner, meth, child, lists in cases:
        oc, cc = ix.cls("behave.model:" + owner), ix.cls("behave.model:" + child)
        f = oc.lookup(meth)
        if f is None:
            raise AnalysisError("anchor missing: %s.%s" % (owner, meth))
        st = State()
        st.frames = []

        def lst():
            return st.alloc(HObj("list", kind="list", items=[]))
        me = st.alloc(HObj(oc, {"keyword": owner, "name": "owner", "rules": lst(), "scenarios": lst(), "run_items": lst(), "background": None,
                                "feature": None, "parent": None, "filename": "x.feature", "line": 1, "tags": lst()}, label="owner"))
        kids = []
        for i in (1, 2):
            kids.append(st.alloc(HObj(cc, {"keyword": child, "name": "same title", "parent": None, "feature": None, "background": None,
                                           "filename": "x.feature", "line": 10 * i, "tags": lst(), "scenarios": lst(), "run_items": lst(),
                                           "steps": lst()}, label="child%d" % i)))
        it = Interp(ix, name="%s.%s" % (owner, meth))
        cur = st
        for kid in kids:
            outs = it.call_function(cur, f, [kid], {}, None, self_val=me)
            if len(outs) != 1 or outs[0][1] != "val":
                raise AnalysisError("%s.%s not evaluable on tokens: %r" % (owner, meth, [(k, v) for _, k, v in outs][:3]))
            cur = outs[0][0]
        chk.absorb(it)
        for ln in lists:
            chk.instance("P11")
            v = cur.obj(me).fields.get(ln)
            items = cur.obj(v).items if isinstance(v, Ref) else None
            got = [cur.obj(x).label for x in (items or []) if isinstance(x, Ref)]
            if got == ["child1", "child2"]:
                chk.ok("P11", {"call": "%s.%s(%s) twice, equal titles" % (owner, meth, child), ln: got}, nontrivial_key=(owner, meth, child, ln))
            else:
                chk.fail(Finding("P11", f.fullname, "%s %s: %s" % (child, ln, got),
                                 "%s.%s called with two different %s objects that have the same keyword and title leaves %s = %s; both must be "
                                 "kept (the second one, its background and its scenarios would silently vanish from the run)" % (owner, meth, child, ln, got),
                                 file=f.file, line=f.lineno, stmt="def " + meth))


def regex_literals(ix, mod):
    """(pattern, flags-expression, line, context) for every constant pattern handed to the re module in `mod`"""
    out = []
    fns = ("compile", "match", "search", "split", "sub", "subn", "findall", "finditer", "fullmatch")
    for n in ast.walk(mod.tree):
        if isinstance(n, ast.Call) and isinstance(n.func, ast.Attribute) and n.func.attr in fns and n.args:
            r = ix.resolve_expr(mod, n.func.value) if isinstance(n.func.value, (ast.Name, ast.Attribute)) else None
            if not (isinstance(r, tuple) and r[0] == "ext" and r[1] == "re"):
                continue
            try:
                pat = ix.fold(n.args[0], mod)
            except NotConst:
                continue
            if isinstance(pat, str):
                flags = 0
                import re as _re
                for a in list(n.args[1:]) + [k.value for k in n.keywords]:
                    for nm in ast.walk(a):
                        if isinstance(nm, ast.Attribute) and nm.attr in ("IGNORECASE", "I", "DOTALL", "S", "MULTILINE", "M", "VERBOSE", "X", "UNICODE", "U"):
                            flags |= getattr(_re, nm.attr)
                out.append((pat, flags, n.lineno, "re.%s" % n.func.attr))
    return out


def check_regex_ambiguity(chk, ix, modules=("behave.parser",), rule="E10", floor=2):
    from . import regex_amb
    chk.rule(rule, WHAT["E10"])
    for ctl, want in ((r"(a+)+$", True), (r"^\|((?:[^|]|\\\|)*\|)*$", True), (r"^(|.+)\|$", False)):
        r = regex_amb.analyse(ctl)
        if r is None or r["eda"] is not want:
            raise AnalysisError("%s self-test: %r is analysed as %r" % (rule, ctl, r))
    n = 0
    for mname in modules:
        mod = ix.module(mname)
        for (pat, flags, line, ctx) in regex_literals(ix, mod):
            n += 1
            chk.instance(rule)
            r = regex_amb.analyse(pat, flags)
            if r is None:
                chk.ok(rule, {"pattern": pat, "at": "%s:%d" % (mod.relpath, line), "verdict": "not modelled (look-around / back-reference): not decided"})
                chk.notes.append("%s: pattern %r at %s:%d uses constructs the ambiguity analysis does not model; not decided" % (rule, pat, mod.relpath, line))
            elif not r["eda"]:
                chk.ok(rule, {"pattern": pat, "at": "%s:%d" % (mod.relpath, line), "positions": r["positions"], "exponentially ambiguous": False},
                       nontrivial_key=(mname, pat))
            else:
                chk.fail(Finding(rule, "%s:<%s>" % (mname, ctx), "pattern %s" % pat,
                                 "the pattern %r (%s at line %d) is exponentially ambiguous: from %s the same text can continue through %s or through "
                                 "%s and come back; on a line that almost matches, re tries all combinations (time doubles with every repetition)"
                                 % (pat, ctx, line, r["state"], r["diverges_into"][0], r["diverges_into"][1]), file=mod.relpath, line=line, stmt=ctx))
    if n < floor:
        raise AnalysisError("%s: only %d constant patterns found in %s" % (rule, n, ", ".join(modules)))


def check_error_message_hostile(chk, ix):
    """E9: ParserError.make_annotated evaluated on texts that look like format strings (constant folding)."""
    chk.rule("E9", WHAT["E9"])
    ec = ix.cls("behave.parser:ParserError")
    f = ec.lookup("make_annotated")
    if f is None:
        raise AnalysisError("anchor missing: ParserError.make_annotated")
    hostile = ["{", "}", "{x}", "{0}", "{line_text}", "%s", "%(x)s", "100%", "{{}}", "@tag{a} %d"]
    for h in hostile:
        for slot in ("message", "line_text", "reason"):
            args = {"message": "Parser failure", "line_number": 7, "line_text": "  Given a step  ", "reason": "because"}
            args[slot] = (h + " text") if slot != "line_text" else ("  " + h + " text  ")
            it = Interp(ix, name="ParserError.make_annotated")
            it.int_sat = 1000
            st = State()
            st.frames = []
            outs = it.call_function(st, f, [args["message"], args["line_number"], args["line_text"], args["reason"]], {}, None)
            chk.absorb(it)
            chk.instance("E9")
            bad = None
            if len(outs) != 1:
                raise AnalysisError("make_annotated not foldable on %r: %r" % (args, [(k, v) for _, k, v in outs][:3]))
            _, k, v = outs[0]
            if k == "raise":
                bad = "raises %s" % v.clsname()
            elif not isinstance(v, str):
                raise AnalysisError("make_annotated(%r) does not fold to a string: %r" % (args, v))
            else:
                missing = [x for x in (args["message"], "7", args["line_text"].strip(), args["reason"]) if x not in v]
                if missing:
                    bad = "returns %r, which lacks %r" % (v, missing[0])
            if bad is None:
                chk.ok("E9", {"slot": slot, "text": h, "message": v}, nontrivial_key=(slot, h))
            else:
                chk.fail(Finding("E9", f.fullname, "%s=%r: %s" % (slot, h, bad.split(",")[0]),
                                 "ParserError.make_annotated with %s = %r %s: a syntax error in a feature file whose offending text contains "
                                 "such characters surfaces as an internal exception instead of a ParserError" % (slot, args[slot], bad),
                                 file=f.file, line=f.lineno, stmt="def make_annotated"))


def check_table_render_roundtrip(chk, ix):
    """P8 through the renderer itself: ModelDescriptor.describe_table on a concrete table, every rendered line fed to
    Parser.action_table: the re-parsed cells are the table's cells and all rendered lines have the same width."""
    chk.rule("P8", WHAT["P8"])
    dc = ix.cls("behave.model_describe:ModelDescriptor")
    f = dc.lookup("describe_table")
    pc = ix.cls("behave.parser:Parser")
    a_table = pc.lookup("action_table")
    tables = [(["a|b", "c"], [["x|y", "z"], ["1", "2|3|4"]]), (["h1", "h2"], [["", "long value"], ["|", "v"]])]
    for headings, rows in tables:
        for indentation in (None, "    "):
            it = Interp(ix, name="describe_table")
            it.fold_regex = True
            it.int_sat = 100000
            it.list_cap = 1000
            st = State()
            st.frames = []

            def lst(v):
                return st.alloc(HObj("list", kind="list", items=list(v)))
            tab = st.alloc(HObj("TableTok", {"headings": lst(headings), "rows": lst([lst(r) for r in rows])}, label="table"))
            outs = it.call_function(st, f, [tab] + ([indentation] if indentation else []), {}, None)
            chk.absorb(it)
            chk.instance("P8")
            if len(outs) != 1 or outs[0][1] != "val" or not isinstance(outs[0][2], str):
                raise AnalysisError("describe_table not foldable: %r" % ([(k, v) for _, k, v in outs][:2],))
            text = outs[0][2]
            lines = text.splitlines()
            parsed = []
            for line in lines:
                got = []
                stubs = {"Table": lambda i, s_, a, k, n, _g=got: (_g.append(a[0]), [(s_, "val", "TABLE")])[1],
                         "model.Table": lambda i, s_, a, k, n, _g=got: (_g.append(a[0]), [(s_, "val", "TABLE")])[1]}
                it2 = Interp(ix, stubs=stubs, name="action_table")
                it2.fold_regex = True
                it2.int_sat = 1000
                it2.list_cap = 100
                st2 = State()
                st2.frames = []
                me = st2.alloc(HObj(pc, {"table": None, "examples": None, "line": 3, "filename": "x.feature", "state": EnumVal("State", "TABLE")}, label="parser"))
                o2 = it2.call_function(st2, a_table, [line], {}, None, self_val=me)
                if len(o2) != 1 or o2[0][1] != "val" or len(got) != 1:
                    parsed.append("not a table row: %r" % line)
                    continue
                v = got[0]
                parsed.append(list(o2[0][0].obj(v).items) if isinstance(v, Ref) else list(v))
            want = [headings] + rows
            widths = {len(l) for l in lines}
            if parsed == want and len(widths) == 1 and (not indentation or all(l.startswith(indentation + "|") for l in lines)):
                chk.ok("P8", {"table": want, "rendered": lines}, nontrivial_key=(repr(want), indentation))
            else:
                chk.fail(Finding("P8", f.fullname, "%r -> %r" % (want, parsed), "describe_table renders the table %r as %r, which parses back as %r "
                                 "(line widths %s): rendered tables must re-parse to the same cells and be aligned" % (want, lines, parsed, sorted(widths)),
                                 file=f.file, line=f.lineno, stmt="def describe_table"))


def check_tags_consumed(chk, ix, rule="P6"):
    """Pending tags are consumed by the statement they precede: every Parser method that hands self.tags to a
    model constructor rebinds self.tags to a fresh list afterwards, on every path to the method's end."""
    chk.rule(rule, WHAT["P6"])
    pc = ix.cls("behave.parser:Parser")
    found = 0
    for f in pc.methods.values():
        body = f.node.body

        def uses_tags(stmt):
            for n in ast.walk(stmt):
                if isinstance(n, ast.Call):
                    target = ix.resolve_expr(f.module, n.func)
                    is_model = isinstance(target, ClassInfo) or (isinstance(n.func, ast.Attribute) and unparse(n.func.value) == "model")
                    if is_model and any(unparse(a) == "self.tags" for a in list(n.args) + [k.value for k in n.keywords]):
                        return unparse(n.func)
            return None

        def fresh_reset(stmt):
            return isinstance(stmt, ast.Assign) and len(stmt.targets) == 1 and unparse(stmt.targets[0]) == "self.tags" and (
                (isinstance(stmt.value, ast.List) and not stmt.value.elts) or
                (isinstance(stmt.value, ast.Call) and unparse(stmt.value.func) == "list" and not stmt.value.args))
        for i, stmt in enumerate(body):
            ctor = uses_tags(stmt)
            if ctor is None:
                continue
            found += 1
            chk.instance(rule)
            ok = False
            for later in body[i + 1:]:
                if fresh_reset(later):
                    ok = True
                    break
                if any(isinstance(n, (ast.Return, ast.Raise)) for n in ast.walk(later)) and not isinstance(later, (ast.If, ast.For, ast.Try, ast.With)):
                    break
            if ok:
                chk.ok(rule, {"method": f.qualname, "constructs": ctor, "then": "self.tags = []"}, nontrivial_key=f.qualname)
            else:
                chk.fail(Finding(rule, f.fullname, "%s(tags=self.tags) without a fresh self.tags afterwards" % ctor,
                                 "%s hands the pending tag list to %s and does not rebind self.tags to a fresh list afterwards: the element "
                                 "shares the parser's pending-tags list, so the tags of the following tag lines are added to it and its own "
                                 "tags leak to the next statement" % (f.qualname, ctor), file=f.file, line=stmt.lineno, stmt=norm_stmt(stmt)))
    if found < 5:
        raise AnalysisError("anchor drift: only %d Parser methods hand self.tags to a model constructor (5 confirmed: feature, rule, "
                            "scenario, scenario outline, examples)" % found)


def check_keyword_table(chk, ix):
    chk.rule("P1", WHAT["P1"])
    mod = ix.module("behave.i18n")
    if "languages" not in mod.consts:
        raise AnalysisError("anchor missing: behave.i18n.languages")
    try:
        table = ix.fold(mod.consts["languages"], mod)
    except NotConst as e:
        raise AnalysisError("i18n.languages is not a literal table: %s" % e)
    # the keyword kinds the parser looks up (from its source)
    pc = ix.cls("behave.parser:Parser")
    looked_up = set()
    for f in pc.methods.values():
        for n in ast.walk(f.node):
            if isinstance(n, ast.Call) and isinstance(n.func, ast.Attribute) and n.func.attr == "match_keyword" and n.args \
                    and isinstance(n.args[0], ast.Constant):
                looked_up.add(n.args[0].value)
            if isinstance(n, ast.Subscript) and unparse(n.value) == "self.keywords" and isinstance(n.slice, ast.Constant):
                looked_up.add(n.slice.value)
            if isinstance(n, ast.For) and isinstance(n.iter, ast.Tuple) and all(isinstance(e, ast.Constant) for e in n.iter.elts):
                if any(isinstance(m, ast.Subscript) and unparse(m.value) == "self.keywords" for m in ast.walk(n)):
                    looked_up.update(e.value for e in n.iter.elts)
    kinds = sorted(looked_up | set(KEYWORD_KINDS))
    for lang, entry in sorted(table.items()):
        chk.instance("P1")
        missing = [k for k in kinds if not isinstance(entry.get(k), list) or not entry.get(k)
                   or not all(isinstance(a, str) and a for a in entry[k])]
        if missing:
            chk.fail(Finding("P1", "behave.i18n:languages", "%s lacks %s" % (lang, ",".join(missing)),
                             "language %r has no (non-empty) alias list for keyword kind(s) %s: the parser's lookup "
                             "raises KeyError / never matches" % (lang, missing), file=mod.relpath, line=1))
        else:
            chk.ok("P1", {"language": lang, "kinds": len(kinds)}, nontrivial_key=lang)
    chk.require_instances("P1", 60)


def _is_self_line(node, aliases=()):
    s = unparse(node)
    return s == "self.line" or s in aliases


def check_line_numbers(chk, ix):
    chk.rule("P3", WHAT["P3"])
    chk.rule("E4", WHAT["E4"])
    pc = ix.cls("behave.parser:Parser")
    model = ix.module("behave.model")
    elem = {"Feature": 1, "Rule": 1, "Background": 1, "Scenario": 1, "ScenarioOutline": 1, "Examples": 1, "Step": 1,
            "Tag": 1, "Table": None, "Text": 2}
    for f in list(pc.methods.values()):
        aliases = set()
        for n in ast.walk(f.node):
            if isinstance(n, ast.Assign) and unparse(n.value) == "self.line":
                for t in n.targets:
                    aliases.add(unparse(t))
        for n in ast.walk(f.node):
            if not isinstance(n, ast.Call):
                continue
            callee = unparse(n.func)
            cls = callee.split(".")[-1]
            if callee.startswith("model.") and cls in elem:
                chk.instance("P3")
                pos = elem[cls]
                arg = None
                for kw in n.keywords:
                    if kw.arg == "line":
                        arg = kw.value
                if arg is None and pos is not None and len(n.args) > pos:
                    arg = n.args[pos]
                ok = arg is not None and (_is_self_line(arg, aliases) or (cls == "Text" and unparse(arg) == "self.multiline_start")
                                          or (isinstance(arg, ast.Constant) and arg.value == 0 and f.name == "parse_steps"))
                key = "%s(...) in %s" % (cls, f.name)
                if ok:
                    chk.ok("P3", {"construct": key, "line_argument": unparse(arg)}, nontrivial_key=key)
                else:
                    chk.fail(Finding("P3", f.fullname, "%s line=%s" % (key, unparse(arg) if arg is not None else "<none>"),
                                     "%s is built with line %s instead of the parser's current line" % (
                                         cls, unparse(arg) if arg is not None else "<missing>"),
                                     file=f.file, line=n.lineno, stmt=norm_stmt(n)))
            elif isinstance(n.func, ast.Attribute) and n.func.attr == "add_row" and "table" in unparse(n.func.value):
                chk.instance("P3")
                arg = n.args[1] if len(n.args) > 1 else next((k.value for k in n.keywords if k.arg == "line"), None)
                if arg is not None and _is_self_line(arg, aliases):
                    chk.ok("P3", {"construct": "table.add_row in " + f.name, "line_argument": unparse(arg)},
                           nontrivial_key="add_row " + f.name)
                else:
                    chk.fail(Finding("P3", f.fullname, "add_row line=%s" % (unparse(arg) if arg is not None else "<none>"),
                                     "table row added without the current line number (row lines would be guessed "
                                     "from the row count: wrong when blank/comment lines lie between rows)",
                                     file=f.file, line=n.lineno, stmt=norm_stmt(n)))
            elif cls == "ParserError" and callee in ("ParserError",):
                chk.instance("E4")
                arg = n.args[1] if len(n.args) > 1 else next((k.value for k in n.keywords if k.arg == "line"), None)
                key = "ParserError in %s: %s" % (f.name, unparse(n.args[0])[:40] if n.args else "")
                if arg is not None and _is_self_line(arg, aliases):
                    chk.ok("E4", {"site": key}, nontrivial_key=key)
                else:
                    chk.fail(Finding("E4", f.fullname, key + " line=%s" % (unparse(arg) if arg is not None else "<none>"),
                                     "ParserError raised with line %s instead of the current line" % (
                                         unparse(arg) if arg is not None else "<missing>"),
                                     file=f.file, line=n.lineno, stmt=norm_stmt(n)))
        # multiline_start provenance
        if f.name == "action_steps":
            chk.instance("P3")
            ok = any(isinstance(n, ast.Assign) and unparse(n.targets[0]) == "self.multiline_start" and unparse(n.value) == "self.line"
                     for n in ast.walk(f.node))
            if ok:
                chk.ok("P3", {"construct": "doc-string start line", "line_argument": "self.line at the opening quotes"},
                       nontrivial_key="multiline_start")
            else:
                chk.fail(Finding("P3", f.fullname, "multiline_start not from self.line",
                                 "the doc-string start line is not taken from the current line at the opening quotes",
                                 file=f.file, line=f.lineno))
    # every line is counted - blank and skipped ones too: the line loops evaluated on a concrete text, Parser.action
    # recording the line number it is called at
    text = "Feature: x\n\n  # c\n  Scenario: y\n\n\n    Given z\n   \n    When w"
    want = [(i + 1, ln) for i, ln in enumerate(text.splitlines()) if ln.strip()]
    for f in pc.methods.values():
        if not any(isinstance(n, ast.For) and "splitlines" in unparse(n.iter) for n in ast.walk(f.node)):
            continue
        chk.instance("P3")
        seen = []

        def action(i, s_, a, k, n_):
            seen.append((s_.obj(a[0]).fields.get("line"), a[1]))
            return [(s_, "val", None)]

        def reset(i, s_, a, k, n_):
            s_.wobj(a[0]).fields.update({"line": 0, "table": None, "state": EnumVal("State", "INIT"), "statement": None, "filename": None})
            return [(s_, "val", None)]
        noop = lambda i, s_, a, k, n_: [(s_, "val", None)]      # noqa: E731
        def build_scn(i, s_, a, k, n_):
            s_.wobj(a[0]).fields["statement"] = s_.alloc(HObj("ScnTok", {"steps": ()}, open=True))
            return [(s_, "val", None)]
        it = Interp(ix, stubs={"Parser.action": action, "Parser.reset": reset, "Parser._build_scenario_statement": build_scn,
                               "Parser.action_table": noop, "model.Scenario": lambda i, s_, a, k, n_: [(s_, "val", s_.alloc(HObj("ScnTok", {"steps": ()}, open=True)))],
                               "Scenario": lambda i, s_, a, k, n_: [(s_, "val", s_.alloc(HObj("ScnTok", {"steps": ()}, open=True)))]},
                    name="line loop of " + f.name)
        it.int_sat = 1000
        it.list_cap = 100
        st = State()
        st.frames = []
        me = st.alloc(HObj(pc, {"line": 0, "language": "en", "state": EnumVal("State", "INIT"), "table": None, "filename": None,
                                "keywords": st.alloc(HObj("dict", kind="dict", items=[("scenario", st.alloc(HObj("list", kind="list", items=["Scenario"])))])),
                                "statement": None, "feature": None}, label="parser"))
        params = [p_.arg for p_ in f.node.args.args[1:]]
        known = {"text": text, "filename": "x.feature", "initial_state": None}
        if any(p_ not in known for p_ in params):
            raise AnalysisError("line loop in %s: unexpected parameters %s" % (f.fullname, params))
        try:
            outs = it.call_function(st, f, [known[p_] for p_ in params], {}, None, self_val=me)
        except AnalysisError as e:
            raise AnalysisError("line loop of %s is not evaluable on a concrete text: %s" % (f.fullname, e))
        chk.absorb(it)
        if len(outs) != 1 or outs[0][1] != "val":
            raise AnalysisError("line loop of %s is not evaluable on a concrete text: %r" % (f.fullname, [(k, v) for _, k, v in outs][:3]))
        # parse_steps runs the text twice (its own loop, then _parse_loop): each pass must number the lines alike
        passes = [seen[i:i + len(want)] for i in range(0, len(seen), max(1, len(want)))]
        if seen and all(p_ == want for p_ in passes):
            chk.ok("P3", {"construct": "line loop in " + f.name, "action called at": [ln for ln, _ in want]}, nontrivial_key="loop " + f.name)
        else:
            chk.fail(Finding("P3", f.fullname, "line loop miscounts",
                             "in %s the lines %r are handed to the parser's action with the line numbers %s; expected %s (every line of the "
                             "text counts, blank ones too)" % (f.name, [t for _, t in want], [ln for ln, _ in seen], [ln for ln, _ in want]),
                             file=f.file, line=f.lineno, stmt="def " + f.name))
    chk.require_instances("P3", 12)
    chk.require_instances("E4", 8)


def check_cell_splitter(chk, ix):
    """P5: a table row is split at the pipes that are not preceded by a backslash, without its outer pipes; each cell
    is stripped and only the escaped pipe is unescaped.  Parser.action_table constant-folded on concrete rows."""
    chk.rule("P5", WHAT["P5"])
    pc = ix.cls("behave.parser:Parser")
    f = pc.lookup("action_table")
    import re as _re
    rows = ["| a | b |", "|a|b|", "| a\\|b | c |", "|  spaced   out  |x|", "| | |", "|a||b|", "| \\| |", "| a\\\\ | b |", "| x\\|y\\|z |", "| caf\u00e9 | \u6771\u4eac |",
            "| a |", "| tab\there | y |", "   | indented | row |   "]

    def oracle(line):
        line = line.strip()
        return [c.replace("\\|", "|").strip() for c in _re.split(r"(?<!\\)\|", line[1:-1])]
    for line in rows:
        got = []
        stubs = {"Table": lambda i_, s_, a, k, n: (got.append(a[0]), [(s_, "val", "TABLE")])[1],
                 "model.Table": lambda i_, s_, a, k, n: (got.append(a[0]), [(s_, "val", "TABLE")])[1]}
        it = Interp(ix, stubs=stubs, name="action_table")
        it.fold_regex = True
        it.int_sat = 1000
        it.list_cap = 100
        st = State()
        st.frames = []
        me = st.alloc(HObj(pc, {"table": None, "examples": None, "line": 3, "filename": "x.feature", "state": EnumVal("State", "TABLE")}, label="parser"))
        outs = it.call_function(st, f, [line], {}, None, self_val=me)
        chk.absorb(it)
        chk.instance("P5")
        if len(outs) != 1 or outs[0][1] != "val" or len(got) != 1:
            raise AnalysisError("action_table not foldable on %r: %r" % (line, [(k, v) for _, k, v in outs][:2]))
        v = got[0]
        cells = list(outs[0][0].obj(v).items) if isinstance(v, Ref) else list(v)
        want = oracle(line)
        if cells == want:
            chk.ok("P5", {"row": line, "cells": cells}, nontrivial_key=line)
        else:
            chk.fail(Finding("P5", f.fullname, "%r -> %r" % (line, cells), "the table row %r is split into %r; splitting at unescaped pipes, stripping and "
                             "unescaping the pipe gives %r" % (line, cells, want), file=f.file, line=f.lineno, stmt="def action_table"))


def check_termination(chk, ix):
    chk.rule("E6", WHAT["E6"])
    pc = ix.cls("behave.parser:Parser")
    graph = {}
    for name, f in pc.methods.items():
        callees = set()
        for n in ast.walk(f.node):
            if isinstance(n, ast.While):
                raise AnalysisError("E6: while loop in %s at line %d - termination of the parser is not decided by this rule any more "
                                    "(it knows for-loops over the finite line sequence and an acyclic call graph)" % (f.fullname, n.lineno))
            if isinstance(n, ast.Call) and isinstance(n.func, ast.Attribute) and isinstance(n.func.value, ast.Name) \
                    and n.func.value.id == "self" and n.func.attr in pc.methods:
                callees.add(n.func.attr)
            if isinstance(n, ast.Call) and unparse(n.func) == "getattr" and len(n.args) >= 2:
                # dynamic dispatch getattr(self, "action_" + state)
                if "action_" in unparse(n.args[1]):
                    callees.update(m for m in pc.methods if m.startswith("action_"))
        graph[name] = callees
    # strongly connected components (Tarjan)
    index, low, stack, on, sccs, counter = {}, {}, [], set(), [], [0]

    def strong(v):
        index[v] = low[v] = counter[0]
        counter[0] += 1
        stack.append(v)
        on.add(v)
        for w in graph.get(v, ()):
            if w not in index:
                strong(w)
                low[v] = min(low[v], low[w])
            elif w in on:
                low[v] = min(low[v], index[w])
        if low[v] == index[v]:
            comp = []
            while True:
                w = stack.pop()
                on.discard(w)
                comp.append(w)
                if w == v:
                    break
            sccs.append(comp)
    for v in graph:
        if v not in index:
            strong(v)
    cyc = [sorted(c) for c in sccs if len(c) > 1 or c[0] in graph.get(c[0], ())]
    chk.instance("E6")
    allowed = [["action_steps", "action_table"]]
    extra = [c for c in cyc if c not in allowed and not set(c) <= {"action_steps", "action_table", "action_background", "action_scenario"}]
    if extra:
        chk.fail(Finding("E6", "behave.parser:Parser", "call cycle %s" % extra, "new call cycle among parser methods: %s" % extra,
                         file=pc.module.relpath, line=pc.node.lineno))
    else:
        chk.ok("E6", {"call_cycles": cyc, "while_loops": 0}, nontrivial_key="cycles")


WHAT["E7"] = "a re-used Parser starts every parse from a clean state: reset() re-initialises every parsing field and runs before each line loop"


def check_reset_clears(chk, ix):
    """E7 (structural): fields initialised in Parser.__init__ are re-initialised by reset(),
    and every line loop is preceded by a reset() call in the same function."""
    chk.rule("E7", WHAT["E7"])
    pc = ix.cls("behave.parser:Parser")
    init, reset = pc.methods.get("__init__"), pc.methods.get("reset")
    if init is None or reset is None:
        raise AnalysisError("anchor missing: Parser.__init__/reset")

    def assigned(f):
        out = set()
        for n in ast.walk(f.node):
            if isinstance(n, ast.Assign):
                for t in n.targets:
                    if isinstance(t, ast.Attribute) and isinstance(t.value, ast.Name) and t.value.id == "self":
                        out.add(t.attr)
        return out
    a_init, a_reset = assigned(init), assigned(reset)
    config_fields = {"variant", "language"}       # constructor arguments, not parsing state
    chk.instance("E7")
    missing = sorted(a_init - a_reset - config_fields)
    if missing:
        chk.fail(Finding("E7", reset.fullname, "not reset: %s" % ",".join(missing),
                         "Parser.reset() does not re-initialise %s: after a failed parse the same Parser object "
                         "(feature.parser is re-used by Context.execute_steps) starts the next parse with left-over "
                         "state" % missing, file=reset.file, line=reset.lineno, stmt="def reset"))
    else:
        chk.ok("E7", {"fields_reset": sorted(a_reset)}, nontrivial_key="reset fields")
    # every public way of feeding text to a Parser object resets it before the first line is looked at - evaluated: reset()
    # and action() record the order in which they are reached
    for meth in ("parse", "parse_steps"):
        f = pc.lookup(meth)
        if f is None:
            raise AnalysisError("anchor missing: Parser.%s" % meth)
        order = []
        noop = lambda i, s_, a, k, n_: [(s_, "val", None)]      # noqa: E731

        def reset_stub(i, s_, a, k, n_):
            order.append("reset")
            s_.wobj(a[0]).fields.update({"line": 0, "table": None, "state": EnumVal("State", "INIT"), "statement": None, "feature": None})
            return [(s_, "val", None)]

        def build_scn(i, s_, a, k, n_):
            s_.wobj(a[0]).fields["statement"] = s_.alloc(HObj("ScnTok", {"steps": ()}, open=True))
            return [(s_, "val", None)]
        it = Interp(ix, stubs={"Parser.action": lambda i, s_, a, k, n_: (order.append("action"), [(s_, "val", None)])[1], "Parser.reset": reset_stub,
                               "Parser._build_scenario_statement": build_scn, "Parser.action_table": noop,
                               "model.Scenario": lambda i, s_, a, k, n_: [(s_, "val", s_.alloc(HObj("ScnTok", {"steps": ()}, open=True)))],
                               "Scenario": lambda i, s_, a, k, n_: [(s_, "val", s_.alloc(HObj("ScnTok", {"steps": ()}, open=True)))]},
                    name="Parser.%s: reset before the first line" % meth)
        it.int_sat = 1000
        it.list_cap = 100
        st = State()
        st.frames = []
        stale = st.alloc(HObj("TableTok", {}, open=True, label="stale table of an earlier parse"))
        me = st.alloc(HObj(pc, {"line": 99, "language": "en", "state": EnumVal("State", "TABLE"), "table": stale, "filename": "old.feature",
                                "keywords": st.alloc(HObj("dict", kind="dict", items=[("scenario", st.alloc(HObj("list", kind="list", items=["Scenario"])))])),
                                "statement": None, "feature": None}, label="re-used parser"))
        try:
            outs = it.call_function(st, f, ["Given a step\n\nWhen another"] + (["x.feature"] if len(f.node.args.args) > 2 else []), {}, None, self_val=me)
        except AnalysisError as e:
            raise AnalysisError("Parser.%s not evaluable on a re-used parser: %s" % (meth, e))
        chk.absorb(it)
        chk.instance("E7")
        if not outs or any(k != "val" for _, k, _v in outs) or "action" not in order:
            raise AnalysisError("Parser.%s not evaluable on a re-used parser: %r, events %r" % (meth, [(k, v) for _, k, v in outs][:3], order[:6]))
        if order[0] == "reset":
            chk.ok("E7", {"entry": meth, "first": "reset()", "then": "the lines"}, nontrivial_key=("reset-first", meth))
        else:
            chk.fail(Finding("E7", f.fullname, "%s: %s before reset" % (meth, order[0]),
                             "Parser.%s() on a parser object that was used before looks at the first line before reset() has run (order: %s): "
                             "left-over state of the earlier parse (a table, a doc-string, the line counter) leaks into this one" % (meth, order[:4]),
                             file=f.file, line=f.lineno, stmt="def " + meth))
    chk.require_instances("E7", 2)


WHAT["P14"] = ("in every language of the keyword table (behave/i18n.py) a step line that starts with a step keyword is read with that "
               "keyword and its step type - also when a shorter keyword of another type is a prefix of it")


def check_step_keywords_all_languages(chk, ix):
    """P14: Parser.parse_step evaluated on 'KEYWORD + text' for every step keyword of every language of the table in the source."""
    chk.rule("P14", WHAT["P14"])
    pc = ix.cls("behave.parser:Parser")
    f = pc.lookup("parse_step")
    mod = ix.module("behave.i18n")
    node = mod.consts.get("languages")
    if f is None or node is None:
        raise AnalysisError("anchor missing: Parser.parse_step / behave.i18n.languages")
    try:
        table = ast.literal_eval(node)
    except Exception as e:      # noqa
        raise AnalysisError("behave.i18n.languages is not a literal table: %s" % e)
    types = ("given", "when", "then", "and", "but")
    made = []

    def step_ctor(i, s_, a, k, n):
        made.append((a[2], a[3], a[4]))
        return [(s_, "val", s_.alloc(HObj("StepTok", {"keyword": a[2], "step_type": a[3], "name": a[4]}, label="step")))]
    it = Interp(ix, stubs={"model.Step": step_ctor, "Step": step_ctor}, name="Parser.parse_step (all languages)")
    it.int_sat = 1000
    it.list_cap = 100
    n_lang = 0
    for lang in sorted(table):
        kws = table[lang]
        if not all(t in kws for t in types):
            continue
        n_lang += 1
        for t in types:
            for kw in kws[t]:
                if kw.strip() == "*":
                    continue
                line = kw + "x y"
                # a longer keyword that this very line also starts with does not exist by construction; the types that list kw:
                owners = [t2 for t2 in types if kw in kws[t2]]
                last = "when" if t in ("and", "but") else None
                want_types = {(last if o in ("and", "but") else o) for o in owners}
                del made[:]
                st = State()
                st.frames = []
                kwd = st.alloc(HObj("dict", kind="dict", items=[(k_, st.alloc(HObj("list", kind="list", items=list(kws[k_])))) for k_ in types]))
                me = st.alloc(HObj(pc, {"keywords": kwd, "last_step_type": last, "line": 3, "filename": "x.feature", "scenario_container": None,
                                        "statement": None}, label="parser"))
                outs = it.call_function(st, f, [line], {}, None, self_val=me)
                chk.instance("P14")
                if len(outs) != 1 or outs[0][1] != "val":
                    raise AnalysisError("Parser.parse_step(%r) [%s] not foldable: %r" % (line, lang, [(k, v) for _, k, v in outs][:3]))
                got = made[0] if made else None
                # (the keyword is matched case-insensitively: a language may list two spellings that differ in case only)
                if got is not None and got[0].lower() == kw.rstrip().lower() and got[1] in want_types and got[2] == "x y":
                    chk.ok("P14", {"language": lang, "keyword": kw, "type": got[1]}, nontrivial_key=(lang, t))
                else:
                    chk.fail(Finding("P14", f.fullname, "[%s] %r -> %r" % (lang, line, got),
                                     "language %s: the line %r starts with the %s keyword %r but is read as %s" % (
                                         lang, line, t, kw, "the step (keyword, type, text) = %r" % (got,) if got else "no step"),
                                     file=f.file, line=f.lineno, stmt="def parse_step"))
    chk.absorb(it)
    if n_lang < 40:
        raise AnalysisError("only %d languages found in behave.i18n.languages" % n_lang)
    chk.require_instances("P14", 500)


WHAT["P15"] = ("a '# language: xx' header selects the keyword table AND is what the parser (and the feature) reports as its language - "
               "nested parsing (execute_steps, parse_steps of that parser) depends on it; an unknown language is a ParserError")


def check_language_header(chk, ix):
    """P15: Parser.action evaluated on language comment lines, on a Parser built by its own constructor."""
    chk.rule("P15", WHAT["P15"])
    pc = ix.cls("behave.parser:Parser")
    f = pc.lookup("action")
    if f is None:
        raise AnalysisError("anchor missing: Parser.action")
    mod = ix.module("behave.i18n")
    try:
        table = ast.literal_eval(mod.consts.get("languages"))
    except Exception as e:      # noqa
        raise AnalysisError("behave.i18n.languages is not a literal table: %s" % e)
    from .abscall import construct as _construct
    from .values import ClassVal
    for line, want in (("# language: de", "de"), ("#language: fr", "fr"), ("  # LANGUAGE: en-pirate  ", "en-pirate"), ("# language: xx-none", ParserErrorName),
                       ("# just a comment", None)):
        it = Interp(ix, name="Parser.action (language header)")
        it.int_sat = 1000
        it.list_cap = 100000
        it.shared_consts = True
        st = State()
        st.frames = []
        outs = _construct(it, st, ClassVal(pc), [], {}, None)
        if len(outs) != 1 or outs[0][1] != "val":
            raise AnalysisError("Parser() not evaluable: %r" % ([(k, v) for _, k, v in outs][:2],))
        s1, _, me = outs[0]
        r0 = it.call_function(s1, pc.lookup("reset"), [], {}, None, self_val=me)
        if len(r0) != 1 or r0[0][1] != "val":
            raise AnalysisError("Parser.reset not evaluable")
        s2 = r0[0][0]
        before = s2.obj(me).fields.get("language")
        outs = it.call_function(s2, f, [line], {}, None, self_val=me)
        chk.absorb(it)
        chk.instance("P15")
        if len(outs) != 1:
            raise AnalysisError("Parser.action(%r): %d outcomes" % (line, len(outs)))
        s3, k, v = outs[0]
        if want is ParserErrorName:
            if k == "raise" and v.clsname() == "ParserError":
                chk.ok("P15", {"line": line, "result": "ParserError"}, nontrivial_key=line)
            else:
                chk.fail(Finding("P15", f.fullname, "%r -> %s" % (line, k), "the header %r names an unknown language; expected a ParserError, got %s %r"
                                 % (line, k, v if k != "raise" else v.clsname()), file=f.file, line=f.lineno, stmt="def action"))
            continue
        if k != "val":
            chk.fail(Finding("P15", f.fullname, "%r raises %s" % (line, v.clsname() if k == "raise" else k),
                             "the line %r makes Parser.action raise %s" % (line, v.clsname() if k == "raise" else k), file=f.file, line=f.lineno, stmt="def action"))
            continue
        lang = s3.obj(me).fields.get("language")
        kw = s3.obj(me).fields.get("keywords")
        given = None
        if isinstance(kw, Ref) and s3.obj(kw).kind == "dict" and s3.obj(kw).items is not None:
            d = dict((a, b) for a, b in s3.obj(kw).items if isinstance(a, str))
            g = d.get("given")
            given = tuple(s3.obj(g).items) if isinstance(g, Ref) and s3.obj(g).items is not None else g
        want_lang = want if want is not None else before
        want_given = tuple(table[want]["given"]) if want is not None else tuple(table["en"]["given"])
        if lang == want_lang and (given is None and want is None or tuple(given or ()) == want_given):
            chk.ok("P15", {"line": line, "language": lang, "given keywords": list(want_given)[:3]}, nontrivial_key=line)
        else:
            chk.fail(Finding("P15", f.fullname, "%r -> language=%r given=%r" % (line, lang, given),
                             "after the line %r the parser's language is %r and its 'given' keywords are %r; expected language %r with %r" % (
                                 line, lang, given, want_lang, want_given), file=f.file, line=f.lineno, stmt="def action"))
    chk.require_instances("P15", 5)


ParserErrorName = "ParserError"
