# -*- coding: utf-8 -*-
"""C15 formatter-side rules.

  F5  JSON cursor typestate: driving JSONFormatter abstractly with protocol event scripts
      (feature, scenarios, rule background after a scenario, failing steps with messages),
      every scenario status lands in that scenario's element, a background element gets none,
      and the i-th result is attached to the i-th step
  F6  JSON writer/reader key agreement per element type
  F7  status-keyed display tables (progress dots, ansi colour aliases) cover every step status
  F8  formatters that report the DEQUEUED step in result() reset/drain their step queue at
      every scenario/background/rule/feature boundary
"""
from __future__ import annotations

import ast

from .index import AnalysisError, ClassInfo, EnumVal, unparse, NotConst
from .values import Top, HObj, Ref, Exc, State, ClassVal, GE2
from .absint import Interp
from .report import Finding
from .world import S
from . import oracle

WHAT = {
    "F5": "JSON report: each scenario's status is stored in its own element, results are attached to the steps in order",
    "F6": "JSON writer and reader agree on the keys of every element type",
    "F10": "multi-line texts (doc-strings, error messages) survive writing to and reading from the JSON report unchanged",
    "F7": "status-keyed display tables (progress dots, colour aliases) cover every step status",
    "F8": "formatters that report the dequeued step reset or drain their step queue at every scenario/background/rule/feature boundary",
}


def _fail(chk, rule, fullname, file, line, witness, text, path=()):
    chk.fail(Finding(rule, fullname, witness, text, file=file, line=line, path=list(path)))


# ----------------------------------------------------------------------
# F5
# ----------------------------------------------------------------------
def _json_world(ix):
    jc = ix.cls("behave.formatter.json:JSONFormatter")
    stubs = {"@with": "transparent", "json.dumps": lambda it, s, a, k, n: [(s, "val", "<json>")],
             "StreamTok.write": lambda it, s, a, k, n: [(s, "val", None)],
             "StreamTok.flush": lambda it, s, a, k, n: [(s, "val", None)]}
    def copy_tok(it_, s, a, k, n):
        if isinstance(a[0], Ref):
            o = s.obj(a[0])
            return [(s, "val", s.alloc(HObj(o.cls, dict(o.fields), label=(o.label or "") + " (copy)")))]
        return [(s, "val", a[0])]
    stubs["StepTok.reset"] = lambda it_, s, a, k, n: [(s, "val", None)]
    stubs["copy.copy"] = copy_tok
    stubs["copy.deepcopy"] = copy_tok
    it = Interp(ix, stubs=stubs, attr_stubs={}, name="JSONFormatter")
    it.int_sat = 1000       # a fixed script is evaluated: keep the step cursor exact
    st = State()
    st.frames = []
    stream = st.alloc(HObj("StreamTok", {"encoding": "utf-8"}, label="stream"))
    fmt = st.alloc(HObj(jc, {"stream": stream, "feature_count": 0, "current_feature": None, "current_feature_data": None,
                             "current_scenario": None, "_step_index": 0}, label="json formatter"))
    return jc, it, st, fmt


def _tok(st, kind, name, **f):
    fields = {"keyword": kind, "name": name, "tags": (), "location": "f:1", "description": None, "filename": "f",
              "text": None, "table": None, "step_type": "given", "duration": 0.0, "error_message": None}
    fields.update(f)
    return st.alloc(HObj(kind + "Tok", fields, label=name))


def check_json_cursor(chk, ix):
    chk.rule("F5", WHAT["F5"])
    jc, it, st, fmt = _json_world(ix)
    feature = _tok(st, "Feature", "F", status=S("failed"))
    bsteps = st.alloc(HObj("list", kind="list", items=[]))
    s1a = _tok(st, "Step", "s1a", status=S("passed"))
    s1b = _tok(st, "Step", "s1b", status=S("failed"), error_message="boom")
    s1c = _tok(st, "Step", "s1c", status=S("passed"))
    s2a = _tok(st, "Step", "s2a", status=S("passed"))
    sc1 = _tok(st, "Scenario", "S1", status=S("failed"))
    sc2 = _tok(st, "Scenario", "S2", status=S("passed"))
    # the Rule's background is a real Background object: it has ONE own step and INHERITS the feature background's step;
    # its JSON element lists its own steps (the inherited ones belong to the feature-level background element)
    bgc = ix.cls("behave.model:Background")
    b_own = _tok(st, "Step", "b-own", status=S("untested"))
    b_inh = _tok(st, "Step", "b-inherited", status=S("untested"))
    fbg = st.alloc(HObj(bgc, {"keyword": "Background", "name": "FB", "location": "f:2", "steps": st.alloc(HObj("list", kind="list", items=[b_inh])),
                              "inherited_background": None, "_inherited_steps": None, "_use_inheritance": True}, label="feature background"))
    bg = st.alloc(HObj(bgc, {"keyword": "Background", "name": "B", "location": "f:9", "steps": st.alloc(HObj("list", kind="list", items=[b_own])),
                             "inherited_background": fbg, "_inherited_steps": None, "_use_inheritance": True}, label="rule background"))
    match = st.alloc(HObj("MatchTok", {"arguments": st.alloc(HObj("list", kind="list", items=[])), "location": "steps.py:1"}, label="match"))
    script = [("feature", feature), ("scenario", sc1), ("step", s1a), ("step", s1b), ("step", s1c),
              ("match", match), ("result", s1a), ("match", match), ("result", s1b), ("match", match), ("result", s1c),
              ("background", bg),          # a Rule with its own Background follows the first scenario
              ("scenario", sc2), ("step", s2a), ("match", match), ("result", s2a)]
    cur = st
    for (ev, arg) in script:
        m = jc.lookup(ev)
        if m is None:
            raise AnalysisError("anchor missing: JSONFormatter.%s" % ev)
        outs = it.call_function(cur, m, [arg], {}, None, self_val=fmt)
        if len(outs) != 1 or outs[0][1] != "val":
            _fail(chk, "F5", m.fullname, m.file, m.lineno, "event %s raises" % ev,
                  "JSONFormatter.%s fails on a legal event sequence (feature, scenario with a failing step, rule background, "
                  "scenario): %r" % (ev, [(k, v) for _, k, v in outs][:1]))
            return
        cur = outs[0][0]
    # finish like eof() does (without writing)
    fin = jc.lookup("finish_current_scenario")
    outs = it.call_function(cur, fin, [], {}, None, self_val=fmt)
    cur = outs[0][0]
    chk.absorb(it)
    data = cur.obj(fmt).fields.get("current_feature_data")
    if not isinstance(data, Ref):
        raise AnalysisError("JSONFormatter.current_feature_data not a dict")

    def d(ref):
        return dict((k, v) for k, v in cur.obj(ref).items)
    elements = [d(e) for e in cur.obj(d(data)["elements"]).items]
    chk.instance("F5")
    want = [("scenario", "S1", "failed"), ("background", "B", None), ("scenario", "S2", "passed")]
    got = [(e.get("type"), e.get("name"), e.get("status")) for e in elements]
    if got == want:
        chk.ok("F5", {"elements": got}, nontrivial_key="element status")
    else:
        m = jc.lookup("background")
        _fail(chk, "F5", "behave.formatter.json:JSONFormatter", m.file, m.lineno, "elements %s" % got,
              "JSON elements after [S1 failed, rule background B, S2 passed] are %s, expected %s: a status is attached to "
              "the wrong element" % (got, want))
    chk.instance("F5")
    bsteps_got = [d(x).get("name") for x in cur.obj(elements[1]["steps"]).items] if len(elements) > 1 and isinstance(elements[1].get("steps"), Ref) else None
    if bsteps_got == ["b-own"]:
        chk.ok("F5", {"rule background element": "lists its own steps", "steps": bsteps_got}, nontrivial_key="background steps")
    else:
        m = jc.lookup("background")
        _fail(chk, "F5", m.fullname, m.file, m.lineno, "background element steps %s" % bsteps_got,
              "the JSON element of a Rule background with the own step b-own (and a step inherited from the feature background) lists the "
              "steps %s, expected ['b-own']: inherited steps are reported twice" % bsteps_got)
    # step results in order
    chk.instance("F5")
    s1 = [d(x) for x in cur.obj(elements[0]["steps"]).items] if isinstance(elements[0].get("steps"), Ref) else []
    res = []
    for sd in s1:
        r = sd.get("result")
        res.append((sd.get("name"), d(r).get("status") if isinstance(r, Ref) else None,
                    bool(isinstance(r, Ref) and d(r).get("error_message"))))
    want_r = [("s1a", "passed", False), ("s1b", "failed", True), ("s1c", "passed", False)]
    if res == want_r:
        chk.ok("F5", {"step_results": res}, nontrivial_key="results in order")
    else:
        m = jc.lookup("result")
        _fail(chk, "F5", m.fullname, m.file, m.lineno, "results %s" % res,
              "JSON step results for [s1a passed, s1b failed with message, s1c passed] are %s, expected %s: the step cursor "
              "is not advanced exactly once per result" % (res, want_r))


# ----------------------------------------------------------------------
# F6
# ----------------------------------------------------------------------
def _dict_keys_in(func):
    keys = set()
    for n in ast.walk(func.node):
        if isinstance(n, ast.Dict):
            for k in n.keys:
                if isinstance(k, ast.Constant) and isinstance(k.value, str):
                    keys.add(k.value)
        if isinstance(n, ast.Assign):
            for t in n.targets:
                if isinstance(t, ast.Subscript) and isinstance(t.slice, ast.Constant) and isinstance(t.slice.value, str):
                    keys.add(t.slice.value)
    return keys


def _get_keys_in(func):
    keys = set()
    for n in ast.walk(func.node):
        if isinstance(n, ast.Call) and isinstance(n.func, ast.Attribute) and n.func.attr == "get" and n.args \
                and isinstance(n.args[0], ast.Constant) and isinstance(n.args[0].value, str):
            keys.add(n.args[0].value)
    return keys


def check_json_keys(chk, ix):
    chk.rule("F6", WHAT["F6"])
    w = ix.cls("behave.formatter.json:JSONFormatter")
    r = ix.cls("behave.json_parser:JsonParser")
    pairs = [("feature", ["feature"], "parse_feature", {"keyword", "name", "tags", "location"}),
             ("background", ["background"], "parse_background", {"keyword", "name", "location", "steps"}),
             ("scenario", ["scenario"], "parse_scenario", {"keyword", "name", "tags", "location", "steps"}),
             ("step", ["step", "result", "match"], "parse_step", {"keyword", "name", "step_type", "location"}),
             ("result", ["result"], "add_step_result", {"status", "duration"}),
             ("table", ["make_table"], "parse_table", {"headings", "rows"})]
    for (kind, wms, rm, required) in pairs:
        wkeys = set()
        for wm in wms:
            f = w.lookup(wm)
            if f is None:
                raise AnalysisError("anchor missing: JSONFormatter.%s" % wm)
            wkeys |= _dict_keys_in(f)
        if kind == "feature":
            wkeys |= {"elements", "description"}
        rf = r.lookup(rm)
        if rf is None:
            raise AnalysisError("anchor missing: JsonParser.%s" % rm)
        rkeys = _get_keys_in(rf)
        chk.instance("F6")
        unread_required = sorted(required - rkeys)
        unwritten = sorted(k for k in rkeys if k not in wkeys and k not in ("examples",))
        if unread_required or unwritten:
            _fail(chk, "F6", rf.fullname, rf.file, rf.lineno, "%s: reader misses %s / reads unwritten %s" % (kind, unread_required, unwritten),
                  "JSON %s: keys written but not read back %s; keys read but never written %s" % (kind, unread_required, unwritten))
        else:
            chk.ok("F6", {"element": kind, "written": sorted(wkeys), "read": sorted(rkeys)}, nontrivial_key=kind)
    # the element types the writer writes are understood by the reader: add_feature_element evaluated on an element of
    # each written type, the parse_* methods recording who is asked
    af = r.lookup("add_feature_element")
    if af is None:
        raise AnalysisError("anchor missing: JsonParser.add_feature_element")
    written_types = set()
    for m in ("background", "scenario"):
        for n in ast.walk(w.lookup(m).node):
            if isinstance(n, ast.Dict):
                for k, v in zip(n.keys, n.values):
                    if isinstance(k, ast.Constant) and k.value == "type" and isinstance(v, ast.Constant):
                        written_types.add(v.value)
    if not written_types:
        raise AnalysisError("anchor missing: the 'type' entries JSONFormatter.background / scenario write")
    want_parser = {"background": "parse_background", "scenario": "parse_scenario", "scenario_outline": "parse_scenario_outline"}
    for t in sorted(written_types):
        chk.instance("F6")
        asked = []
        stubs = {}
        for pm in set(want_parser.values()):
            stubs["JsonParser." + pm] = (lambda i, s_, a, k, n, _pm=pm: (asked.append(_pm), [(s_, "val", s_.alloc(HObj("ParsedTok", {}, open=True, label=_pm)))])[1])
        stubs["FeatureTok.add_scenario"] = lambda i, s_, a, k, n: [(s_, "val", None)]
        it = Interp(ix, stubs=stubs, name="JsonParser.add_feature_element")
        it.int_sat = 100
        st = State()
        st.frames = []
        me = st.alloc(HObj(r, {"current_scenario_outline": None}, label="json parser"))
        feat = st.alloc(HObj("FeatureTok", {"background": None}, open=True, label="feature"))
        elem = st.alloc(HObj("dict", kind="dict", items=[("type", t), ("keyword", "K"), ("name", "n"), ("steps", st.alloc(HObj("list", kind="list", items=[])))]))
        outs = it.call_function(st, af, [feat, elem], {}, None, self_val=me)
        chk.absorb(it)
        ok_ = len(outs) == 1 and outs[0][1] == "val" and asked == [want_parser.get(t.lower())]
        if ok_:
            chk.ok("F6", {"element type written": t, "reader asks": asked}, nontrivial_key=("type", t))
        else:
            _fail(chk, "F6", af.fullname, af.file, af.lineno, "type %r: %s" % (t, [(k_, repr(v_)[:60]) for _, k_, v_ in outs][:2] + asked),
                  "an element of type %r, as the JSON formatter writes it, makes JsonParser.add_feature_element %s (parsers asked: %s); expected %s"
                  % (t, "raise" if any(k_ == "raise" for _, k_, _v in outs) else "return", asked, want_parser.get(t.lower())))


# ----------------------------------------------------------------------
# F7
# ----------------------------------------------------------------------
def check_json_text_roundtrip(chk, ix):
    """F10: multi-line texts survive the JSON report: the writer only splits at line ends, the reader joins the lines
    with the line end again and changes nothing else (JsonParser.parse_step / add_step_result on concrete elements)."""
    chk.rule("F10", WHAT["F10"])
    pc = ix.cls("behave.json_parser:JsonParser")
    ps, ar = pc.lookup("parse_step"), pc.lookup("add_step_result")
    texts = ["  indented first line\n\n    deeper\nlast line  ", "one line", "\n\nstarts with blank lines", "a\n b\n  c", "   "]
    for text in texts:
        as_json = text.splitlines() if "\n" in text else text      # what the writer stores (split_text_into_lines)
        made = []

        def step_ctor(i, s_, a, k, n, _m=made):
            r = s_.alloc(HObj("StepTok", {}, open=True, label="step read back"))
            _m.append(r)
            return [(s_, "val", r)]
        it = Interp(ix, stubs={"Step": step_ctor, "model.Step": step_ctor, "Status.from_name": lambda i, s_, a, k, n: [(s_, "val", "STATUS")]},
                    name="JsonParser.parse_step")
        it.int_sat = 1000
        it.list_cap = 100
        st = State()
        st.frames = []

        def jval(v):
            return st.alloc(HObj("list", kind="list", items=list(v))) if isinstance(v, list) else v
        result = st.alloc(HObj("dict", kind="dict", items=[("status", "failed"), ("duration", 0), ("error_message", jval(as_json))]))
        elem = st.alloc(HObj("dict", kind="dict", items=[("keyword", "Given"), ("step_type", "given"), ("name", "a step"),
                                                         ("location", "x.feature:3"), ("text", jval(as_json)), ("result", result)]))
        me = st.alloc(HObj(pc, {}, open=True, label="json parser"))
        outs = it.call_function(st, ps, [elem], {}, None, self_val=me)
        chk.absorb(it)
        chk.instance("F10")
        if len(outs) != 1 or outs[0][1] != "val" or len(made) != 1:
            raise AnalysisError("JsonParser.parse_step not foldable: %r" % ([(k, v) for _, k, v in outs][:3],))
        so = outs[0][0].obj(made[0])
        got_text, got_err = so.fields.get("text"), so.fields.get("error_message")
        if got_text == text and got_err == text:
            chk.ok("F10", {"text": text, "stored_as": as_json, "read_back": got_text}, nontrivial_key=text)
        else:
            _fail(chk, "F10", ps.fullname, ps.file, ps.lineno, "%r -> %r / %r" % (text, got_text, got_err),
                  "a doc-string / error message %r, stored in the JSON report as %r, is read back as text %r and error message %r" % (
                      text, as_json, got_text, got_err))
    # the writer: what is stored under 'text' / 'error_message' is the text itself or text.splitlines()
    jf = ix.cls("behave.formatter.json:JSONFormatter")
    for meth, key in (("step", "text"), ("result", "error_message")):
        f = jf.lookup(meth)
        chk.instance("F10")
        ok = False
        transforms = []
        for n in ast.walk(f.node):
            if isinstance(n, ast.Assign) and isinstance(n.targets[0], ast.Name) and n.targets[0].id in (key, "text", "error_message") \
                    and isinstance(n.value, ast.Call) and isinstance(n.value.func, ast.Attribute):
                transforms.append(n.value.func.attr)
        if all(t in ("splitlines",) for t in transforms if t not in ("get",)) :
            ok = True
        if ok:
            chk.ok("F10", {"writer": "JSONFormatter.%s" % meth, "stores": "%s or %s.splitlines()" % (key, key)}, nontrivial_key=("writer", meth))
        else:
            _fail(chk, "F10", f.fullname, f.file, f.lineno, "writer transforms %s" % transforms,
                  "JSONFormatter.%s stores the %s after %s: the reader (join with the line end) does not undo that" % (meth, key, transforms))


def check_display_tables(chk, ix):
    chk.rule("F7", WHAT["F7"])
    pc = ix.cls("behave.formatter.progress:ProgressFormatterBase")
    lc = pc.lookup_const("dot_status")
    if lc is None:
        raise AnalysisError("anchor missing: ProgressFormatterBase.dot_status")
    try:
        tab = ix.fold(lc[1], lc[0].module)
    except NotConst as e:
        raise AnalysisError("dot_status is not a literal table: %s" % e)
    keys = {k.name if isinstance(k, EnumVal) else k for k in tab}
    chk.instance("F7")
    missing = [s for s in oracle.STEP_STATUSES if s not in keys]
    if missing:
        _fail(chk, "F7", "behave.formatter.progress:ProgressFormatterBase.dot_status", pc.module.relpath, pc.node.lineno,
              "dot_status lacks %s" % ",".join(missing), "progress formatter has no dot for step status %s (KeyError while reporting)" % missing)
    else:
        chk.ok("F7", {"table": "dot_status", "keys": sorted(keys)}, nontrivial_key="dot_status")
    am = ix.module("behave.formatter.ansi_escapes")
    try:
        aliases = ix.fold(am.consts["aliases"], am)
    except (KeyError, NotConst) as e:
        raise AnalysisError("ansi_escapes.aliases not a literal table: %s" % e)
    chk.instance("F7")
    missing = [s for s in oracle.STEP_STATUSES + ("executing",) if s not in aliases]
    if missing:
        _fail(chk, "F7", "behave.formatter.ansi_escapes:aliases", am.relpath, 1, "aliases lacks %s" % ",".join(missing),
              "no colour alias for status %s (pretty formatter fails while printing such a step)" % missing)
    else:
        chk.ok("F7", {"table": "ansi aliases", "keys": sorted(aliases)}, nontrivial_key="aliases")


# ----------------------------------------------------------------------
# F8
# ----------------------------------------------------------------------
def _self_calls(func):
    return {n.func.attr for n in ast.walk(func.node) if isinstance(n, ast.Call) and isinstance(n.func, ast.Attribute)
            and isinstance(n.func.value, ast.Name) and n.func.value.id == "self"}


def _closure(ci, name, seen=None):
    seen = seen if seen is not None else set()
    f = ci.lookup(name)
    if f is None or f.fullname in seen:
        return []
    seen.add(f.fullname)
    out = [f]
    for c in _self_calls(f):
        out.extend(_closure(ci, c, seen))
    return out


def _pops_used(func):
    """self.steps.pop(...) whose value is used."""
    used = False
    for n in ast.walk(func.node):
        if isinstance(n, ast.Call) and isinstance(n.func, ast.Attribute) and n.func.attr == "pop" and unparse(n.func.value) == "self.steps":
            parent = getattr(n, "_parent", None)
            if not isinstance(parent, ast.Expr):
                used = True
    return used


def _resets_queue(func):
    for n in ast.walk(func.node):
        if isinstance(n, ast.Assign) and any(unparse(t) == "self.steps" for t in n.targets):
            return True
        if isinstance(n, ast.Call) and isinstance(n.func, ast.Attribute) and n.func.attr == "clear" and unparse(n.func.value) == "self.steps":
            return True
        if isinstance(n, ast.While) and unparse(n.test) == "self.steps":
            return True
    return False


def check_step_queues(chk, ix):
    chk.rule("F8", WHAT["F8"])
    base = ix.cls("behave.formatter.base:Formatter")
    classes = [c for c in ix.subclasses(base) if c.module.name.startswith("behave.formatter")]
    n_queue = 0
    for c in sorted(classes, key=lambda x: x.fullname):
        stepf = c.lookup("step")
        if stepf is None or not any(isinstance(n, ast.Call) and isinstance(n.func, ast.Attribute) and n.func.attr == "append"
                                    and unparse(n.func.value) == "self.steps" for n in ast.walk(stepf.node)):
            continue
        n_queue += 1
        result_fs = _closure(c, "result")
        match_fs = _closure(c, "match")
        uses = any(_pops_used(f) for f in result_fs + match_fs)
        chk.instance("F8")
        if not uses:
            chk.ok("F8", {"formatter": c.name, "reports": "its result() argument (dequeued value discarded)"}, nontrivial_key=c.fullname)
            continue
        missing = []
        for boundary in ("scenario", "background", "rule", "feature"):
            if c.lookup(boundary) is None or c.lookup(boundary).cls is base:
                continue
            fs = _closure(c, boundary)
            if not any(_resets_queue(f) for f in fs):
                # feature(): acceptable if eof() resets (queue is empty at the start of the next feature)
                if boundary == "feature" and any(_resets_queue(f) for f in _closure(c, "eof")):
                    continue
                missing.append(boundary)
        if missing:
            f = c.lookup("result")
            _fail(chk, "F8", f.fullname, f.file, f.lineno, "%s: queue not reset in %s" % (c.name, ",".join(missing)),
                  "%s reports the step it dequeues in result()/match() but does not reset or drain its step queue in %s(): "
                  "steps announced for a scenario that is shown but not (fully) executed shift the results of the next one" % (
                      c.name, "(), ".join(missing)))
        else:
            chk.ok("F8", {"formatter": c.name, "reports": "the dequeued step", "queue_reset_at": "every boundary"}, nontrivial_key=c.fullname)
    if n_queue < 3:
        raise AnalysisError("step-queue formatters found: %d (expected plain, pretty, progress family)" % n_queue)


WHAT["F11"] = "textutil.indent prefixes every line and keeps every line end (a rendered doc-string or table stays on its own lines)"


def check_indent(chk, ix):
    """F11: behave.textutil.indent constant-folded on text and on lists of lines."""
    chk.rule("F11", WHAT["F11"])
    f = ix.func("behave.textutil:indent")
    cases = [("a\nb\n", "  "), ("a\nb", "  "), ("single\n", "    "), ("", "  "), ("x\n\ny\n", "> "),
             (["l1\n", "l2\n"], "  "), (["l1", "l2"], "  "), ([], "  ")]

    def oracle(text, prefix):
        if isinstance(text, str):
            return "".join(prefix + line for line in text.splitlines(True))
        if text and not text[0].endswith("\n"):
            return "\n".join(prefix + line for line in text)
        return "".join(prefix + line for line in text)
    it = Interp(ix, name="textutil.indent")
    it.int_sat = 1000
    it.list_cap = 100
    for text, prefix in cases:
        st = State()
        st.frames = []
        arg = st.alloc(HObj("list", kind="list", items=list(text))) if isinstance(text, list) else text
        outs = it.call_function(st, f, [arg, prefix], {}, None)
        chk.instance("F11")
        if len(outs) != 1 or outs[0][1] != "val" or not isinstance(outs[0][2], str):
            raise AnalysisError("textutil.indent not foldable on %r: %r" % (text, [(k, v) for _, k, v in outs][:2]))
        want = oracle(text, prefix)
        if outs[0][2] == want:
            chk.ok("F11", {"text": text, "prefix": prefix, "indented": want}, nontrivial_key=repr((text, prefix)))
        else:
            _fail(chk, "F11", f.fullname, f.file, f.lineno, "%r -> %r" % (text, outs[0][2]),
                  "indent(%r, %r) gives %r, expected %r: a line end is lost, so the next step is printed on the same line as the doc-string's "
                  "closing quotes / the table's last row" % (text, prefix, outs[0][2], want))
    chk.absorb(it)



WHAT["F12"] = "an output stream opener closes and forgets only a stream it opened itself; a pre-opened stream (stdout shared by several formatters) stays open and stays known"


def check_stream_opener_close(chk, ix):
    """F12: StreamOpener.close evaluated for a pre-opened stream and for a stream the opener opened."""
    chk.rule("F12", WHAT["F12"])
    oc = ix.cls("behave.formatter.base:StreamOpener")
    f = oc.lookup("close")
    if f is None:
        raise AnalysisError("anchor missing: StreamOpener.close")
    for owned in (False, True):
        closed_calls = []
        it = Interp(ix, stubs={"StreamTok.close": lambda i, s_, a, k, n: (closed_calls.append(1), [(s_, "val", None)])[1]}, name="StreamOpener.close")
        it.int_sat = 100
        st = State()
        st.frames = []
        stream = st.alloc(HObj("StreamTok", {"closed": False}, label="stream"))
        me = st.alloc(HObj(oc, {"name": None if not owned else "out.txt", "stream": stream, "encoding": "UTF-8", "should_close_stream": owned}, label="opener"))
        outs = it.call_function(st, f, [], {}, None, self_val=me)
        chk.absorb(it)
        chk.instance("F12")
        if len(outs) != 1 or outs[0][1] != "val":
            raise AnalysisError("StreamOpener.close not evaluable: %r" % [(k, v) for _, k, v in outs][:3])
        s1 = outs[0][0]
        still = s1.obj(me).fields.get("stream")
        kept = isinstance(still, Ref) and still.oid == stream.oid
        ok_ = (bool(closed_calls) == owned) and (kept != owned) and (outs[0][2] is owned or outs[0][2] == owned)
        if ok_:
            chk.ok("F12", {"stream opened by the opener": owned, "closed": bool(closed_calls), "still known": kept, "returns": outs[0][2]}, nontrivial_key=owned)
        else:
            _fail(chk, "F12", f.fullname, f.file, f.lineno, "owned=%s closed=%s kept=%s returns=%r" % (owned, bool(closed_calls), kept, outs[0][2]),
                  "StreamOpener.close() on a stream it %s: stream.close() %s, the opener %s the stream, returns %r; expected: %s. "
                  "Several formatters writing to stdout share one opener: the second formatter's close() would find the stream gone" % (
                      "opened itself" if owned else "did not open (pre-opened, e.g. stdout)", "called" if closed_calls else "not called",
                      "still knows" if kept else "forgets", outs[0][2], "closed, forgotten, True" if owned else "left open, still known, False"))


WHAT["F13"] = ("the argument values JSONFormatter.match stores are JSON scalars: a value of any other type (a custom object, a list of them "
               "from a cardinality-many field) is replaced by the argument's original text - json.dumps never meets a foreign type")


def check_json_argument_values(chk, ix):
    """F13: JSONFormatter.match evaluated on arguments whose values are a number, a text, None, a custom object, a list and a tuple of
    custom objects, a dict."""
    chk.rule("F13", WHAT["F13"])
    jc, it, st, fmt = _json_world(ix)
    it.list_cap = 100
    feature = _tok(st, "Feature", "F", status=S("passed"))
    sc = _tok(st, "Scenario", "S", status=S("passed"))
    step = _tok(st, "Step", "s", status=S("passed"))
    obj = lambda lab: st.alloc(HObj("CustomValueTok", {}, label=lab))      # noqa: E731
    values = [("a number", 42, True), ("a text", "chrome", True), ("None", None, True), ("a custom object", obj("colour"), False),
              ("a list of custom objects", st.alloc(HObj("list", kind="list", items=[obj("c1"), obj("c2")])), False),
              ("a tuple of custom objects", (obj("c3"),), False),
              ("a dictionary", st.alloc(HObj("dict", kind="dict", items=[("k", obj("c4"))])), False)]
    args = [st.alloc(HObj("ArgumentTok", {"value": v, "original": "original text %d" % i, "name": "arg%d" % i, "start": 0, "end": 1}, label="argument %d" % i))
            for i, (_, v, _s) in enumerate(values)]
    match = st.alloc(HObj("MatchTok", {"arguments": st.alloc(HObj("list", kind="list", items=args)), "location": "steps.py:1"}, label="match"))
    cur = st
    for (ev, arg) in (("feature", feature), ("scenario", sc), ("step", step), ("match", match)):
        m = jc.lookup(ev)
        if m is None:
            raise AnalysisError("anchor missing: JSONFormatter.%s" % ev)
        outs = it.call_function(cur, m, [arg], {}, None, self_val=fmt)
        outs = [o for o in outs if not (o[1] == "raise" and getattr(o[2], "internal", None) == "assert")] or outs
        if len(outs) != 1 or outs[0][1] != "val":
            if ev == "match":
                chk.instance("F13")
                _fail(chk, "F13", m.fullname, m.file, m.lineno, "match raises", "JSONFormatter.match fails on arguments with values %s: %r"
                      % ([l for l, _, _ in values], [(k, v) for _, k, v in outs][:1]))
                return
            raise AnalysisError("JSONFormatter.%s not evaluable: %r" % (ev, [(k, v) for _, k, v in outs][:2]))
        cur = outs[0][0]
    chk.absorb(it)

    def d(ref):
        return dict((k, v) for k, v in cur.obj(ref).items)
    try:
        el = d(cur.obj(d(cur.obj(fmt).fields["current_feature_data"])["elements"]).items[0])
        stp = d(cur.obj(el["steps"]).items[0])
        stored = [d(a) for a in cur.obj(d(stp["match"])["arguments"]).items]
    except Exception as e:      # noqa
        import traceback
        raise AnalysisError("JSONFormatter: the stored match arguments were not found in the feature data (%s) %s" % (e, traceback.format_exc()[-600:]))
    m = jc.lookup("match")
    for (label, v, scalar), got in zip(values, stored):
        chk.instance("F13")
        gv = got.get("value")
        if scalar:
            ok = gv == v and (v is None or isinstance(gv, type(v)))
            want = repr(v)
        else:
            ok = isinstance(gv, str) and gv.startswith("original text")
            want = "the original text"
        if ok:
            chk.ok("F13", {"argument value": label, "stored": repr(gv)}, nontrivial_key=label)
        else:
            _fail(chk, "F13", m.fullname, m.file, m.lineno, "%s -> %r" % (label, gv), "an argument whose value is %s is stored in the JSON data as %r "
                  "(expected %s): json.dumps fails on it at the end of the feature, the report is cut off and the run aborts" % (label, gv, want))
    chk.require_instances("F13", 7)
