# -*- coding: utf-8 -*-
"""C03 rules on the status classification and the roll-up functions.

  R1  Status predicates partition the reportable statuses (appendix A.1, docs tables)
  R2  ScenarioStatus.from_step_status / OuterStatus.from_inner_status = documented table
  R3  roll-up automata of Scenario / ScenarioContainer / ScenarioOutline.compute_status
      over child sequences of every length and order (loop fixpoint)
  R5  reset() chains re-initialise the status-relevant fields and recurse into children
  RF4 the three compute_status siblings agree on the cases they handle
"""
from __future__ import annotations

import ast
import os
import re

from .index import EnumVal, AnalysisError, ClassInfo, unparse, repo_root
from .values import Top, GE2, HObj, Ref, Exc, State, AbsSeq
from .absint import Interp
from .monitors import MonitorSet, Recorder
from .report import Finding
from .world import World, S
from . import oracle

WHAT = {
    "R1": "Status predicates: passed-like / failure / error / skipped / untested partition the reportable statuses; has_failed = error or failure; untested is not final",
    "R2": "inner->outer status mapping functions equal the documented table",
    "R3": "compute_status roll-up over all child sequences: hook error, error/failed by first problem child, skipped only if all skipped, passed only if nothing failed/untested, all untested => untested",
    "R5": "reset() re-initialises cached status, should_skip, hook_failed, was_dry_run, step status and recurses into the children",
    "RF4": "the three compute_status implementations handle the same child classes",
}


# ----------------------------------------------------------------------
def rst_tables(path):
    """Simple-table reader: -> list of (header cells, rows)."""
    lines = open(path, encoding="utf-8").read().splitlines()
    tables = []
    i = 0
    while i < len(lines):
        if re.match(r"^=+( +=+)+\s*$", lines[i]) and i + 2 < len(lines) and re.match(r"^=+( +=+)+\s*$", lines[i + 2]):
            border = lines[i]
            cols = [(m.start(), m.end()) for m in re.finditer(r"=+", border)]

            def cells(ln):
                out = []
                for n, (a, b) in enumerate(cols):
                    end = cols[n + 1][0] if n + 1 < len(cols) else len(ln)
                    out.append(ln[a:end].strip().strip("`"))
                return out
            header = cells(lines[i + 1])
            rows = []
            j = i + 3
            while j < len(lines) and not re.match(r"^=+( +=+)*\s*$", lines[j]):
                if lines[j].strip():
                    rows.append(cells(lines[j]))
                j += 1
            tables.append((header, rows))
            i = j + 1
        else:
            i += 1
    return tables


def _pred_table(ix, it):
    Sc = ix.cls("behave.model_core:Status")
    table = {}
    for pred in ("is_passed", "is_failure", "is_error", "is_untested", "has_failed", "is_final", "is_pending", "is_undefined"):
        f = Sc.lookup(pred)
        if f is None:
            raise AnalysisError("anchor missing: Status.%s" % pred)
        row = set()
        for m in ix.enum_members("Status"):
            outs = it.run(f, State(), [], self_val=m)
            if len(outs) != 1 or outs[0][1] != "val" or not isinstance(outs[0][2], bool):
                raise AnalysisError("Status.%s(%s) not decidable: %r" % (pred, m.name, outs))
            if outs[0][2]:
                row.add(m.name)
        table[pred] = row
    return table


def check_status_tables(chk, ix):
    chk.rule("R1", WHAT["R1"])
    it = Interp(ix, name="Status predicates")
    Sc = ix.cls("behave.model_core:Status")
    fi_file = Sc.module.relpath
    members = [m.name for m in ix.enum_members("Status")]
    t = _pred_table(ix, it)
    chk.absorb(it)

    def fail(pred, witness, text):
        fn = Sc.lookup(pred)
        chk.fail(Finding("R1", "behave.model_core:Status." + pred, witness, text, file=fi_file,
                         line=fn.lineno if fn else Sc.node.lineno, stmt="def " + pred))
    missing = [m for m in oracle.ALL_STATUS if m not in members]
    if missing:
        raise AnalysisError("Status members vanished: %s" % missing)
    new = [m for m in members if m not in oracle.ALL_STATUS]
    for m in new:
        chk.notes.append("new Status member %s: not covered by the oracle tables" % m)
    want = {"is_passed": set(oracle.PASSED_LIKE), "is_failure": set(oracle.FAILURE), "is_error": set(oracle.ERROR_CLASS),
            "is_untested": set(oracle.UNTESTED_CLASS), "has_failed": set(oracle.HAS_FAILED),
            "is_pending": set(oracle.PENDING_CLASS), "is_undefined": set(oracle.UNDEFINED_CLASS)}
    for pred, w in want.items():
        chk.instance("R1")
        got = t[pred] - set(new)
        if got == w:
            chk.ok("R1", {"predicate": pred, "members": sorted(got)}, nontrivial_key=pred)
        else:
            fail(pred, "extra=%s missing=%s" % (sorted(got - w), sorted(w - got)),
                 "Status.%s is true for %s; the status classification requires %s" % (pred, sorted(got), sorted(w)))
    # partition
    classes = {"is_passed": t["is_passed"], "is_failure": t["is_failure"], "is_error": t["is_error"],
               "is_untested": t["is_untested"], "skipped": {"skipped"}}
    reportable = [m for m in members if m not in oracle.RESERVED]
    for m in reportable:
        chk.instance("R1")
        inn = [c for c, s in classes.items() if m in s]
        if len(inn) == 1:
            chk.ok("R1", None, nontrivial_key=("partition", m))
        else:
            fail("is_error", "partition %s in %s" % (m, inn), "status %s belongs to %d classes %s (must be exactly one)" % (m, len(inn), inn))
    # finality: untested-class statuses that a compute_status can return must be recomputed
    chk.instance("R1")
    if "untested" in t["is_final"]:
        fail("is_final", "untested is final", "Status.untested counts as final: a cached untested status would never be recomputed")
    else:
        chk.ok("R1", "untested is not final", nontrivial_key="final-untested")
    for m in ("skipped", "passed", "failed", "error", "hook_error"):
        chk.instance("R1")
        if m not in t["is_final"]:
            fail("is_final", "%s not final" % m, "Status.%s is not final although it is a definite result" % m)
        else:
            chk.ok("R1", None, nontrivial_key=("final", m))
    # docs cross-check
    doc = os.path.join(repo_root(), "docs", "appendix.status.rst")
    if os.path.exists(doc):
        for header, rows in rst_tables(doc):
            hl = [h.lower().rstrip("?") for h in header]
            if hl and hl[0] == "status" and "error" in hl:
                for row in rows:
                    name = row[0]
                    if name not in members:
                        continue
                    for col, pred in (("error", "is_error"), ("failed", "is_failure"), ("untested", "is_untested"),
                                      ("pending", "is_pending"), ("undefined", "is_undefined")):
                        if col in hl:
                            cell = row[hl.index(col)].lower()
                            if cell in ("yes", "no"):
                                chk.instance("R1")
                                if (cell == "yes") == (name in t[pred]):
                                    chk.ok("R1", None, nontrivial_key=("doc", name, col))
                                else:
                                    fail(pred, "docs: %s %s=%s" % (name, col, cell),
                                         "docs/appendix.status.rst says %s %s? %s but Status.%s gives %s" % (
                                             name, col, cell, pred, name in t[pred]))
    chk.require_instances("R1", 20)
    return t


def check_mapping_functions(chk, ix):
    chk.rule("R2", WHAT["R2"])
    it = Interp(ix, name="status mapping")
    doc = os.path.join(repo_root(), "docs", "appendix.status.rst")
    doc_map = {}
    if os.path.exists(doc):
        for header, rows in rst_tables(doc):
            hl = [h.lower() for h in header]
            if hl[:2] == ["inner status", "outer status"]:
                for row in rows:
                    doc_map[row[0]] = row[1]
    for fname, domain in (("behave.model_core:ScenarioStatus.from_step_status", oracle.STEP_STATUSES),
                          ("behave.model_core:OuterStatus.from_inner_status", oracle.SCENARIO_STATUSES + ("pending_warn",))):
        f = ix.func(fname)
        for name in domain:
            chk.instance("R2")
            outs = it.run(f, State(), [S(name)])
            want = oracle.outer_from_inner(name)
            if name in doc_map and doc_map[name] != want:
                chk.fail(Finding("R2", fname, "docs-vs-oracle %s" % name,
                                 "documented table maps %s to %s, oracle says %s" % (name, doc_map[name], want),
                                 file=f.file, line=f.lineno))
                continue
            got = [(k, v) for (_, k, v) in outs]
            if len(got) == 1 and got[0][0] == "val" and isinstance(got[0][1], EnumVal) and got[0][1].name == want:
                chk.ok("R2", {"function": fname.split(":")[1], "inner": name, "outer": want}, nontrivial_key=(fname, name))
            else:
                chk.fail(Finding("R2", fname, "%s -> %s" % (name, [getattr(v, "name", repr(v)) for _, v in got]),
                                 "%s(%s) gives %s, documented outer status is %s" % (
                                     fname.split(":")[1], name, [getattr(v, "name", repr(v)) for _, v in got], want),
                                 file=f.file, line=f.lineno, stmt="def " + f.name))
    chk.absorb(it)
    chk.require_instances("R2", 15)


# ----------------------------------------------------------------------
# R3
# ----------------------------------------------------------------------
def _explore_compute_status(ix, kind, symbols, mutate=None):
    """kind: scenario | feature | rule | outline"""
    w = World(ix)
    spec = {"scenario": ("behave.model:Scenario", "all_steps"),
            "feature": ("behave.model:Feature", "run_items"),
            "rule": ("behave.model:Rule", "run_items"),
            "outline": ("behave.model:ScenarioOutline", "_scenarios")}[kind]
    ci = ix.cls(spec[0])
    func = ci.lookup("compute_status")
    if mutate:
        func = mutate(func)
    cls_of = {n: oracle.status_class(n) for n in oracle.ALL_STATUS}

    def rec(st, ev):
        g = st.ghost
        if ev[0] == "iter":
            # the loop walks the children themselves, (lazily) their statuses, or tuples that carry one of the two (a helper
            # generator yielding pairs); an element seen twice - in the helper's loop and in the consumer's - changes nothing below
            el = ev[3]
            if isinstance(el, tuple):
                el = next((x for x in el if isinstance(x, EnumVal) or (isinstance(x, Ref) and "status" in st.obj(x).fields)), None)
            if isinstance(el, EnumVal):
                v = el.name
            elif isinstance(el, Ref) and isinstance(st.obj(el).fields.get("status"), EnumVal):
                v = st.obj(el).fields["status"].name
            else:
                raise AnalysisError("compute_status walks something that is neither a child nor a status: %r" % (ev[3],))
            c = cls_of[v]
            g["n"] = 1 if g.get("n", 0) == 0 else GE2
            problem_classes = ("failure", "error", "untested") if kind != "scenario" else ("failure", "error", "untested", "skipped")
            if g.get("first_problem") is None and c in problem_classes:
                g["first_problem"] = c
            g["has_" + c] = True
        elif ev[0] == "loopexit":
            g["exhausted"] = True

    mons = MonitorSet([Recorder(rec)])
    stubs = dict(w.stubs)
    stubs["ScenarioOutline._expected_scenarios_count"] = lambda it, st, a, k, n: [(st, "val", Top("expected-rows", True, domain=(0, GE2)))]
    it = Interp(ix, stubs=stubs, on_event=mons, name=ci.name + ".compute_status")
    it.track_len = True
    st = w.new_state()

    def factory(interp, s):
        out = []
        for sym in symbols:
            s2 = s.fork()
            out.append((s2, s2.alloc(HObj("ChildStub", {"status": S(sym)}, label="child")), sym))
        return out
    seq = AbsSeq("children", factory)
    lst = HObj("list", kind="list", items=None, label="children")
    lst.base = "children"
    lst.fields["@seq"] = seq
    lref = st.alloc(lst)
    fields = {"hook_failed": Top("bool:hook_failed", True, domain=(False, True)),
              "_cached_status": S("untested"), "was_dry_run": Top("was_dry_run", True),
              "should_skip": Top("bool:should_skip", True, domain=(False, True)),
              "run_items": lref, "_scenarios": lref, "examples": Top("examples", True),
              "steps": lref, "_background_steps": st.alloc(HObj("list", kind="list", items=[])),
              "background": None, "_use_background": True, "name": "x", "tags": ()}
    me = st.alloc(HObj(ci, fields, label=kind))
    st.pinned = (me.oid,)
    st.freeze_base()
    outs = it.run(func, st, [], {}, self_val=me)
    return it, func, outs, me


def check_rollup(chk, ix, tier="quick", mutate=None):
    chk.rule("R3", WHAT["R3"])
    for kind in ("scenario", "feature", "rule", "outline"):
        if kind == "scenario":
            symbols = list(oracle.STEP_STATUSES) if tier == "thorough" else \
                ["passed", "pending_warn", "skipped", "failed", "error", "hook_error", "undefined", "pending",
                 "untested", "untested_undefined"]
        else:
            symbols = list(oracle.SCENARIO_STATUSES)
        it, func, outs, me = _explore_compute_status(ix, kind, symbols, mutate)
        chk.absorb(it)
        chk.instance("R3")
        fname = "%s:%s[as %s]" % (func.module.name, func.qualname, kind)
        for (s, k, v) in outs:
            g = s.ghost
            hook_failed = s.obj(me).fields.get("hook_failed")
            facts = {c: bool(g.get("has_" + c)) for c in ("passed", "failure", "error", "skipped", "untested")}
            n = g.get("n", 0)
            exhausted = bool(g.get("exhausted")) or g.get("#n:children") == 0
            fp = g.get("first_problem")
            wit = "hook_failed=%s children=%s first_problem=%s exhausted=%s" % (
                hook_failed, "+".join(c for c, b in facts.items() if b) or "none", fp, exhausted)

            def bad(text):
                chk.fail(Finding("R3", fname, wit + " -> " + (v.name if isinstance(v, EnumVal) else repr(v)), text,
                                 file=func.file, line=func.lineno, stmt="def compute_status", path=list(s.path),
                                 imprecise=bool(s.imprecise)))
            if k == "val" and isinstance(v, Top):
                raise AnalysisError("compute_status[as %s]: the result is a value the interpreter could not determine (%s)" % (kind, v.tag))
            if k != "val" or not isinstance(v, EnumVal):
                if k == "raise" and n == 0:
                    continue
                bad("compute_status does not return a status: %s %r" % (k, v))
                continue
            res = v.name
            if n == 0 and hook_failed is not True:
                if exhausted:
                    # empty container: out of scope of the property
                    continue
                bad("roll-up decided without looking at any child: status %s would be reported whatever "
                    "the children's statuses are" % res)
                continue
            err = None
            if hook_failed is True:
                if res != "hook_error":
                    err = "(a) hook failed but status is %s" % res
            else:
                only = lambda *cs: all(not facts[c] for c in facts if c not in cs)
                if res == "passed":
                    if not exhausted:
                        err = "(b) passed decided before all children were looked at"
                    elif facts["failure"] or facts["error"] or facts["untested"]:
                        err = "(b) passed although a child is %s" % "/".join(c for c in ("failure", "error", "untested") if facts[c])
                    elif not facts["passed"]:
                        err = "(b) passed although no child passed"
                if not err and res == "skipped" and kind != "scenario":
                    if not exhausted or not only("skipped"):
                        err = "(c) skipped although not every child is skipped"
                if not err and facts["untested"] and only("untested") and res != "untested":
                    err = "(d) every child untested but status is %s (never passed)" % res
                if not err and fp == "error" and res != "error":
                    err = "(e) first problem child is error-class but status is %s" % res
                if not err and fp == "failure" and res != "failed":
                    err = "(e) first problem child failed but status is %s" % res
                if not err and exhausted and kind != "scenario" and facts["passed"] and only("passed", "skipped") and res != "passed":
                    err = "(f) children passed/skipped only but status is %s" % res
                if not err and exhausted and facts["skipped"] and only("skipped") and res != "skipped":
                    err = "(f) every child skipped but status is %s" % res
                if not err and exhausted and kind == "scenario" and facts["passed"] and only("passed") and res != "passed":
                    err = "(f) every step passed but status is %s" % res
                if not err and res not in oracle.SCENARIO_STATUSES:
                    err = "status %s is not a scenario/feature level status" % res
            if err:
                bad("roll-up " + err)
            else:
                chk.ok("R3", {"element": kind, "children": wit, "status": res}, nontrivial_key=(kind, wit, res))
        # never-built outline rows
    chk.require_instances("R3", 4)


# ----------------------------------------------------------------------
# R5 reset chain (by evaluation: reset() run on an element whose status fields are dirty and whose children record the call)
# ----------------------------------------------------------------------
def check_reset_chain(chk, ix):
    chk.rule("R5", WHAT["R5"])
    clean = {"_cached_status": "untested", "should_skip": False, "hook_failed": False, "was_dry_run": False, "status": "untested"}
    want = {
        "behave.model:Step": ({"status", "hook_failed"}, ()),
        "behave.model:Scenario": ({"_cached_status", "should_skip", "hook_failed", "was_dry_run"}, ("background step", "own step")),
        "behave.model:ScenarioOutline": ({"_cached_status", "should_skip", "hook_failed", "was_dry_run"}, ("background step", "own step", "generated scenario")),
        "behave.model:Feature": ({"_cached_status", "should_skip", "hook_failed"}, ("run item 1", "run item 2")),
        "behave.model:Rule": ({"_cached_status", "should_skip", "hook_failed"}, ("run item 1", "run item 2")),
    }
    for spec, (fields, children) in want.items():
        ci = ix.cls(spec)
        f = ci.lookup("reset")
        if f is None:
            raise AnalysisError("anchor missing: %s.reset" % spec)
        log = []

        def child_reset(it_, st_, a, k, n, _log=log):
            _log.append(st_.obj(a[0]).label)
            return [(st_, "val", None)]
        stubs = {"ChildStub.reset": child_reset}
        if ci.name in ("Feature", "Rule"):
            # the children are real model elements (the container may tell scenarios from rules)
            stubs.update({"Scenario.reset": child_reset, "ScenarioOutline.reset": child_reset, "Rule.reset": child_reset, "ScenarioContainer.reset": child_reset})
        it = Interp(ix, stubs=stubs, name=ci.name + ".reset")
        it.list_cap = 100
        st = State()
        st.frames = []

        def kid(label):
            return st.alloc(HObj("ChildStub", {}, open=True, label=label))

        def lst(*labels):
            return st.alloc(HObj("list", kind="list", items=[kid(x) for x in labels]))
        dirty = {"_cached_status": S("failed"), "status": S("failed"), "should_skip": True, "skip_reason": "why", "hook_failed": True,
                 "was_dry_run": True, "_row": "row", "duration": 3, "run_starttime": 1, "run_endtime": 2,
                 "exception": "exc", "exc_traceback": "tb", "error_message": "msg",
                 "captured": st.alloc(HObj("CapturedTok", {}, open=True, label="captured")),
                 "background": st.alloc(HObj("BackgroundTok", {}, open=True, label="background")), "_use_background": True,
                 "_background_steps": lst("background step"), "steps": lst("own step"), "_scenarios": lst("generated scenario"),
                 "run_items": lst("run item 1", "run item 2"), "name": "x", "tags": (), "examples": st.alloc(HObj("list", kind="list", items=[]))}
        if ci.name in ("Feature", "Rule"):
            sc = st.alloc(HObj(ix.cls("behave.model:Scenario"), {"name": "s", "tags": ()}, open=True, label="run item 1"))
            if ci.name == "Feature":
                inner = st.alloc(HObj(ix.cls("behave.model:Scenario"), {"name": "s2", "tags": ()}, open=True, label="scenario inside the rule"))
                other = st.alloc(HObj(ix.cls("behave.model:Rule"), {"name": "r", "tags": (), "run_items": st.alloc(HObj("list", kind="list", items=[inner])),
                                                                     "scenarios": st.alloc(HObj("list", kind="list", items=[inner]))},
                                      open=True, label="run item 2"))
                dirty["rules"] = st.alloc(HObj("list", kind="list", items=[other]))
                dirty["scenarios"] = st.alloc(HObj("list", kind="list", items=[sc]))
            else:
                other = st.alloc(HObj(ix.cls("behave.model:ScenarioOutline"), {"name": "o", "tags": ()}, open=True, label="run item 2"))
                dirty["scenarios"] = st.alloc(HObj("list", kind="list", items=[sc, other]))
            dirty["run_items"] = st.alloc(HObj("list", kind="list", items=[sc, other]))
        me = st.alloc(HObj(ci, dirty, label=ci.name))
        try:
            outs = it.call_function(st, f, [], {}, None, self_val=me, _body=f.node.body)      # _body: the element's own reset() is not stubbed
        except AnalysisError as e:
            raise AnalysisError("%s.reset not evaluable: %s" % (ci.name, e))
        chk.absorb(it)
        chk.instance("R5")
        if len(outs) != 1 or outs[0][1] != "val":
            raise AnalysisError("%s.reset not evaluable: %r" % (ci.name, [(k, v) for _, k, v in outs][:3]))
        after = outs[0][0].obj(me).fields

        def same(v, w):
            return (isinstance(v, EnumVal) and v.name == w) if isinstance(w, str) else (v is w)
        miss_f = sorted(x for x in fields if not same(after.get(x), clean[x]))
        miss_c = sorted(c for c in children if c not in log)
        if miss_f or miss_c:
            chk.fail(Finding("R5", f.fullname + "[as %s]" % ci.name, "missing fields=%s children=%s" % (miss_f, miss_c),
                             "%s.reset() on an element that has run (failed, hook failed, marked to skip): afterwards %s still hold(s) the old value / "
                             "reset() was not called on %s" % (ci.name, miss_f, miss_c),
                             file=f.file, line=f.lineno, stmt="def reset"))
        else:
            chk.ok("R5", {"class": ci.name, "resets": sorted(fields), "resets children": list(children)}, nontrivial_key=spec)
    chk.require_instances("R5", 5)


WHAT["R7"] = ("mark_skipped() leaves every kind of element with the status skipped - also one that has no children (an outline whose "
              "Examples have no rows, a scenario without steps, an empty feature or rule): its own assertion must hold, name selection "
              "and user hooks call it on such elements")


def check_mark_skipped_postcondition(chk, ix):
    """R7: mark_skipped() evaluated on an element of every class with no children and with two untested children."""
    chk.rule("R7", WHAT["R7"])
    specs = [("behave.model:Scenario", "steps"), ("behave.model:ScenarioOutline", "_scenarios"),
             ("behave.model:Feature", "run_items"), ("behave.model:Rule", "run_items")]
    for spec, child_field in specs:
        ci = ix.cls(spec)
        f = ci.lookup("mark_skipped")
        if f is None:
            raise AnalysisError("anchor missing: %s.mark_skipped" % spec)
        for n_children in (0, 2):
            def child_skip(it_, st_, a, k, n):
                st_.wobj(a[0]).fields["status"] = S("skipped")
                return [(st_, "val", None)]
            stubs = {"ChildStub.skip": child_skip, "ChildStub.mark_skipped": child_skip, "logging.getLogger": lambda it_, st_, a, k, n: [(st_, "val", Top("logger", False))]}
            it = Interp(ix, stubs=stubs, name=ci.name + ".mark_skipped")
            it.list_cap = 100
            it.int_sat = 100
            it.track_len = True
            st = State()
            st.frames = []
            kids = [st.alloc(HObj("ChildStub", {"status": S("untested"), "should_skip": False}, open=True, label="child %d" % (i + 1)))
                    for i in range(n_children)]

            def lst(items=()):
                return st.alloc(HObj("list", kind="list", items=list(items)))
            fields = {"_cached_status": S("untested"), "should_skip": False, "skip_reason": None, "hook_failed": False, "was_dry_run": False,
                      "name": "x", "tags": (), "background": None, "_background_steps": lst(), "_use_background": True,
                      "steps": lst(), "_scenarios": lst(), "examples": lst(), "run_items": lst(), "scenarios": lst(), "rules": lst(),
                      "type": ci.name.lower(), "_row": None, "parent": None, "feature": None}
            fields[child_field] = lst(kids)
            if ci.name in ("Feature", "Rule"):
                fields["scenarios"] = fields["run_items"]
            me = st.alloc(HObj(ci, fields, label=ci.name))
            try:
                outs = it.call_function(st, f, [], {}, None, self_val=me)
            except AnalysisError as e:
                raise AnalysisError("%s.mark_skipped not evaluable (%d children): %s" % (ci.name, n_children, e))
            chk.absorb(it)
            chk.instance("R7")
            bad = [(k, v) for (_, k, v) in outs if k != "val"]
            label = "%s with %s" % (ci.name, "no children" if not n_children else "%d untested children" % n_children)
            if not outs:
                raise AnalysisError("%s.mark_skipped: no outcome" % ci.name)
            if bad:
                chk.fail(Finding("R7", f.fullname + "[as %s]" % ci.name, "%s -> %s" % (label, bad[0][1]),
                                 "mark_skipped() on a %s raises %s: the element is not left with the status skipped (name selection, "
                                 "file:LINE selection and user hooks call it on every element they exclude)" % (label, bad[0][1]),
                                 file=f.file, line=f.lineno, stmt="def mark_skipped"))
            else:
                chk.ok("R7", {"element": label, "mark_skipped": "returns, status skipped"}, nontrivial_key=label)
    chk.require_instances("R7", 8)
