# -*- coding: utf-8 -*-
"""C17 Rerun file.

  Q1/Q2  RerunFormatter.eof collects exactly the scenarios whose status has_failed, for a
         feature in any status (the feature-level gate must not hide them)
  Q3     close(): failures => open + write; none and a named existing file => remove; always close
  Q4     writer/reader format agreement: a written line is str(location) = "<file>:<line>";
         the location parser accepts "<anything>:<digits>"; banner lines start with '#'
         and the list parser skips '#' and blank lines
  Q5     order: collected in walk order, written in list order
"""
from __future__ import annotations

import ast

from .index import AnalysisError, ClassInfo, EnumVal, unparse
from .values import Top, HObj, Ref, Exc, State, ClassVal, GE2
from .absint import Interp
from .report import Finding
from .world import S
from . import oracle

WHAT = {
    "Q6": "the rerun file (every report file) is truncated when opened: it lists the failures of the last run only",
    "Q1": "rerun collects exactly the scenarios that ended failed or in an error-class status, whatever the feature's status",
    "Q3": "rerun close(): failures => write; none and existing named file => remove; stream closed",
    "Q4": "rerun line format '<file>:<line>' is what the location parser reads; banner/comment lines are skipped by the list parser",
    "Q5": "rerun locations are collected in walk order and written in that order",
}


def _fail(chk, rule, func, witness, text, path=()):
    chk.fail(Finding(rule, func.fullname, witness, text, file=func.file, line=func.lineno, stmt="def " + func.name, path=list(path)))


def check_collect(chk, ix):
    chk.rule("Q1", WHAT["Q1"])
    chk.rule("Q5", WHAT["Q5"])
    rc = ix.cls("behave.formatter.rerun:RerunFormatter")
    f = rc.lookup("eof")
    statuses = list(oracle.SCENARIO_STATUSES)
    for fstatus in statuses:
        st = State()
        st.frames = []
        scs = [st.alloc(HObj("ScnTok", {"status": S(s), "name": s}, label=s)) for s in statuses]
        lst = st.alloc(HObj("list", kind="list", items=scs))
        feat = st.alloc(HObj("FeatTok", {"status": S(fstatus)}, label="feature"))
        stubs = {"FeatTok.walk_scenarios": lambda it, s, a, k, n: [(s, "val", lst)]}
        it = Interp(ix, stubs=stubs, name="RerunFormatter.eof")
        me = st.alloc(HObj(rc, {"failed_scenarios": st.alloc(HObj("list", kind="list", items=[])), "current_feature": feat}, label="rerun"))
        outs = it.call_function(st, f, [], {}, None, self_val=me)
        chk.absorb(it)
        chk.instance("Q1")
        if len(outs) != 1 or outs[0][1] != "val":
            raise AnalysisError("RerunFormatter.eof not evaluable: %r" % ([(k, v) for _, k, v in outs][:2],))
        s = outs[0][0]
        got = [s.obj(x).label for x in s.obj(s.obj(me).fields["failed_scenarios"]).items]
        # a feature that contains failed/error scenarios can itself be failed / error / hook_error (hook failure
        # of the feature on top); other feature statuses with failing scenarios inside do not occur
        feature_can_hold_failures = fstatus in oracle.HAS_FAILED
        want = [x for x in statuses if x in oracle.HAS_FAILED] if feature_can_hold_failures else None
        if want is None:
            chk.ok("Q1", None, nontrivial_key=("gate", fstatus))
            continue
        chk.instance("Q5")
        if got == want:
            chk.ok("Q1", {"feature_status": fstatus, "collected": got}, nontrivial_key=("collect", fstatus))
            chk.ok("Q5", {"order": got}, nontrivial_key=("order", fstatus))
        elif sorted(got) == sorted(want):
            _fail(chk, "Q5", f, "order %s" % got, "rerun collects %s, walk order is %s" % (got, want))
        else:
            _fail(chk, "Q1", f, "feature=%s collected=%s" % (fstatus, got),
                  "for a feature with status %s the rerun formatter collects the scenarios %s; the scenarios that ended "
                  "failed/error-class are %s" % (fstatus, got, want), s.path)


def check_close(chk, ix):
    chk.rule("Q3", WHAT["Q3"])
    rc = ix.cls("behave.formatter.rerun:RerunFormatter")
    f = rc.lookup("close")
    for has_failures in (True, False):
        for named in (True, False):
            for exists in (True, False):
                events = []
                st = State()
                st.frames = []
                stubs = {
                    "os.path.exists": lambda it, s, a, k, n, _e=exists: [(s, "val", _e)],
                    "os.remove": lambda it, s, a, k, n: (events.append("remove"), [(s, "val", None)])[1],
                    "RerunFormatter.open": lambda it, s, a, k, n: (events.append("open"), [(s, "val", Top("stream", True))])[1],
                    "Formatter.open": lambda it, s, a, k, n: (events.append("open"), [(s, "val", Top("stream", True))])[1],
                    "RerunFormatter.report_scenario_failures": lambda it, s, a, k, n: (events.append("write"), [(s, "val", None)])[1],
                    "Formatter.close_stream": lambda it, s, a, k, n: (events.append("close_stream"), [(s, "val", None)])[1],
                    "RerunFormatter.close_stream": lambda it, s, a, k, n: (events.append("close_stream"), [(s, "val", None)])[1],
                }
                it = Interp(ix, stubs=stubs, name="RerunFormatter.close")
                opener = st.alloc(HObj("OpenerTok", {"name": "rerun.txt" if named else None}, label="stream_opener"))
                fails = st.alloc(HObj("list", kind="list", items=["s1"] if has_failures else []))
                me = st.alloc(HObj(rc, {"failed_scenarios": fails, "stream_opener": opener, "stream": None}, label="rerun"))
                outs = it.call_function(st, f, [], {}, None, self_val=me)
                chk.absorb(it)
                chk.instance("Q3")
                if len(outs) != 1 or outs[0][1] != "val":
                    raise AnalysisError("RerunFormatter.close not evaluable")
                want = (["open", "write"] if has_failures else (["remove"] if (named and exists) else [])) + ["close_stream"]
                if events == want:
                    chk.ok("Q3", {"failures": has_failures, "named_file": named, "exists": exists, "actions": events},
                           nontrivial_key=(has_failures, named, exists))
                else:
                    _fail(chk, "Q3", f, "failures=%s named=%s exists=%s -> %s" % (has_failures, named, exists, events),
                          "rerun close() with failures=%s, named file=%s, file exists=%s performs %s, expected %s" % (
                              has_failures, named, exists, events, want))


def check_format_agreement(chk, ix):
    chk.rule("Q4", WHAT["Q4"])
    rc = ix.cls("behave.formatter.rerun:RerunFormatter")
    rep = rc.lookup("report_scenario_failures")
    # (1)+(2) by evaluation: the file the formatter writes for three collected scenarios, read line by line the way a
    # features list file is read (comments/blank lines skipped, FileLocationParser on the rest), gives exactly the
    # scenarios' locations in collection order - whatever helper methods the writer is split into
    import os as _os
    flc = ix.cls("behave.model_core:FileLocation")
    lp = ix.func("behave.runner_util:FeatureListParser.parse")
    for descriptions in (True, False):
        written = []
        st = State()
        st.frames = []
        stream = st.alloc(HObj("StreamTok", {}, label="stream"))
        scen = []
        for fn, ln, nm in (("features/b.feature", 12, "second #1"), ("features/b.feature", 40, "other"), ("features/a b.feature", 3, "x: y")):
            loc = st.alloc(HObj(flc, {"filename": fn, "line": ln}, label="location"))
            scen.append(st.alloc(HObj("ScenarioTok", {"filename": fn, "line": ln, "name": nm, "location": loc}, label="scenario")))
        stubs = {"StreamTok.write": lambda i_, s_, a, k, n: (written.append(a[1]), [(s_, "val", None)])[1],
                 "relpath": lambda i_, s_, a, k, n: [(s_, "val", a[0])], "os.path.relpath": lambda i_, s_, a, k, n: [(s_, "val", a[0])],
                 "os.getcwd": lambda i_, s_, a, k, n: [(s_, "val", "/cwd")]}
        it = Interp(ix, stubs=stubs, name="RerunFormatter.report_scenario_failures")
        it.int_sat = 100000
        it.list_cap = 100
        me = st.alloc(HObj(rc, {"failed_scenarios": st.alloc(HObj("list", kind="list", items=scen)), "stream": stream, "show_timestamp": False,
                                "show_failed_scenarios_descriptions": descriptions}, open=True, label="rerun formatter"))
        outs = it.call_function(st, rep, [], {}, None, self_val=me)
        chk.absorb(it)
        chk.instance("Q4")
        if len(outs) != 1 or outs[0][1] != "val" or not written or not all(isinstance(w, str) for w in written):
            raise AnalysisError("report_scenario_failures not foldable: %r / %r" % ([(k, v) for _, k, v in outs][:2], written[:3]))
        text = "".join(written)
        got = []
        fold = {"os.path.isabs": _os.path.isabs, "os.path.join": _os.path.join, "os.path.normpath": _os.path.normpath}
        st2 = {k_: (lambda i_, s_, a, kw, n, _f=f_: [(s_, "val", _f(*a))]) for k_, f_ in fold.items()}
        st2["glob.has_magic"] = lambda i_, s_, a, kw, n: [(s_, "val", False)]
        st2["FileLocation"] = lambda i_, s_, a, kw, n: (got.append((a[0], a[1] if len(a) > 1 else kw.get("line"))), [(s_, "val", "LOC")])[1]
        it2 = Interp(ix, stubs=st2, name="reading the rerun file back")
        it2.fold_regex = True
        it2.int_sat = 100000
        it2.list_cap = 100
        s0 = State()
        s0.frames = []
        o2 = it2.call_function(s0, lp, [text], {}, None)
        if len(o2) != 1 or o2[0][1] != "val":
            raise AnalysisError("FeatureListParser.parse not foldable on the rerun text: %r" % ([(k, v) for _, k, v in o2][:2],))
        want = [("features/b.feature", 12), ("features/b.feature", 40), ("features/a b.feature", 3)]
        if got == want:
            chk.ok("Q4", {"descriptions": descriptions, "rerun file": text, "read back": [list(g) for g in got]}, nontrivial_key=("roundtrip", descriptions))
        else:
            _fail(chk, "Q4", rep, "descriptions=%s: read back %r" % (descriptions, got),
                  "the rerun file written for the scenarios %r is %r; read back as a features list it gives %r" % (want, text, got))
    # (3) a location prints as "<file>:<line>" (and as "<file>" without a line): FileLocation.__str__ evaluated
    fl = ix.cls("behave.model_core:FileLocation")
    sf = fl.methods.get("__str__")
    if sf is None:
        raise AnalysisError("anchor missing: FileLocation.__str__")
    for filename, line, want in (("features/a.feature", 12, "features/a.feature:12"), ("a b.feature", 3, "a b.feature:3"), ("x.feature", None, "x.feature"),
                                 ("x.feature", 0, "x.feature:0")):
        it3 = Interp(ix, name="FileLocation.__str__")
        it3.int_sat = 1000
        st3 = State()
        st3.frames = []
        loc = st3.alloc(HObj(fl, {"filename": filename, "line": line}, label="location"))
        outs = it3.call_function(st3, sf, [], {}, None, self_val=loc)
        chk.absorb(it3)
        chk.instance("Q4")
        if len(outs) != 1 or outs[0][1] != "val" or not isinstance(outs[0][2], str):
            raise AnalysisError("FileLocation.__str__ not foldable: %r" % [(k, v) for _, k, v in outs][:3])
        if outs[0][2] == want:
            chk.ok("Q4", {"FileLocation": [filename, line], "printed": want}, nontrivial_key=("str", filename, line))
        else:
            _fail(chk, "Q4", sf, "str(%r, %r) = %r" % (filename, line, outs[0][2]),
                  "the location (%r, line %r) is printed as %r; the rerun reader expects %r" % (filename, line, outs[0][2], want))
    # (4), (5): how the reader reads such lines back (pattern, int(line), comment and blank lines) is decided by L9, on
    # concrete list files, by evaluation (rules_location.check_location_parsing) - not by the shape of the reader's source


def check_outfile_mode(chk, ix):
    """Q6: a report file (the rerun file among them) replaces what an earlier run left: StreamOpener.open truncates."""
    import ast as _ast
    chk.rule("Q6", WHAT["Q6"])
    f = ix.func("behave.formatter.base:StreamOpener.open")
    opens = [n for n in _ast.walk(f.node) if isinstance(n, _ast.Call) and unparse(n.func) in ("open", "codecs.open", "io.open")]
    if not opens:
        raise AnalysisError("anchor missing: open() call in StreamOpener.open")
    for c in opens:
        chk.instance("Q6")
        mode = None
        if len(c.args) > 1 and isinstance(c.args[1], _ast.Constant):
            mode = c.args[1].value
        for k in c.keywords:
            if k.arg == "mode" and isinstance(k.value, _ast.Constant):
                mode = k.value.value
        if isinstance(mode, str) and "w" in mode and "a" not in mode:
            chk.ok("Q6", {"StreamOpener.open": "open(name, %r)" % mode}, nontrivial_key=mode)
        else:
            chk.fail(Finding("Q6", f.fullname, "open mode %r" % (mode,), "StreamOpener.open opens the report file with mode %r: the rerun file of "
                             "the previous run is not replaced, so scenarios that pass now stay listed (and feeding the file back re-runs them)" % (mode,),
                             file=f.file, line=c.lineno))
