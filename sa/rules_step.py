# -*- coding: utf-8 -*-
"""Obligations decided on the abstract exits of ``Step.run`` (model.py).

  V1  return value False <=> final status has_failed              (C01)
  S1  outcome -> status table (appendix A.2)                      (C02)
  S2  independent of the step's state before the call             (C02, part of S1's exploration)
  H3  before_step, step unless that hook failed, after_step       (C12)
  F1  one match then one result per formatter unless quiet        (C15)
  K1  a started capture is stopped on EVERY exit                  (C18)
  K5  a failing captured step stores the snapshot + error message (C18)
"""
from __future__ import annotations

from .index import EnumVal
from .values import Top
from .explore import explore_step_run
from .report import Finding
from . import oracle

FUNC = "behave.model:Step.run"


def _status_name(v):
    return v.name if isinstance(v, EnumVal) else None


def check_step_run(chk, ix, rules, mutate=None):
    fi = ix.func(FUNC)
    chk.ix = ix
    for r, what in (("V1", "Step.run returns False exactly when the final status is failed/error-class"),
                    ("S1", "step outcome -> status/return table (appendix A.2), for arbitrary prior step state"),
                    ("H3", "before_step, then the step unless that hook failed, then after_step on every found path"),
                    ("F1", "per formatter exactly match then result unless quiet, on every normal exit"),
                    ("K1", "a started output capture is stopped on every exit, normal or exceptional"),
                    ("K5", "a failing captured step keeps the capture snapshot and an error message")):
        if r in rules:
            chk.rule(r, what)
    n_exits = 0
    for quiet in (False, True):
        for capture in (True, False):
            for with_scenario in (None, "nowip", "inherited-wip", "own-wip"):
                it, exits = explore_step_run(ix, quiet, capture, with_scenario,
                                             hooks_may_raise_base=True, mutate=mutate)
                chk.absorb(it)
                for rid in rules:
                    chk.instance(rid)
                for ex in exits:
                    n_exits += 1
                    _one_exit(chk, fi, ex, rules)
    return n_exits


def _finding(rule, fi, ex, witness, text, imprecise=False):
    return Finding(rule, FUNC, witness, text, file=fi.file, line=fi.lineno, stmt="def run(self, runner, quiet, capture)",
                   path=ex.path, imprecise=imprecise or bool(ex.facts.get("imprecise")))


def _wit(f, keys):
    parts = []
    for k in keys:
        v = f.get(k)
        if isinstance(v, EnumVal):
            v = v.name
        parts.append("%s=%s" % (k, v))
    return " ".join(parts)


def _one_exit(chk, fi, ex, rules):
    f = ex.facts
    status = _status_name(f["status"])
    base_hook = f["before"] == "base" or f["after"] == "base"
    scenario_key = _wit(f, ("found", "dry_run", "before", "stepfunc", "wip", "after", "quiet", "capture"))

    # ---- K1: every exit, including exceptional ones --------------------------------
    if "K1" in rules and f["capture"] is False and f.get("cap_events"):
        chk.fail(_finding("K1", fi, ex, "capture=False but %s" % ",".join(f["cap_events"]),
                          "Step.run(capture=False) (a nested step of execute_steps) touches the output capture (%s): the outer "
                          "step's capture is switched off before it ends" % ",".join(f["cap_events"])))
    elif "K1" in rules:
        if f["cap"] != "idle" or f["cap_err"]:
            chk.fail(_finding("K1", fi, ex, "exit=%s %s" % (ex.kind, _wit(f, ("before", "stepfunc", "after", "capture"))),
                              "output capture still active at %s exit (%s): sys.stdout/sys.stderr stay replaced" % (
                                  "exceptional" if ex.kind == "raise" else "normal", ex.val)))
        else:
            chk.ok("K1", {"exit": ex.kind, "hooks": list(f["hookseq"]), "capture": f["cap"]},
                   nontrivial_key=(ex.kind, f["before"], f["stepfunc"], f["after"], f["capture"]))

    if ex.kind == "raise":
        # only non-Exception BaseExceptions may leave Step.run
        cls = ex.val.clsname()
        allowed = cls in ("SystemExit", "KeyboardInterrupt", "GeneratorExit")
        if "S1" in rules:
            if not allowed or not (base_hook or f["stepfunc"] in ("SystemExit", "GeneratorExit")):
                chk.fail(_finding("S1", fi, ex, "escapes=%s %s" % (cls, scenario_key),
                                  "exception %s escapes Step.run instead of being mapped to a step status (%s)" % (cls, ex.val)))
            else:
                chk.ok("S1", None, nontrivial_key=("escape", cls, f["before"], f["after"]))
        return

    ret = ex.val
    # ---- V1 -------------------------------------------------------------------------
    if "V1" in rules:
        if status is None or not isinstance(ret, bool):
            chk.fail(_finding("V1", fi, ex, "undetermined " + scenario_key,
                              "final status %r / return value %r not determined" % (f["status"], ret), imprecise=True))
        else:
            hf = status in oracle.HAS_FAILED
            # no false green: a failed/error-class step must return False; no false red: False is
            # only returned for a failed/error-class step or an undefined one (dry-run discovery)
            if (hf and ret is False) or (not hf and (ret is True or status in oracle.UNDEFINED_CLASS)):
                chk.ok("V1", {"status": status, "returns": ret}, nontrivial_key=(status, ret))
            else:
                chk.fail(_finding("V1", fi, ex, "status=%s returns=%s" % (status, ret),
                                  "Step.run returns %s although the step ended %s (%s)" % (
                                      ret, status, "false green: failure not propagated" if hf else "false red")))

        # no false green at the source: a step function that raised anything but the pending family ends failing
        outcome = f["stepfunc"]
        if f["found"] and not base_hook and f["dry_run"] is False and outcome not in (None, "return", "skip-scenario") and status is not None:
            base = oracle.stepfunc_exc_status(chk.ix, outcome)
            if base in ("failed", "error"):
                if status in oracle.HAS_FAILED:
                    chk.ok("V1", {"step_function_raises": outcome, "status": status}, nontrivial_key=("raise", outcome, bool(f["wip"])))
                else:
                    chk.fail(_finding("V1", fi, ex, "raises=%s wip=%s -> status=%s" % (outcome, bool(f["wip"]), status),
                                      "false green: the step function raised %s (not a pending-step marker) but the step ends %s, "
                                      "which does not fail the scenario" % (outcome, status)))

    # ---- S1 / S2 ----------------------------------------------------------------------
    if "S1" in rules and not base_hook:
        dry = f["dry_run"]
        found = f["found"]
        before_failed = f["before"] == "failed"
        after_failed = f["after"] == "failed"
        outcome = f["stepfunc"]
        if found and not before_failed and outcome is None:
            chk.fail(_finding("S1", fi, ex, "no-stepfunc " + scenario_key,
                              "a matching step definition was found and before_step did not fail, "
                              "but the step function was not called"))
        else:
            exp = oracle.expected_step_result(chk.ix, bool(found), before_failed, outcome, bool(f["wip"]), bool(dry), after_failed)
            if exp == "escapes":
                chk.fail(_finding("S1", fi, ex, "swallowed " + scenario_key,
                                  "a non-Exception BaseException from the step function was swallowed"))
            else:
                exp_status, exp_ret, exp_abort = exp
                okk = status in exp_status and (exp_ret is None or ret == exp_ret) and (not exp_abort or f["aborted"])
                if okk:
                    chk.ok("S1", {"found": found, "before_step": f["before"], "step_function": outcome,
                                  "wip": f["wip"], "dry_run": dry, "after_step": f["after"],
                                  "status": status, "returns": ret},
                           nontrivial_key=(found, before_failed, outcome, bool(f["wip"]), bool(dry), after_failed))
                else:
                    chk.fail(_finding("S1", fi, ex, "%s -> status=%s returns=%s aborted=%s" % (scenario_key, status, ret, f["aborted"]),
                                      "outcome table: expected status in %s, return %s%s; got status %s, return %s%s" % (
                                          sorted(exp_status), exp_ret, ", run aborted" if exp_abort else "",
                                          status, ret, ", aborted" if f["aborted"] else "")))
            # undefined step must be registered
            if not found and f["undefined_added"] not in (1,):
                chk.fail(_finding("S1", fi, ex, "undefined-not-recorded " + scenario_key,
                                  "undefined step not appended to runner.undefined_steps"))

    # ---- H3 -----------------------------------------------------------------------------
    if "H3" in rules and f["found"] and f["dry_run"] is False and not base_hook:
        seq = [n for (n, _) in f["hookseq"]]
        before_failed = f["before"] == "failed"
        want = ["before_step"] + ([] if before_failed else ["stepfunc"]) + ["after_step"]
        if seq == want:
            chk.ok("H3", {"sequence": seq}, nontrivial_key=tuple(f["hookseq"]))
        else:
            chk.fail(_finding("H3", fi, ex, "sequence=%s before=%s stepfunc=%s" % (",".join(seq), f["before"], f["stepfunc"]),
                              "step hook bracket: expected %s, got %s" % (want, seq)))
    if "H3" in rules and f["dry_run"] is True:
        if any(n != "stepfunc" for (n, _) in f["hookseq"]):
            chk.fail(_finding("H3", fi, ex, "dry-run hook call", "a step hook was called in dry-run mode"))

    # ---- F1 ------------------------------------------------------------------------------
    if "F1" in rules and not base_hook:
        want = () if f["quiet"] else ("match", "result")
        bad = [i for i, seq in enumerate(f["fmt"]) if tuple(seq) != want]
        if bad:
            chk.fail(_finding("F1", fi, ex, "formatter-events=%s quiet=%s found=%s stepfunc=%s before=%s after=%s" % (
                list(f["fmt"][bad[0]]), f["quiet"], f["found"], f["stepfunc"], f["before"], f["after"]),
                "formatter %d received %s, expected %s" % (bad[0], list(f["fmt"][bad[0]]), list(want))))
        else:
            chk.ok("F1", {"quiet": f["quiet"], "events_per_formatter": list(want)},
                   nontrivial_key=(f["quiet"], f["found"], f["stepfunc"], f["before"], f["after"]))

    # ---- K5 ---------------------------------------------------------------------------------
    if "K5" in rules and status in oracle.HAS_FAILED and f["found"] and not base_hook:
        if not f["error_message_set"]:
            chk.fail(_finding("K5", fi, ex, "no-error-message " + scenario_key,
                              "failing step ends without error_message"))
        elif f["capture"] and not f["captured_replaced"]:
            chk.fail(_finding("K5", fi, ex, "no-capture-snapshot " + scenario_key,
                              "failing captured step does not keep the capture controller's snapshot"))
        else:
            chk.ok("K5", None, nontrivial_key=(status, f["capture"]))
