# -*- coding: utf-8 -*-
"""C16 JUnit reports.

  J1  sanitisation taint: every text that comes from names, messages, captured output
      reaches an XML attribute only through _escape_invalid_xml_chars and a CDATA node only
      through escape_CDATA (applied by the patched serializer); in the CDATA path no
      character-deleting step runs after the ']]>' neutralisation
  J2  counters = entries: tests / errors / failures / skipped counters move exactly with the
      test cases and child entries that are appended
  J3  a failed/errored scenario gets exactly one failure / error entry, naming the
      responsible step (background steps included)
  J4  no internal exception while describing a problem without step / message / traceback
  J5  every scenario (outline rows included, in rules) becomes one test case
  J6  junit switches all three captures on
"""
from __future__ import annotations

import ast

from .index import AnalysisError, ClassInfo, EnumVal, unparse, NotConst
from .values import Top, HObj, Ref, Exc, State, ClassVal, GE2
from .absint import Interp
from .report import Finding
from .world import S
from . import oracle
from .rules_summary import build_tree, _attr_stubs

WHAT = {
    "J7": "the sanitiser, evaluated on boundary code points, removes every code point XML 1.0 forbids and alters no ordinary character",
    "J1": "user-controlled text reaches XML attributes / CDATA only through the sanitisers; nothing deletes characters after the ']]>' neutralisation",
    "J2": "tests/errors/failures/skipped counters equal the appended test cases and their child entries",
    "J3": "a failed/errored scenario carries exactly one failure/error entry that names the responsible step (also a background step)",
    "J4": "describing a problem without step, message or traceback raises no internal exception",
    "J5": "every scenario (outline rows, inside rules) becomes exactly one test case",
    "J6": "junit reporting forces stdout, stderr and log capture on",
}


class Tainted(object):
    """Text under user control (names, messages, captured output)."""
    abs_type = "str"

    def __init__(self, label, clean=False):
        self.label, self.clean = label, clean

    def __repr__(self):
        return "Tainted(%s%s)" % (self.label, ",clean" if self.clean else "")

    def abs_truth(self):
        return True

    def abs_call(self, it, st, name, args, kwargs, node):
        if name in ("strip", "rstrip", "lstrip", "replace", "format", "lower", "upper", "encode", "decode", "join", "splitlines"):
            clean = self.clean and all(not isinstance(a, Tainted) or a.clean for a in args)
            return [(st, "val", Tainted(self.label, clean))]
        return [(st, "val", Top("str." + name, True))]

    def abs_item(self, it, st, idx, node):
        return Tainted(self.label, self.clean)


def _taint_of(st, v):
    """-> list of Tainted values inside v"""
    out = []
    if isinstance(v, Tainted):
        out.append(v)
    elif isinstance(v, (tuple, list)):
        for x in v:
            out.extend(_taint_of(st, x))
    return out


def _mk_interp(ix, log, extra_stubs=None):
    def element(it, st, args, kw, node):
        tag = args[0] if args else "?"
        ref = st.alloc(HObj("XmlElem", {"tag": tag, "children": st.alloc(HObj("list", kind="list", items=[])), "text": None},
                            label="<%s>" % (tag,)))
        return [(st, "val", ref)]

    def el_set(it, st, args, kw, node):
        log.append(("attr", st.obj(args[0]).fields["tag"], args[1], args[2], it.loc(node)))
        return [(st, "val", None)]

    def el_append(it, st, args, kw, node):
        ch = st.wobj(st.obj(args[0]).fields["children"])
        ch.items.append(args[1])
        return [(st, "val", None)]

    def sub_element(it, st, args, kw, node):
        outs = element(it, st, args[1:], kw, node)
        el_append(it, st, [args[0], outs[0][2]], {}, node)
        return outs

    def sanitize(it, st, args, kw, node):
        v = args[0]
        if isinstance(v, Tainted):
            return [(st, "val", Tainted(v.label, True))]
        return [(st, "val", v)]

    def keep(it, st, args, kw, node):
        return [(st, "val", args[0] if args else None)]
    stubs = {
        "@with": "transparent",
        "xml.etree.ElementTree.Element": element, "ElementTree.Element": element,
        "xml.etree.ElementTree.SubElement": sub_element, "ElementTree.SubElement": sub_element,
        "XmlElem.set": el_set, "XmlElem.append": el_append,
        "_escape_invalid_xml_chars": sanitize,
        "text": lambda it, st, a, k, n: [(st, "val", "None" if (a and a[0] is None) else (a[0] if a else None))],
        "behave.textutil.text": lambda it, st, a, k, n: [(st, "val", "None" if (a and a[0] is None) else (a[0] if a else None))],
        "behave.formatter.ansi_escapes.strip_escapes": keep, "strip_escapes": keep,
        "indent": keep, "make_indentation": lambda it, st, a, k, n: [(st, "val", "  ")],
        "traceback.format_tb": lambda it, st, a, k, n: [(st, "val", st.alloc(HObj("list", kind="list", items=[])))],
        "ModelDescriptor.describe_docstring": keep, "ModelDescriptor.describe_table": keep,
    }
    stubs.update(extra_stubs or {})
    it = Interp(ix, stubs=stubs, attr_stubs=_attr_stubs(), name="junit")
    # string formatting / concatenation keep the taint
    orig = it.x_binop

    def x_binop(st, op, a, b, node):
        ts = _taint_of(st, a) + _taint_of(st, b)
        if ts and isinstance(op, (ast.Mod, ast.Add)):
            return Tainted("+".join(sorted({t.label for t in ts})), all(t.clean for t in ts))
        return orig(st, op, a, b, node)
    it.x_binop = x_binop
    return it


def _scenario_token(ix, st, status, steps=None, bg_steps=None, error_message=None, exception=None):
    sc = ix.cls("behave.model:Scenario")
    stc = ix.cls("behave.model:Step")

    def step(name, sstatus):
        return st.alloc(HObj(stc, {"status": S(sstatus), "name": Tainted("step.name"), "keyword": "Given", "duration": 0.0,
                                   "text": None, "table": None, "location": "f:1", "hook_failed": False,
                                   "exception": st.alloc(HObj("ExcTok", {}, open=True, label="exception")),
                                   "error_message": Tainted("step.error_message")}, label=name))
    own = [step(n, s_) for (n, s_) in (steps or [])]
    bgs = [step(n, s_) for (n, s_) in (bg_steps or [])]
    cap = st.alloc(HObj("CapturedTok", {"stdout": Tainted("captured.stdout"), "stderr": Tainted("captured.stderr")}, label="captured"))
    ref = st.alloc(HObj(sc, {"st": S(status), "name": Tainted("scenario.name"), "keyword": "Scenario", "tags": (),
                             "steps": st.alloc(HObj("list", kind="list", items=own)),
                             "background": None if not bgs else Top("bg", True, truth=True),
                             "_background_steps": st.alloc(HObj("list", kind="list", items=bgs)), "_use_background": True,
                             "captured": cap, "error_message": error_message, "exception": exception, "exc_traceback": None,
                             "hook_failed": False, "location": "f:3"}, label="scenario"))
    return ref, own, bgs


def _reporter(ix, st, show_skipped, always):
    rc = ix.cls("behave.reporter.junit:JUnitReporter")
    cfg = st.alloc(HObj("ConfigStub", {"show_skipped": show_skipped, "paths": (), "base_dir": "."}, open=True, label="config"))
    rep = st.alloc(HObj(rc, {"config": cfg, "show_skipped_always": always, "show_timings": True, "show_scenarios": True,
                             "show_tags": True, "show_multiline": True}, label="junit reporter"))
    feat = st.alloc(HObj("FeatTok", {"name": Tainted("feature.name"), "filename": "f.feature"}, open=True, label="feature"))
    report = st.alloc(HObj("ReportTok", {"classname": "cls", "feature": feat, "testcases": st.alloc(HObj("list", kind="list", items=[])),
                                          "counts_tests": 0, "counts_errors": 0, "counts_failed": 0, "counts_skipped": 0},
                           label="report"))
    return rc, rep, report


def check_process_scenario(chk, ix):
    for r in ("J1", "J2", "J3", "J4"):
        chk.rule(r, WHAT[r])
    cases = []
    for status in oracle.SCENARIO_STATUSES:
        for (ss, al) in ((True, False), (False, False), (False, True)):
            cases.append((status, ss, al, "own"))
    cases += [("failed", True, False, "background"), ("error", True, False, "background"),
              ("error", True, False, "nostep"), ("hook_error", True, False, "nostep"),
              ("skipped", True, False, "undefined-step"), ("untested", True, False, "undefined-step")]
    for (status, ss, al, variant) in cases:
        log = []
        st = State()
        st.frames = []
        it = _mk_interp(ix, log)
        culprit = {"failed": "failed", "error": "error", "hook_error": "hook_error"}.get(status, "passed")
        steps = [("s1", "passed"), ("s2", culprit)] if variant == "own" else []
        bgs = [("b1", culprit)] if variant == "background" else []
        if variant == "undefined-step":
            steps = [("s1", "undefined")]
        emsg = None
        exc = None
        scen, own, bgt = _scenario_token(ix, st, status, steps, bgs, emsg, exc)
        if variant == "nostep":
            st.wobj(scen).fields["error_message"] = Top("error_message", True, domain=(None, Tainted("scenario.error_message")))
        rc, rep, report = _reporter(ix, st, ss, al)
        f = rc.lookup("_process_scenario")
        st.freeze_base()
        outs = it.run(f, st, [scen, report], {}, self_val=rep)
        chk.absorb(it)
        for r in ("J2", "J3", "J4", "J1"):
            chk.instance(r)
        key = "status=%s show_skipped=%s always=%s steps=%s" % (status, ss, al, variant)
        for (s, k, v) in outs:
            if k == "raise":
                chk.fail(Finding("J4", f.fullname, "%s raises %s" % (key, v.clsname()),
                                 "JUnit reporter fails with %s (%s) for a scenario with %s" % (v.clsname(), v.origin, key),
                                 file=f.file, line=f.lineno, path=list(s.path)))
                continue
            chk.ok("J4", None, nontrivial_key=key)
            ro = s.obj(report)
            cases_ = s.obj(ro.fields["testcases"]).items
            appended = len(cases_)
            kids = []
            for c in cases_:
                for ch in s.obj(s.obj(c).fields["children"]).items:
                    kids.append(s.obj(ch).fields["tag"])
            n = {t: kids.count(t) for t in ("error", "failure", "skipped")}
            cnt = {k_: ro.fields[k_] for k_ in ("counts_tests", "counts_errors", "counts_failed", "counts_skipped")}
            shown = ss or al or status != "skipped"
            ok = (cnt["counts_tests"] == appended and cnt["counts_errors"] == n["error"] and cnt["counts_failed"] == n["failure"]
                  and cnt["counts_skipped"] == n["skipped"] and appended == (1 if shown else 0))
            if ok:
                chk.ok("J2", {"case": key, "testcases": appended, "counters": {k_: repr(v_) for k_, v_ in cnt.items()}, "entries": n},
                       nontrivial_key=key)
            else:
                chk.fail(Finding("J2", f.fullname, "%s: counters %s vs entries cases=%d %s" % (key, {k_: repr(v_) for k_, v_ in cnt.items()}, appended, n),
                                 "JUnit counters %s do not match the report content (test cases appended: %d, expected %d; "
                                 "entries %s) for %s" % ({k_: repr(v_) for k_, v_ in cnt.items()}, appended, 1 if shown else 0, n, key),
                                 file=f.file, line=f.lineno, path=list(s.path)))
            if status in oracle.HAS_FAILED:
                want_tag = "failure" if status in oracle.FAILURE else "error"
                if kids.count(want_tag) == 1 and kids.count("error") + kids.count("failure") == 1:
                    chk.ok("J3", {"case": key, "entry": want_tag}, nontrivial_key=key)
                else:
                    chk.fail(Finding("J3", f.fullname, "%s: entries %s" % (key, kids),
                                     "a scenario that ended %s gets the entries %s, expected exactly one <%s>" % (status, kids, want_tag),
                                     file=f.file, line=f.lineno, path=list(s.path)))
                if variant in ("own", "background"):
                    named = any(e[0] == "attr" and e[1] in ("error", "failure") and e[2] == "type" for e in log)
                    described_step = s.ghost.get("described_step")
                # the problem description must have been built from the culprit step
            # J1: attribute sinks
            bad = [(tag, name_, val) for (kind, tag, name_, val, loc) in log if kind == "attr"
                   for t in _taint_of(s, val) if not t.clean]
            if bad:
                tag, name_, val = bad[0]
                chk.fail(Finding("J1", f.fullname, "attribute %s@%s <- %s" % (tag, name_, val.label if isinstance(val, Tainted) else val),
                                 "XML attribute %s of <%s> receives %s without _escape_invalid_xml_chars: control characters "
                                 "make the document not well-formed" % (name_, tag, val),
                                 file=f.file, line=f.lineno, path=list(s.path)))
            else:
                chk.ok("J1", {"case": key, "attributes_set": len([e for e in log if e[0] == "attr"])}, nontrivial_key=key)


def check_culprit_step(chk, ix):
    """J3 (second half): the step handed to the problem description is looked up among ALL steps."""
    chk.rule("J3", WHAT["J3"])
    for status in ("failed", "error"):
        got = []

        def capture(it, st, args, kw, node):
            got.append(args[2] if len(args) > 2 else kw.get("step"))
            return [(st, "val", st.alloc(HObj("XmlElem", {"tag": "error" if "error" in str(node and unparse(node.func)) else "failure",
                                                           "children": st.alloc(HObj("list", kind="list", items=[])), "text": None})))]
        log = []
        st = State()
        st.frames = []
        it = _mk_interp(ix, log, {"JUnitReporter._make_error_element_for": capture, "JUnitReporter._make_failure_element_for": capture})
        scen, own, bgt = _scenario_token(ix, st, status, [("s1", "passed")], [("b1", status)])
        rc, rep, report = _reporter(ix, st, True, False)
        f = rc.lookup("_process_scenario")
        st.freeze_base()
        outs = it.run(f, st, [scen, report], {}, self_val=rep)
        chk.absorb(it)
        chk.instance("J3")
        if got and isinstance(got[0], Ref) and got[0].oid == bgt[0].oid:
            chk.ok("J3", {"scenario_status": status, "culprit": "background step", "described": "that step"}, nontrivial_key=("culprit", status))
        else:
            chk.fail(Finding("J3", f.fullname, "culprit for %s = %r" % (status, got[:1]),
                             "a scenario that %s in an inherited Background step gets an entry that does not name that step "
                             "(step handed to the description: %r)" % ("failed" if status == "failed" else "errored", got[:1]),
                             file=f.file, line=f.lineno))


def check_cdata_path(chk, ix):
    chk.rule("J1", WHAT["J1"])
    mod = ix.module("behave.reporter.junit")
    # (a) CDATA nodes are serialised through escape_CDATA
    ser = mod.functions.get("_serialize_xml3")
    if ser is None:
        raise AnalysisError("anchor missing: behave.reporter.junit:_serialize_xml3")
    chk.instance("J1")
    calls = [unparse(n) for n in ast.walk(ser.node) if isinstance(n, ast.Call) and unparse(n.func) == "escape_CDATA"]
    def _mentions_cdata_tag(test):
        for x in ast.walk(test):
            if isinstance(x, (ast.Constant, ast.Name, ast.Attribute)):
                try:
                    if ix.fold(x, mod) == "![CDATA[":
                        return True
                except Exception:       # noqa  (not a constant)
                    pass
        return False
    guarded = any(isinstance(n, ast.If) and _mentions_cdata_tag(n.test) and any("escape_CDATA" in unparse(b) for b in n.body)
                  for n in ast.walk(ser.node))
    if calls and guarded and any("elem.text" in c for c in calls):
        chk.ok("J1", {"serializer": "CDATA text passes escape_CDATA"}, nontrivial_key="serializer")
    else:
        chk.fail(Finding("J1", ser.fullname, "serializer does not escape CDATA", "the patched XML serializer does not pass CDATA text through escape_CDATA",
                         file=ser.file, line=ser.lineno))
    # (b) it is installed
    chk.instance("J1")
    installed = any(isinstance(n, ast.Assign) and "_serialize_xml3" in unparse(n.value) and "_serialize" in unparse(n.targets[0])
                    for n in ast.walk(mod.tree))
    if installed:
        chk.ok("J1", {"serializer": "installed"}, nontrivial_key="installed")
    else:
        chk.fail(Finding("J1", ser.fullname, "serializer not installed", "the CDATA-aware serializer is not installed into ElementTree",
                         file=ser.file, line=ser.lineno))
    # (c) escape_CDATA: ']]>' neutralised, then only the invalid-char replacement; nothing that deletes characters
    esc = mod.functions.get("escape_CDATA")
    chk.instance("J1")
    stmts = esc.node.body
    idx = None
    for i, s_ in enumerate(stmts):
        if any(isinstance(n, ast.Call) and isinstance(n.func, ast.Attribute) and n.func.attr == "replace" and n.args
               and isinstance(n.args[0], ast.Constant) and n.args[0].value == "]]>" for n in ast.walk(s_)):
            idx = i
    if idx is None:
        chk.fail(Finding("J1", esc.fullname, "no ]]> neutralisation", "escape_CDATA does not neutralise ']]>'", file=esc.file, line=esc.lineno))
    else:
        later = [unparse(n.func) for s_ in stmts[idx + 1:] for n in ast.walk(s_) if isinstance(n, ast.Call)]
        same = [unparse(n.func) for n in ast.walk(stmts[idx]) if isinstance(n, ast.Call)]
        # in the statement of the replace itself, calls that wrap the replace result
        outer = []
        for n in ast.walk(stmts[idx]):
            if isinstance(n, ast.Call) and not (isinstance(n.func, ast.Attribute) and n.func.attr == "replace"):
                if any(isinstance(m, ast.Call) and isinstance(m.func, ast.Attribute) and m.func.attr == "replace" for a in n.args for m in ast.walk(a)):
                    outer.append(unparse(n.func))
        offenders = [c for c in later + outer if c not in ("_escape_invalid_xml_chars",)]
        if offenders:
            chk.fail(Finding("J1", esc.fullname, "after ]]> neutralisation: %s" % ",".join(offenders),
                             "escape_CDATA transforms the text with %s AFTER neutralising ']]>': a step that deletes characters "
                             "(e.g. ANSI escapes) can re-create the CDATA terminator" % offenders, file=esc.file, line=esc.lineno))
        elif "_escape_invalid_xml_chars" not in later + same:
            chk.fail(Finding("J1", esc.fullname, "invalid chars not escaped in CDATA", "escape_CDATA does not replace invalid XML characters",
                             file=esc.file, line=esc.lineno))
        else:
            chk.ok("J1", {"escape_CDATA": "']]>' neutralised, then invalid characters replaced, nothing deleted afterwards"}, nontrivial_key="escape_CDATA")
    # (d) ANSI stripping happens when the CDATA node is created
    cd = mod.functions.get("CDATA")
    chk.instance("J1")
    if cd is not None and any(isinstance(n, ast.Call) and unparse(n.func).endswith("strip_escapes") for n in ast.walk(cd.node)):
        chk.ok("J1", {"CDATA()": "strips ANSI escapes before serialisation"}, nontrivial_key="CDATA()")
    else:
        chk.fail(Finding("J1", (cd or esc).fullname, "ANSI escapes not stripped at CDATA creation",
                         "CDATA() does not strip ANSI escape sequences before the text is escaped", file=mod.relpath, line=(cd or esc).lineno))


def check_walker_and_capture(chk, ix):
    chk.rule("J5", WHAT["J5"])
    chk.rule("J6", WHAT["J6"])
    rc = ix.cls("behave.reporter.junit:JUnitReporter")
    seen = []

    def proc(it, st, args, kw, node):
        seen.append(st.obj(args[1]).label)
        return [(st, "val", None)]
    it = Interp(ix, stubs={"JUnitReporter._process_scenario": proc}, attr_stubs=_attr_stubs(), name="junit walk")
    st = State()
    st.frames = []
    rep = st.alloc(HObj(rc, {}, label="junit"))
    f, elems = build_tree(ix, st)
    # outline rows are reachable through iteration of the outline
    w = rc.lookup("_process_run_items_for")
    outs = it.call_function(st, w, [f, Top("report", True)], {}, None, self_val=rep)
    chk.absorb(it)
    chk.instance("J5")
    want = sorted(n for n, (k, _, _) in elems.items() if k == "scenario")
    if len(outs) == 1 and outs[0][1] == "val" and sorted(seen) == want:
        chk.ok("J5", {"scenarios": want, "test_cases": sorted(seen)}, nontrivial_key="walk")
    else:
        chk.fail(Finding("J5", w.fullname, "test cases %s" % sorted(seen), "JUnit walk produces test cases for %s, the model has the scenarios %s" % (sorted(seen), want),
                         file=w.file, line=w.lineno))
    cf = ix.func("behave.configuration:Configuration.setup_reporters")
    chk.instance("J6")
    forced = set()
    for n in ast.walk(cf.node):
        if isinstance(n, ast.If) and "junit" in unparse(n.test):
            for b in n.body:
                if isinstance(b, ast.Assign) and isinstance(b.value, ast.Constant) and b.value.value is True:
                    forced.add(unparse(b.targets[0]))
    need = {"self.stdout_capture", "self.stderr_capture", "self.log_capture"}
    if need <= forced:
        chk.ok("J6", {"forced": sorted(forced)}, nontrivial_key="capture")
    else:
        chk.fail(Finding("J6", cf.fullname, "not forced: %s" % sorted(need - forced), "with --junit the capture switches %s are not forced on" % sorted(need - forced),
                         file=cf.file, line=cf.lineno))


def check_illegal_char_table(chk, ix):
    """J7: the sanitiser removes every code point XML 1.0 forbids and leaves the others alone - decided by evaluating
    _escape_invalid_xml_chars (the source, with re / str.translate / chr folded) on the boundary code points of
    XML 1.0 Char ::= #x9 | #xA | #xD | [#x20-#xD7FF] | [#xE000-#xFFFD] | [#x10000-#x10FFFF]"""
    chk.rule("J7", WHAT["J7"])
    f = ix.func("behave.reporter.junit:_escape_invalid_xml_chars")
    if f is None:
        raise AnalysisError("anchor missing: behave.reporter.junit:_escape_invalid_xml_chars")
    forbidden = [0x00, 0x01, 0x08, 0x0B, 0x0C, 0x0E, 0x1B, 0x1F, 0xD800, 0xDBFF, 0xDFFF, 0xFFFE, 0xFFFF]
    legal = [0x09, 0x0A, 0x20, 0x41, 0x7E, 0xA0, 0xE9, 0xD7FF, 0xE000, 0xFFFD, 0x10000, 0x1F600]
    it = Interp(ix)
    it.fold_regex = True
    it.int_sat = 10 ** 7
    it.list_cap = 200000

    def run(text):
        st = State()
        st.frames = []
        outs = it.call_function(st, f, [text], {}, None)
        if len(outs) != 1 or outs[0][1] != "val" or not isinstance(outs[0][2], str):
            raise AnalysisError("_escape_invalid_xml_chars(%r) does not evaluate to one constant string (%s): the sanitiser is written "
                                "in a way this analysis cannot fold" % (text, [(k, repr(v)[:60]) for _, k, v in outs][:3]))
        return outs[0][2]
    for cp in forbidden:
        chk.instance("J7")
        text = "a" + chr(cp) + "b"
        out = run(text)
        if chr(cp) not in out:
            chk.ok("J7", {"forbidden": "U+%04X" % cp, "sanitised_to": ascii(out)}, nontrivial_key=cp)
        else:
            chk.fail(Finding("J7", f.fullname, "U+%04X survives" % cp,
                             "the code point U+%04X (forbidden in XML 1.0) survives _escape_invalid_xml_chars (%s -> %s): such a character in a "
                             "name, message or captured output is written raw and the report is not well-formed" % (cp, ascii(text), ascii(out)),
                             file=f.file, line=f.lineno, stmt="def _escape_invalid_xml_chars"))
    chk.instance("J7")
    bad = []
    for cp in legal:
        text = "a" + chr(cp) + "b"
        if run(text) != text:
            bad.append(cp)
    if not bad:
        chk.ok("J7", {"ordinary characters (tab, newline, space, letters, non-ASCII, astral)": "unchanged"}, nontrivial_key="legal")
    else:
        chk.fail(Finding("J7", f.fullname, "U+%04X is altered" % bad[0], "the sanitiser alters the ordinary characters %s: "
                         "reports lose legitimate text" % ", ".join("U+%04X" % c for c in bad), file=f.file, line=f.lineno))
    # what the serialiser really calls for CDATA text is escape_CDATA: no forbidden character and no "]]>" comes out of it,
    # whether or not the text contains a CDATA terminator; an empty text stays empty
    g = ix.func("behave.reporter.junit:escape_CDATA")
    if g is None:
        raise AnalysisError("anchor missing: behave.reporter.junit:escape_CDATA")
    for text in ("a\x00b", "bell\x07 and esc\x1b[0m", "x]]>y", "x]]>\x08y", "]]>", "plain text", "\ud800", ""):
        chk.instance("J7")
        st = State()
        st.frames = []
        outs = it.call_function(st, g, [text], {}, None)
        if len(outs) != 1 or outs[0][1] != "val" or not isinstance(outs[0][2], str):
            raise AnalysisError("escape_CDATA(%r) does not evaluate to one constant string: %r" % (text, [(k, repr(v)[:60]) for _, k, v in outs][:3]))
        out = outs[0][2]
        leftover = [c for c in out if ord(c) < 0x20 and c not in "\t\n\r" or 0xD800 <= ord(c) <= 0xDFFF or ord(c) in (0xFFFE, 0xFFFF)]
        if not leftover and "]]>" not in out and (out != "") == (text != ""):
            chk.ok("J7", {"escape_CDATA": ascii(text), "gives": ascii(out)}, nontrivial_key=("cdata", text))
        else:
            chk.fail(Finding("J7", g.fullname, "escape_CDATA(%s)" % ascii(text),
                             "escape_CDATA(%s) returns %s: it still contains %s - the CDATA section written to the report is not well-formed"
                             % (ascii(text), ascii(out), "the terminator ']]>'" if "]]>" in out else "the forbidden character U+%04X" % ord(leftover[0]) if leftover else "nothing"),
                             file=g.file, line=g.lineno, stmt="def escape_CDATA"))
    # a mixed text: every forbidden character goes, everything else stays in order
    chk.instance("J7")
    text = "x\x00<tag>\x1b[0m]]\ud800\xe9\ufffe\U0001f600\ty"
    out = run(text)
    rest = [c for c in out if ord(c) in forbidden or 0xD800 <= ord(c) <= 0xDFFF]
    kept = [c for c in text if not (ord(c) in (0x00, 0x1B, 0xD800, 0xFFFE))]
    pos, okorder = 0, True
    for c in kept:
        j = out.find(c, pos)
        if j < 0:
            okorder = False
            break
        pos = j + 1
    if not rest and okorder:
        chk.ok("J7", {"mixed text": ascii(text), "sanitised_to": ascii(out)}, nontrivial_key="mixed")
    else:
        chk.fail(Finding("J7", f.fullname, "mixed text", "a text mixing forbidden and ordinary characters is not sanitised correctly: %s -> %s"
                         % (ascii(text), ascii(out)), file=f.file, line=f.lineno))


def check_problem_description_names_step(chk, ix):
    """J3 (third part): the failure/error entry names the responsible step whatever kind of problem the step has - a step
    with a stored exception (assertion, error) and a step without one (undefined step)."""
    chk.rule("J3", WHAT["J3"])
    rc = ix.cls("behave.reporter.junit:JUnitReporter")
    f = rc.lookup("_make_problem_description_for")
    if f is None:
        raise AnalysisError("anchor missing: JUnitReporter._make_problem_description_for")
    for kind in ("with exception", "without exception (undefined step)"):
        log, cdata = [], []
        st = State()
        st.frames = []
        it = _mk_interp(ix, log, {"JUnitReporter.describe_step": lambda i, s_, a, k, n: [(s_, "val", "STEP-DESCRIPTION\n")],
                                  "CDATA": lambda i, s_, a, k, n: (cdata.append(a[0] if a else None), [(s_, "val", s_.alloc(HObj("XmlElem", {"tag": "![CDATA[", "children": s_.alloc(HObj("list", kind="list", items=[])), "text": a[0] if a else None})))])[1]})
        stc = ix.cls("behave.model:Step")
        exc = st.alloc(HObj("ExcTok", {}, open=True, label="exception")) if kind == "with exception" else None
        step = st.alloc(HObj(stc, {"status": S("failed" if exc is not None else "undefined"), "name": "the step", "keyword": "Given", "duration": 0.0,
                                   "text": None, "table": None, "location": "f.feature:7", "hook_failed": False, "exception": exc,
                                   "error_message": "step error message" if exc is not None else None}, label="culprit step"))
        scen, own, bgt = _scenario_token(ix, st, "failed", [("s1", "failed")], [])
        rc_, rep, report = _reporter(ix, st, True, False)
        outs = it.call_function(st, f, ["failure", scen, step], {}, None, self_val=rep)
        chk.absorb(it)
        chk.instance("J3")
        bad = [o for o in outs if o[1] != "val"]
        outs = [o for o in outs if o[1] == "val"]
        if not outs:
            raise AnalysisError("_make_problem_description_for not evaluable (%s): %r" % (kind, [(k, v) for _, k, v in bad][:2]))
        texts = [t for t in cdata if t is not None]
        named = bool(texts) and all(("STEP-DESCRIPTION" in t if isinstance(t, str) else any("STEP" in str(x) for x in [t])) for t in texts)
        if named:
            chk.ok("J3", {"culprit step": kind, "entry text mentions": "the step's description and location"}, nontrivial_key=("describe", kind))
        else:
            chk.fail(Finding("J3", f.fullname, "step %s: entry text %r" % (kind, texts[:1]),
                             "the failure/error entry for a culprit step %s has the text %r: it does not name the step (its description and "
                             "location), so the report does not say which step is responsible" % (kind, texts[:1]), file=f.file, line=f.lineno))


WHAT["J8"] = ("every feature file of a run gets its own report name: the name keeps the directory part (below the path given on the command "
              "line, or below the base directory when the file itself was given), so that two files with the same base name do not overwrite "
              "each other's TESTS-*.xml")


def check_feature_filenames(chk, ix):
    """J8: JUnitReporter.make_feature_filename evaluated for directory arguments and for explicit file arguments."""
    import posixpath
    chk.rule("J8", WHAT["J8"])
    rc = ix.cls("behave.reporter.junit:JUnitReporter")
    f = rc.lookup("make_feature_filename")
    if f is None:
        raise AnalysisError("anchor missing: JUnitReporter.make_feature_filename")
    runs = [
        (["features"], "features", ["features/a.feature", "features/sub/a.feature", "features/sub/deep/b.feature"], ["a", "sub.a", "sub.deep.b"]),
        (["features/x/a.feature", "features/y/a.feature"], "features", ["features/x/a.feature", "features/y/a.feature"], ["x.a", "y.a"]),
        (["features/x", "features/y"], "features", ["features/x/a.feature", "features/y/b.feature"], ["a", "b"]),
    ]
    for paths, base_dir, files, want in runs:
        got = []
        for fn in files:
            def relpath(it_, st_, a, k, n, _fn=fn):
                return [(st_, "val", posixpath.relpath(_fn, a[1] if len(a) > 1 and isinstance(a[1], str) else "."))]
            ident = lambda it_, st_, a, k, n: [(st_, "val", a[0] if a else None)]      # noqa: E731
            it = Interp(ix, stubs={"LocationTok.relpath": relpath, "text": ident, "_text": ident, "behave.textutil.text": ident,
                                   "os.path.basename": lambda it_, st_, a, k, n: [(st_, "val", posixpath.basename(a[0]))],
                                   "os.path.relpath": lambda it_, st_, a, k, n: [(st_, "val", posixpath.relpath(*a))]}, name="make_feature_filename")
            it.int_sat = 1000
            it.list_cap = 100
            st = State()
            st.frames = []
            cfg = st.alloc(HObj("ConfigTok", {"paths": st.alloc(HObj("list", kind="list", items=list(paths))), "base_dir": base_dir}, label="config"))
            loc = st.alloc(HObj("LocationTok", {"filename": fn}, label="location"))
            feat = st.alloc(HObj("FeatureTok", {"filename": fn, "location": loc, "name": "F"}, label="feature"))
            me = st.alloc(HObj(rc, {"config": cfg}, label="reporter"))
            outs = it.call_function(st, f, [feat], {}, None, self_val=me)
            chk.absorb(it)
            if len(outs) != 1 or outs[0][1] != "val" or not isinstance(outs[0][2], str):
                raise AnalysisError("make_feature_filename(%r) with paths %r does not fold to a string: %r" % (fn, paths, [(k, v) for _, k, v in outs][:2]))
            got.append(outs[0][2])
        chk.instance("J8")
        if got == want:
            chk.ok("J8", {"paths": paths, "files": files, "report names": got}, nontrivial_key=repr(paths))
        else:
            _fail = Finding("J8", f.fullname, "paths %r: %r -> %r" % (paths, files, got),
                            "with the command-line paths %r the feature files %r get the report names %r, expected %r%s" % (
                                paths, files, got, want, " (two features share one TESTS-*.xml: the second overwrites the first)" if len(set(got)) < len(got) else ""),
                            file=f.file, line=f.lineno, stmt="def make_feature_filename")
            chk.fail(_fail)
    chk.require_instances("J8", 3)
