# -*- coding: utf-8 -*-
"""Iterator objects and the small functional vocabulary of the standard library (operator.*, functools.partial,
map / filter / next, itertools.chain / islice): what behaviour-preserving modernisations of a loop are written in.

An iterator is a heap object (kind "iterator"), so that everybody who holds it sees the same position:
  concrete   items=[...], fields {"@pos": n}
  abstract   fields {"@seq": AbsSeq, "@done": bool, "@started": bool}
  lazy       fields {"@op": "map"|"filter"|"chain"|"islice", "@fn": callable, "@src": (iterator refs...), ...}
`pull` draws one element: outcomes (state, "val", element) | (state, "stop", None) | (state, "raise", exc)."""
from __future__ import annotations

from .index import AnalysisError
from .values import Top, Ref, HObj, AbsSeq, PyFn, GE2


def _U():
    from .absint import Unsupported
    return Unsupported


def is_iterator(st, v):
    return isinstance(v, Ref) and st.obj(v).kind == "iterator"


def make_iter(self, st, v, node):
    """iter(v) -> Ref of an iterator object"""
    if is_iterator(st, v):
        return v
    kind, seq = self.iter_values(st, v, node)
    if kind == "abs":
        return st.alloc(HObj("iterator", {"@seq": seq, "@done": False, "@started": False}, kind="iterator"))
    return st.alloc(HObj("iterator", {"@pos": 0}, kind="iterator", items=list(seq)))


def lazy(self, st, op, fn, sources, node, **extra):
    srcs = tuple(make_iter(self, st, s, node) for s in sources)
    fields = {"@op": op, "@fn": fn, "@src": srcs}
    fields.update(("@" + k, v) for k, v in extra.items())
    return st.alloc(HObj("iterator", fields, kind="iterator"))


def pure_generator(func):
    """syntactic: the generator's body stores nothing outside its locals, raises nothing and calls nothing for effect
    (then running it to its end at once cannot be told from running it on demand)"""
    import ast
    cached = getattr(func.node, "_pure_gen", None)
    if cached is not None:
        return cached
    ok = True
    for n in ast.walk(func.node):
        if isinstance(n, (ast.Assign, ast.AugAssign, ast.AnnAssign, ast.Delete)):
            ts = n.targets if isinstance(n, (ast.Assign, ast.Delete)) else [n.target]
            if any(isinstance(x, (ast.Attribute, ast.Subscript)) for t in ts for x in ast.walk(t) if isinstance(x, (ast.Attribute, ast.Subscript)) and isinstance(getattr(x, "ctx", None), (ast.Store, ast.Del))):
                ok = False
        elif isinstance(n, (ast.Raise, ast.Global, ast.Nonlocal)):
            ok = False
        elif isinstance(n, ast.Expr) and isinstance(n.value, ast.Call):
            ok = False
    func.node._pure_gen = ok
    return ok


def is_generator_object(st, ref):
    f = st.obj(ref).fields
    return "@gen" in f or "@genc" in f


def pure_generator_object(self, st, ref):
    f = st.obj(ref).fields
    if "@gen" in f:
        return pure_generator(f["@gen"][0])
    cref = f["@genc"][0]
    info = getattr(self, "closure_nodes", {}).get(st.obj(cref).fields.get("@node"))
    if info is None:
        return False

    class _F(object):
        node = info[0]
    return pure_generator(_F)


def force(self, st, ref, node):
    """Run the body of a generator object now, to its end: the object becomes a concrete iterator over what it yields.
    -> outcomes (state, "val", ref) | (state, "raise", exc).  Exact when the consumer takes everything at once
    (list(), extend(), join ...); for a partial consumer (next(), a loop with break) only for a pure generator."""
    o = st.obj(ref)
    self._forcing_generator = getattr(self, "_forcing_generator", 0) + 1
    saved = getattr(self, "eager_generators", False)
    self.eager_generators = True
    try:
        if "@genc" in o.fields:
            cref, args, kwargs = o.fields["@genc"]
            outs = self.call_closure(st, cref, list(args), dict(kwargs), node)
        else:
            func, args, kwargs, self_val = o.fields["@gen"]
            outs = self.call_function(st, func, list(args), dict(kwargs), node, self_val=self_val)
    finally:
        self.eager_generators = saved
        self._forcing_generator -= 1
    res = []
    for (s, k, v) in outs:
        if k != "val":
            res.append((s, k, v))
            continue
        w = s.wobj(ref)
        w.fields.pop("@gen", None)
        w.fields.pop("@genc", None)
        w.fields["@pos"] = 0
        w.items = list(v)
        res.append((s, "val", ref))
    return res


def leaves_concrete(st, ref):
    o = st.obj(ref)
    if "@gen" in o.fields or "@genc" in o.fields:
        return False
    if o.items is not None:
        return True
    if "@op" in o.fields:
        return all(leaves_concrete(st, r) for r in o.fields["@src"])
    return bool(o.fields.get("@done"))


def pull(self, st, ref, node, _depth=0, _seen=None):
    if _seen is None:
        _seen = set()
    o = st.obj(ref)
    if "@gen" in o.fields or "@genc" in o.fields:
        if not pure_generator_object(self, st, ref):
            raise _U()("next() on a generator that has effects at %s" % self.loc(node))
        res = []
        for (s, k, v) in force(self, st, ref, node):
            if k != "val":
                res.append((s, k, v))
            else:
                res.extend(pull(self, s, ref, node, _depth, _seen))
        return res
    if o.items is not None:
        pos = o.fields.get("@pos", 0)
        if pos >= len(o.items):
            return [(st, "stop", None)]
        st.wobj(ref).fields["@pos"] = pos + 1
        return [(st, "val", o.items[pos])]
    op = o.fields.get("@op")
    if op is None:
        if o.fields.get("@done"):
            return [(st, "stop", None)]
        seq = o.fields["@seq"]
        out = []
        if not (seq.nonempty and not o.fields.get("@started")):
            s0 = st.fork()
            s0.wobj(ref).fields["@done"] = True
            self.emit(s0, ("loopexit", id(node), seq.name))
            out.append((s0, "stop", None))
        s1 = st.fork()
        s1.wobj(ref).fields["@started"] = True
        for (s2, elem, label) in seq.factory(self, s1):
            s2.note("%s: next(%s): %s" % (self.loc(node), seq.name, label))
            self.emit(s2, ("iter", id(node), seq.name, elem))
            out.append((s2, "val", elem))
        return out
    if o.fields.get("@done"):
        return [(st, "stop", None)]
    srcs = o.fields["@src"]
    fn = o.fields.get("@fn")
    if op == "map":
        states = [(st, [])]
        for r in srcs:
            nxt = []
            for (s, vals) in states:
                for (s2, k, v) in pull(self, s, r, node, _depth, _seen):
                    if k == "val":
                        nxt.append((s2, vals + [v]))
                    elif k == "stop":
                        s2.wobj(ref).fields["@done"] = True
                        nxt.append((s2, None))
                    else:
                        nxt.append((s2, (k, v)))
            states = []
            out_early = []
            for (s, vals) in nxt:
                if isinstance(vals, list):
                    states.append((s, vals))
                else:
                    out_early.append((s, vals))
            if out_early:
                # a source ended or raised: the map ends / raises there
                res = [(s, "stop", None) if vals is None else (s, vals[0], vals[1]) for (s, vals) in out_early]
                for (s, vals) in states:
                    res.extend(_apply(self, s, fn, vals, node))
                return res
        res = []
        for (s, vals) in states:
            res.extend(_apply(self, s, fn, vals, node))
        return res
    if op == "filter":
        if _depth > 64:
            raise _U()("filter() over a source that does not end at %s" % self.loc(node))
        res = []
        for (s, k, v) in pull(self, st, srcs[0], node, _depth, _seen):
            if k != "val":
                if k == "stop":
                    s.wobj(ref).fields["@done"] = True
                res.append((s, k, v))
                continue
            tests = [(s, "val", v)] if fn is None else _apply(self, s, fn, [v], node)
            for (s2, k2, t) in tests:
                if k2 != "val":
                    res.append((s2, k2, t))
                    continue
                for (s3, b) in self.truth(s2, t, node):
                    if b:
                        res.append((s3, "val", v))
                    else:
                        res.extend(_again(self, s3, ref, node, _depth, _seen))
        return res
    if op in ("takewhile", "dropwhile"):
        state = o.fields.get("@state")
        if op == "takewhile" and state == "closed":
            return [(st, "stop", None)]
        res = []
        for (s, k, v) in pull(self, st, srcs[0], node, _depth, _seen):
            if k != "val" or (op == "dropwhile" and state == "passing"):
                res.append((s, k, v))
                continue
            for (s2, k2, t) in _apply(self, s, fn, [v], node):
                if k2 != "val":
                    res.append((s2, k2, t))
                    continue
                for (s3, b) in self.truth(s2, t, node):
                    if op == "takewhile":
                        if b:
                            res.append((s3, "val", v))
                        else:
                            s3.wobj(ref).fields["@state"] = "closed"
                            res.append((s3, "stop", None))
                    elif b:
                        if _depth > 10000:
                            raise _U()("dropwhile over a source that does not end at %s" % self.loc(node))
                        res.extend(_again(self, s3, ref, node, _depth, _seen))
                    else:
                        s3.wobj(ref).fields["@state"] = "passing"
                        res.append((s3, "val", v))
        return res
    if op == "chain":
        idx = o.fields.get("@idx", 0)
        if idx >= len(srcs):
            return [(st, "stop", None)]
        res = []
        for (s, k, v) in pull(self, st, srcs[idx], node, _depth, _seen):
            if k == "stop":
                s.wobj(ref).fields["@idx"] = idx + 1
                res.extend(pull(self, s, ref, node, _depth, _seen))
            else:
                res.append((s, k, v))
        return res
    if op == "islice":
        start, stop, cnt = o.fields["@start"], o.fields["@stop"], o.fields.get("@cnt", 0)
        if stop is not None and cnt >= stop:
            return [(st, "stop", None)]
        res = []
        for (s, k, v) in pull(self, st, srcs[0], node, _depth, _seen):
            if k != "val":
                res.append((s, k, v))
                continue
            s.wobj(ref).fields["@cnt"] = cnt + 1
            if cnt < start:
                res.extend(pull(self, s, ref, node, _depth, _seen))
            else:
                res.append((s, "val", v))
        return res
    raise _U()("iterator kind %s at %s" % (op, self.loc(node)))


def _again(self, st, ref, node, _depth, seen):
    """the element was skipped (filter / dropwhile): pull again - unless this very state has skipped one before (an abstract source
    yields 'one more element' for ever; what follows from an identical state is already among the outcomes)"""
    probe = st.fork()                   # key() collects garbage: on a copy, so that temporaries of the enclosing expression survive
    probe.frames[-1]["@pull"] = ref
    key = (ref.oid, probe.key())
    if key in seen:
        return []
    seen.add(key)
    return pull(self, st, ref, node, _depth + 1, seen)


def _apply(self, st, fn, args, node):
    from .abscall import apply
    return apply(self, st, fn, list(args), {}, node)


def abstract_seq_of(self, st, ref, node):
    """A lazy iterator over ONE abstract source as an abstract sequence (for a for-loop's fixpoint): map applies the
    function to every element, filter keeps those the predicate accepts.  None when it is not of that shape."""
    o = st.obj(ref)
    op = o.fields.get("@op")
    if op is None:
        if o.items is None and not o.fields.get("@done") and not o.fields.get("@started"):
            return o.fields["@seq"]
        return None
    if op not in ("map", "filter", "takewhile") or len(o.fields["@src"]) != 1:
        return None
    inner = abstract_seq_of(self, st, o.fields["@src"][0], node)
    if inner is None:
        return None
    fn = o.fields.get("@fn")

    def factory(interp, s, _inner=inner, _fn=fn, _op=op):
        out = []
        for (s2, elem, label) in _inner.factory(interp, s):
            if _op == "map":
                for (s3, k, v) in _apply(interp, s2, _fn, [elem], node):
                    if k != "val":
                        raise _U()("map() over an abstract sequence: the function raises (%s) at %s" % (k, interp.loc(node)))
                    out.append((s3, v, label))
            else:
                tests = [(s2, "val", elem)] if _fn is None else _apply(interp, s2, _fn, [elem], node)
                for (s3, k, t) in tests:
                    if k != "val":
                        raise _U()("filter() over an abstract sequence: the predicate raises at %s" % interp.loc(node))
                    for (s4, b) in interp.truth(s3, t, node):
                        if b:
                            out.append((s4, elem, label))
        return out
    # takewhile over "zero or more elements": the loop may end at every head anyway, so an element that fails the predicate
    # is simply not produced (what follows it is never seen) - the same abstract sequence as filter
    return AbsSeq("%s(%s)" % (op, inner.name), factory, inner.nonempty if op == "map" else False)


# ----------------------------------------------------------------------
# callables of operator / functools
# ----------------------------------------------------------------------
def pyfn_call(fn, interp, st, args, kwargs, node):
    from .abscall import apply
    kind, parts = fn.kind, fn.parts
    if kind == "methodcaller":
        name, margs, mkw = parts
        if len(args) != 1:
            return interp.raise_exc(st, "TypeError", node, "methodcaller", "methodcaller expected 1 argument")
        res = []
        for (s, k, m) in _getattr(interp, st, args[0], name, node):
            if k != "val":
                res.append((s, k, m))
            else:
                res.extend(apply(interp, s, m, list(margs), dict(mkw), node))
        return res
    if kind == "attrgetter":
        if len(args) != 1:
            return interp.raise_exc(st, "TypeError", node, "attrgetter", "attrgetter expected 1 argument")
        states = [(st, [])]
        for dotted_name in parts:
            nxt = []
            for (s, vals) in states:
                cur = [(s, "val", args[0])]
                for attr in dotted_name.split("."):
                    step = []
                    for (s2, k, v) in cur:
                        if k != "val":
                            step.append((s2, k, v))
                        else:
                            step.extend(_getattr(interp, s2, v, attr, node))
                    cur = step
                for (s2, k, v) in cur:
                    nxt.append((s2, vals + [v]) if k == "val" else (s2, (k, v)))
            states = nxt
        res = []
        for (s, vals) in states:
            if isinstance(vals, tuple):
                res.append((s, vals[0], vals[1]))
            else:
                res.append((s, "val", vals[0] if len(parts) == 1 else tuple(vals)))
        return res
    if kind == "itemgetter":
        if len(args) != 1:
            return interp.raise_exc(st, "TypeError", node, "itemgetter", "itemgetter expected 1 argument")
        states = [(st, [])]
        for idx in parts:
            nxt = []
            for (s, vals) in states:
                for (s2, k, v) in interp.get_item(s, args[0], idx, node):
                    nxt.append((s2, vals + [v]) if k == "val" else (s2, (k, v)))
            states = [x for x in nxt]
        res = []
        for (s, vals) in states:
            if isinstance(vals, tuple):
                res.append((s, vals[0], vals[1]))
            else:
                res.append((s, "val", vals[0] if len(parts) == 1 else tuple(vals)))
        return res
    if kind == "namedtuple":
        typename, names, defaults = parts
        vals = dict(zip(names, args))
        if len(args) > len(names) or any(k_ not in names or k_ in vals for k_ in kwargs):
            return interp.raise_exc(st, "TypeError", node, "namedtuple", "%s() got unexpected arguments" % typename)
        vals.update(kwargs)
        for n_, d_ in zip(names[len(names) - len(defaults):], defaults):
            vals.setdefault(n_, d_)
        missing = [n_ for n_ in names if n_ not in vals]
        if missing:
            return interp.raise_exc(st, "TypeError", node, "namedtuple", "%s() missing %s" % (typename, missing))
        fields = {n_: vals[n_] for n_ in names}
        fields["@nt"] = names
        return [(st, "val", st.alloc(HObj(typename, fields, label=typename)))]
    if kind == "dict.fromkeys":
        if not (1 <= len(args) <= 2) or kwargs:
            return interp.raise_exc(st, "TypeError", node, "fromkeys", "dict.fromkeys expects 1 or 2 arguments")
        k_, seq = interp.iter_values(st, args[0], node)
        if k_ != "concrete":
            raise _U()("dict.fromkeys over an abstract sequence at %s" % interp.loc(node))
        value = args[1] if len(args) == 2 else None       # ONE value object shared by every key, as in Python
        items = []
        for key in seq:
            if not any(interp.x_key_eq(st, k0, key) is True for k0, _ in items):
                items.append((key, value))
        return [(st, "val", st.alloc(HObj("dict", kind="dict", items=items)))]
    if kind == "partial":
        f, pargs, pkw = parts
        kw = dict(pkw)
        kw.update(kwargs)
        return apply(interp, st, f, list(pargs) + list(args), kw, node)
    raise _U()("callable %s at %s" % (kind, interp.loc(node)))


def _getattr(interp, st, base, attr, node):
    r = interp.get_attr(st, base, attr, node)
    return r


_BINOPS = {"eq": "Eq", "ne": "NotEq", "lt": "Lt", "le": "LtE", "gt": "Gt", "ge": "GtE", "is_": "Is", "is_not": "IsNot"}


def call_ext(self, st, name, args, kwargs, node):
    """operator.* / functools.partial / itertools.* -> outcomes, or KeyError when the name is not modelled"""
    import ast
    mod, _, last = name.rpartition(".")
    if mod == "operator":
        if last == "methodcaller" and args and isinstance(args[0], str):
            return [(st, "val", PyFn("methodcaller", (args[0], tuple(args[1:]), tuple(sorted(kwargs.items())))))]
        if last == "attrgetter" and args and all(isinstance(a, str) for a in args) and not kwargs:
            return [(st, "val", PyFn("attrgetter", tuple(args)))]
        if last == "itemgetter" and args and not kwargs:
            return [(st, "val", PyFn("itemgetter", tuple(args)))]
        if last in _BINOPS and len(args) == 2 and not kwargs:
            r = self.x_compare(st, getattr(ast, _BINOPS[last])(), args[0], args[1], node)
            return [(st, "val", r)]
        if last == "contains" and len(args) == 2 and not kwargs:
            return [(st, "val", self.x_compare(st, ast.In(), args[1], args[0], node))]
        if last in ("not_", "truth") and len(args) == 1 and not kwargs:
            return [(s, "val", (not b) if last == "not_" else b) for (s, b) in self.truth(st, args[0], node)]
        if last == "getitem" and len(args) == 2 and not kwargs:
            return self.get_item(st, args[0], args[1], node)
        return KeyError
    if name == "collections.namedtuple" and len(args) == 2 and isinstance(args[0], str) and not (set(kwargs) - {"rename", "defaults", "module"}):
        spec = args[1]
        names = None
        if isinstance(spec, str):
            names = tuple(spec.replace(",", " ").split())
        elif not isinstance(spec, Top):
            kind, seq = self.iter_values(st, spec, node)
            if kind == "concrete" and all(isinstance(x, str) for x in seq):
                names = tuple(seq)
        dflt = kwargs.get("defaults")
        if names and (dflt is None or isinstance(dflt, tuple)):
            return [(st, "val", PyFn("namedtuple", (args[0], names, tuple(dflt or ()))))]
    if name == "collections.defaultdict" and len(args) <= 1 and not kwargs:
        return [(st, "val", st.alloc(HObj("dict", {"@default_factory": args[0] if args else None}, kind="dict", items=[])))]
    if name == "collections.OrderedDict" and not args and not kwargs:
        return [(st, "val", st.alloc(HObj("dict", kind="dict", items=[])))]
    if name in ("functools.reduce", "reduce") and 2 <= len(args) <= 3 and not kwargs and not isinstance(args[1], Top):
        # reduce(f, xs[, init]) over a fully known sequence: the fold, call by call
        try:
            kind, seq = self.iter_values(st, args[1], node)
        except Exception:       # noqa
            kind, seq = None, None
        if kind == "concrete":
            seq = list(seq)
            if len(args) == 3:
                accs = [(st, "val", args[2])]
            elif seq:
                accs, seq = [(st, "val", seq[0])], seq[1:]
            else:
                return self.raise_exc(st, "TypeError", node, "reduce", "reduce() of empty iterable with no initial value")
            for x in seq:
                nxt = []
                for (s1, k1, acc) in accs:
                    if k1 != "val":
                        nxt.append((s1, k1, acc))
                    else:
                        nxt.extend(_apply(self, s1, args[0], [acc, x], node))
                accs = nxt
            return accs
    if name == "functools.partial" and args:
        return [(st, "val", PyFn("partial", (args[0], tuple(args[1:]), tuple(sorted(kwargs.items())))))]
    if name in ("itertools.islice",) and 2 <= len(args) <= 3 and not kwargs and all(isinstance(a, int) or a is None for a in args[1:]):
        start, stop = (0, args[1]) if len(args) == 2 else (args[1] or 0, args[2])
        if not isinstance(args[0], Top):
            return [(st, "val", lazy(self, st, "islice", None, [args[0]], node, start=start, stop=stop, cnt=0))]
    if name == "itertools.product" and args and set(kwargs) <= {"repeat"} and not any(isinstance(a, Top) for a in args):
        import itertools as _it
        parts = []
        for a in args:
            kind, seq = self.iter_values(st, a, node)
            if kind != "concrete":
                parts = None
                break
            parts.append(list(seq))
        rep = kwargs.get("repeat", 1)
        if parts is not None and isinstance(rep, int):
            return [(st, "val", st.alloc(HObj("iterator", {"@pos": 0}, kind="iterator", items=list(_it.product(*parts, repeat=rep)))))]
    if name in ("itertools.takewhile", "itertools.dropwhile") and len(args) == 2 and not kwargs and not isinstance(args[1], Top):
        return [(st, "val", lazy(self, st, name.split(".")[-1], args[0], [args[1]], node, state="open"))]
    if name in ("itertools.chain.from_iterable",) and len(args) == 1 and not kwargs and not isinstance(args[0], Top):
        kind, seq = self.iter_values(st, args[0], node)
        if kind == "concrete" and not any(isinstance(x, Top) for x in seq):
            return [(st, "val", lazy(self, st, "chain", None, list(seq), node, idx=0))]
    return KeyError


def builtin_map_filter(self, st, name, args, kwargs, node):
    if kwargs or len(args) < 2 or any(isinstance(a, Top) for a in args[1:]):
        return KeyError
    if name == "filter" and len(args) != 2:
        return KeyError
    return [(st, "val", lazy(self, st, name, args[0], list(args[1:]), node))]


def builtin_next(self, st, args, kwargs, node):
    if kwargs or not (1 <= len(args) <= 2) or not is_iterator(st, args[0]):
        return KeyError
    res = []
    for (s, k, v) in pull(self, st, args[0], node):
        if k == "stop":
            if len(args) == 2:
                res.append((s, "val", args[1]))
            else:
                res.extend(self.raise_exc(s, "StopIteration", node, "next", "next() on an exhausted iterator"))
        else:
            res.append((s, k, v))
    return res
