# -*- coding: utf-8 -*-
"""C18 output capture: the controller's typestate and the log-capture pairing.

  K2  CaptureController explored over every sequence of start/stop calls up to length 3 for
      the 4 stdout/stderr switch combinations, with sys.stdout / sys.stderr as abstract
      identities {REAL, CAPTURE}: after the last stop (or without start) both streams are the
      real ones again; while started and enabled the stream is the capture buffer; a disabled
      switch never touches its stream; no internal assertion fails
  K4  LoggingCapture.inveigle saves the root level before changing it; abandon removes the
      capture handler, re-adds removed handlers and restores the level
  K6  LoggingCapture keeps every record: the inherited BufferingHandler.flush (which empties
      the buffer at capacity) is overridden by a flush that does not drop the buffer
"""
from __future__ import annotations

import ast
import itertools

from .index import AnalysisError, ClassInfo, unparse
from .values import Top, HObj, Ref, Exc, State, ClassVal, GE2
from .absint import Interp
from .report import Finding

WHAT = {
    "K7": "every scenario starts with empty capture buffers (stdout, stderr, log)",
    "K8": "the captured-output report contains each stream exactly when that stream's own switch is on",
    "K2": "CaptureController: for every start/stop sequence and switch combination the real streams are back after stop; disabled switches leave their stream alone",
    "K4": "log capture: level saved before it is changed; abandon removes the handler, re-adds removed handlers, restores the level",
    "K6": "captured log records are never dropped implicitly (flush of the buffering handler is a no-op override)",
}


def check_controller(chk, ix):
    chk.rule("K2", WHAT["K2"])
    cc = ix.cls("behave.capture:CaptureController")
    start, stop = cc.lookup("start_capture"), cc.lookup("stop_capture")
    if start is None or stop is None:
        raise AnalysisError("anchor missing: CaptureController.start_capture/stop_capture")
    seqs = [s for n in (1, 2, 3) for s in itertools.product(("start", "stop"), repeat=n)]
    # "user": the step (or hook) that runs between start and stop redirects sys.stdout / sys.stderr itself and does not put
    # them back (it failed on the way): stop_capture still restores the streams it took away
    seqs += [("start", "user", "stop"), ("start", "user", "stop", "start", "stop")]
    for out_on in (True, False):
        for err_on in (True, False):
            for seq in seqs:
                st = State()
                st.frames = []
                real_out = st.alloc(HObj("Stream", {}, label="REAL stdout"))
                real_err = st.alloc(HObj("Stream", {}, label="REAL stderr"))
                cap_out = st.alloc(HObj("Stream", {}, label="CAPTURE stdout"))
                cap_err = st.alloc(HObj("Stream", {}, label="CAPTURE stderr"))
                st.ghost["@g:sys.stdout"] = real_out
                st.ghost["@g:sys.stderr"] = real_err
                cfg = st.alloc(HObj("ConfigStub", {"stdout_capture": out_on, "stderr_capture": err_on, "log_capture": False}, label="config"))
                ctl = st.alloc(HObj(cc, {"config": cfg, "stdout_capture": cap_out if out_on else None,
                                         "stderr_capture": cap_err if err_on else None, "log_capture": None,
                                         "old_stdout": None, "old_stderr": None}, label="controller"))
                it = Interp(ix, name="CaptureController")
                cur = [st]
                failed = None
                started = False
                foreign = st.alloc(HObj("Stream", {}, label="stream installed by user code"))
                user_left = False
                for i, op in enumerate(seq):
                    nxt = []
                    if op == "user":
                        for s in cur:
                            s.ghost["@g:sys.stdout"] = foreign
                            s.ghost["@g:sys.stderr"] = foreign
                        user_left = True
                        continue
                    if op == "stop" and user_left:
                        user_left = "restored"
                    for s in cur:
                        for (s2, k, v) in it.call_function(s, start if op == "start" else stop, [], {}, None, self_val=ctl):
                            if k != "val":
                                failed = (op, i, v)
                            else:
                                nxt.append(s2)
                    cur = nxt
                    started = (op == "start") or (started and op != "stop")
                chk.absorb(it)
                chk.instance("K2")
                key = "stdout_capture=%s stderr_capture=%s: %s" % (out_on, err_on, ";".join(seq))
                if failed or len(cur) != 1:
                    chk.fail(Finding("K2", cc.fullname, key + " raises", "CaptureController fails on the call sequence %s with "
                                     "stdout_capture=%s, stderr_capture=%s: %r" % (";".join(seq), out_on, err_on, failed),
                                     file=start.file, line=start.lineno))
                    continue
                s = cur[0]
                o, e = s.ghost["@g:sys.stdout"], s.ghost["@g:sys.stderr"]
                want_o = cap_out if (started and out_on) else real_out
                want_e = cap_err if (started and err_on) else real_err
                if user_left and not started:
                    # a stream the controller never took away stays what user code made of it
                    want_o = real_out if out_on else foreign
                    want_e = real_err if err_on else foreign
                lab = lambda r: s.obj(r).label if isinstance(r, Ref) else repr(r)
                if o == want_o and e == want_e:
                    chk.ok("K2", {"switches": {"stdout": out_on, "stderr": err_on}, "calls": list(seq),
                                  "sys.stdout": lab(o), "sys.stderr": lab(e)}, nontrivial_key=key)
                else:
                    chk.fail(Finding("K2", (stop if seq[-1] == "stop" else start).fullname, key + " -> %s / %s" % (lab(o), lab(e)),
                                     "after %s with stdout_capture=%s, stderr_capture=%s: sys.stdout is %s, sys.stderr is %s "
                                     "(expected %s / %s)" % (";".join(seq), out_on, err_on, lab(o), lab(e), lab(want_o), lab(want_e)),
                                     file=stop.file, line=stop.lineno, path=list(s.path)))
    chk.require_instances("K2", 40)


def check_log_capture(chk, ix):
    chk.rule("K4", WHAT["K4"])
    chk.rule("K6", WHAT["K6"])
    lc = ix.cls("behave.log_capture:LoggingCapture")
    inv, ab = lc.lookup("inveigle"), lc.lookup("abandon")
    if inv is None or ab is None:
        raise AnalysisError("anchor missing: LoggingCapture.inveigle/abandon")
    # what inveigle() / abandon() do to the loggers (level saved and restored, foreign handlers taken off and put back, the
    # capture handler added and removed) is decided by evaluation on logger tokens: check_log_level_roundtrip; that
    # teardown_capture() reaches abandon(): check_teardown_abandons.  Here: setup_capture() reaches inveigle() - evaluated.
    cc = ix.cls("behave.capture:CaptureController")
    su = cc.lookup("setup_capture")
    if su is None:
        raise AnalysisError("anchor missing: CaptureController.setup_capture")
    for log_on in (True, False):
        called = []
        made = []

        def lc_ctor(i, s_, a, k, n):
            r = s_.alloc(HObj("LogCapTok", {}, open=True, label="log capture"))
            made.append(r.oid)
            return [(s_, "val", r)]
        it = Interp(ix, stubs={"LoggingCapture": lc_ctor, "LogCapTok.inveigle": lambda i, s_, a, k, n: (called.append(a[0].oid), [(s_, "val", None)])[1],
                               "StringIO": lambda i, s_, a, k, n: [(s_, "val", s_.alloc(HObj("BufTok", {}, open=True)))],
                               "six.StringIO": lambda i, s_, a, k, n: [(s_, "val", s_.alloc(HObj("BufTok", {}, open=True)))]}, name="setup_capture")
        st = State()
        st.frames = []
        cfg = st.alloc(HObj("ConfigStub", {"stdout_capture": False, "stderr_capture": False, "log_capture": log_on}, label="config"))
        ctx = st.alloc(HObj("ContextTok", {}, open=True, label="context"))
        ctl = st.alloc(HObj(cc, {"config": cfg, "stdout_capture": None, "stderr_capture": None, "log_capture": None, "old_stdout": None, "old_stderr": None},
                            label="controller"))
        outs = it.call_function(st, su, [ctx], {}, None, self_val=ctl)
        chk.absorb(it)
        chk.instance("K4")
        if not outs or any(k != "val" for _, k, _v in outs):
            raise AnalysisError("setup_capture not evaluable: %r" % [(k, v) for _, k, v in outs][:3])
        if bool(called) == log_on and (not log_on or set(called) <= set(made)):
            chk.ok("K4", {"log_capture": log_on, "setup_capture installs the capture handler": bool(called)}, nontrivial_key=("setup", log_on))
        else:
            chk.fail(Finding("K4", su.fullname, "log_capture=%s: inveigle %s" % (log_on, "called" if called else "not called"),
                             "setup_capture() with log capture %s %s the log capture handler" % ("on" if log_on else "off", "installs" if called else "does not install"),
                             file=su.file, line=su.lineno, stmt="def setup_capture"))
    # K6
    chk.instance("K6")
    ext = lc.external_bases()
    fl = lc.methods.get("flush")
    if any(b.endswith("BufferingHandler") for b in ext):
        drops = fl is not None and any((isinstance(n, ast.Assign) and "buffer" in unparse(n.targets[0])) or
                                       (isinstance(n, ast.Call) and unparse(n.func).endswith("buffer.clear")) or
                                       (isinstance(n, ast.Call) and "flush" in unparse(n.func) and "super" in unparse(n.func))
                                       for n in ast.walk(fl.node))
        if fl is None or drops:
            chk.fail(Finding("K6", lc.fullname + ".flush", "flush drops the buffer",
                             "LoggingCapture %s: logging.handlers.BufferingHandler.flush() empties the buffer when its capacity is "
                             "reached, so records captured in a scenario are silently lost" % (
                                 "does not override flush()" if fl is None else "flush() clears the buffer"),
                             file=lc.module.relpath, line=lc.node.lineno))
        else:
            chk.ok("K6", {"flush": "overridden, keeps the buffer"}, nontrivial_key="flush")
    else:
        chk.ok("K6", {"base": ext}, nontrivial_key="no buffering base")


def check_log_level_roundtrip(chk, ix):
    """K4 by evaluation: inveigle() then abandon() on a root-logger token, for every original level (NOTSET = 0 included)
    and both settings of logging_clear_handlers: level and handler list are what they were before."""
    chk.rule("K4", WHAT["K4"])
    lc = ix.cls("behave.log_capture:LoggingCapture")
    inv, ab = lc.lookup("inveigle"), lc.lookup("abandon")
    for level0 in (0, 10, 30):
        for clear in (False, True):
            st = State()
            st.frames = []
            h1 = st.alloc(HObj("HandlerTok", {}, label="user handler"))
            h2 = st.alloc(HObj("HandlerTok", {}, label="second user handler"))
            handlers = st.alloc(HObj("list", kind="list", items=[h1, h2], label="root handlers"))
            root = st.alloc(HObj("LoggerTok", {"level": level0, "handlers": handlers}, label="root logger"))

            def add_handler(i, s_, a, k, n):
                lst = s_.wobj(s_.obj(a[0]).fields["handlers"])
                if a[1] not in lst.items:
                    lst.items = list(lst.items) + [a[1]]
                return [(s_, "val", None)]

            def remove_handler(i, s_, a, k, n):
                lst = s_.wobj(s_.obj(a[0]).fields["handlers"])
                lst.items = [x for x in lst.items if x != a[1]]
                return [(s_, "val", None)]

            def set_level(i, s_, a, k, n):
                s_.wobj(a[0]).fields["level"] = a[1]
                return [(s_, "val", None)]
            stubs = {"logging.getLogger": lambda i, s_, a, k, n: [(s_, "val", root)], "LoggerTok.addHandler": add_handler,
                     "LoggerTok.removeHandler": remove_handler, "LoggerTok.setLevel": set_level}
            it = Interp(ix, stubs=stubs, name="LoggingCapture inveigle/abandon")
            it.live_list_iteration = True
            it.int_sat = 1000
            it.list_cap = 100
            # one other logger with three handlers of its own (hasattr(logger, "handlers") is true for it)
            app_h = [st.alloc(HObj("HandlerTok", {}, label="app handler %d" % i)) for i in (1, 2, 3)]
            app_handlers = st.alloc(HObj("list", kind="list", items=list(app_h), label="app logger handlers"))
            app = st.alloc(HObj("LoggerTok", {"level": 0, "handlers": app_handlers}, label="app logger"))
            it.stubs["logging.Logger.manager.loggerDict.values"] = lambda i, s_, a, k, n, _app=app: [(s_, "val", (_app,))]
            cfg = st.alloc(HObj("ConfigStub", {"logging_clear_handlers": clear}, label="config"))
            me = st.alloc(HObj(lc, {"config": cfg, "old_handlers": st.alloc(HObj("list", kind="list", items=[])), "old_level": None,
                                    "level": 20, "buffer": st.alloc(HObj("list", kind="list", items=[]))}, label="log capture"))
            cur = [st]
            during = []
            for fn in (inv, ab):
                nxt = []
                for s_ in cur:
                    for (s2, k, v) in it.call_function(s_, fn, [], {}, None, self_val=me):
                        if k != "val":
                            raise AnalysisError("LoggingCapture.%s not evaluable: %r" % (fn.name, v))
                        nxt.append(s2)
                cur = nxt
                if fn is inv:
                    during = [list(s_.obj(s_.obj(root).fields["handlers"]).items) for s_ in cur]
                    during_app = [list(s_.obj(s_.obj(app).fields["handlers"]).items) for s_ in cur]
            chk.absorb(it)

            def labels(s_, hs):
                return [s_.obj(h).label for h in hs if isinstance(h, Ref)]
            for s_, dur in zip(cur, during if len(during) == len(cur) else [None] * len(cur)):
                chk.instance("K4")
                lvl = s_.obj(root).fields["level"]
                hs = list(s_.obj(s_.obj(root).fields["handlers"]).items)
                want_during = [me] if clear else [h1, h2, me]
                app_now = during_app[cur.index(s_)] if len(during_app) == len(cur) else None
                app_after = list(s_.obj(s_.obj(app).fields["handlers"]).items)
                ok_app = (app_now is None or app_now == ([] if clear else app_h)) and sorted(x.oid for x in app_after) == sorted(x.oid for x in app_h)
                ok_during = (dur is None or dur == want_during) and ok_app
                if not ok_app:
                    dur = (dur or []) + (app_now or [])
                if lvl == level0 and sorted(x.oid for x in hs) == sorted((h1.oid, h2.oid)) and len(hs) == 2 and ok_during:
                    chk.ok("K4", {"root_level_before": level0, "logging_clear_handlers": clear, "handlers while capturing": labels(s_, dur or []),
                                  "after inveigle+abandon": "level and handlers as before"}, nontrivial_key=(level0, clear))
                else:
                    chk.fail(Finding("K4", (ab if ok_during else inv).fullname,
                                     "level %r -> %r, handlers while capturing %s, afterwards %s" % (level0, lvl, labels(s_, dur or []), labels(s_, hs)),
                                     "with the root logger at level %r, two user handlers and logging_clear_handlers=%s: while capturing the root "
                                     "handlers are %s (expected %s), after abandon() the level is %r and the handlers are %s; expected level %r "
                                     "and exactly the two user handlers" % (level0, clear, labels(s_, dur or []), labels(s_, want_during), lvl,
                                                                             labels(s_, hs), level0),
                                     file=ab.file, line=ab.lineno, path=list(s_.path)))


def check_fresh_buffers(chk, ix):
    """K7: every scenario starts with empty capture buffers: setup_capture creates new buffers (or empties the ones it keeps)."""
    chk.rule("K7", WHAT["K7"])
    cc = ix.cls("behave.capture:CaptureController")
    su = cc.lookup("setup_capture")
    made = []

    def new_buffer(kind):
        def stub(i, s_, a, k, n):
            r = s_.alloc(HObj(kind, {"emptied": False}, label="%s#%d" % (kind, len(made) + 1)))
            made.append(r)
            return [(s_, "val", r)]
        return stub

    def emptied(i, s_, a, k, n):
        s_.wobj(a[0]).fields["emptied"] = True
        return [(s_, "val", None)]
    stubs = {"StringIO": new_buffer("StringIOTok"), "six.StringIO": new_buffer("StringIOTok"), "io.StringIO": new_buffer("StringIOTok"),
             "LoggingCapture": new_buffer("LogCapTok"),
             "LogCapTok.inveigle": lambda i, s_, a, k, n: [(s_, "val", None)]}
    for m in ("truncate", "clear", "reset", "flush_buffer"):
        stubs["LogCapTok." + m] = emptied
        stubs["StringIOTok." + m] = emptied
    stubs["StringIOTok.seek"] = lambda i, s_, a, k, n: [(s_, "val", None)]
    it = Interp(ix, stubs=stubs, name="CaptureController.setup_capture")
    st = State()
    st.frames = []
    cfg = st.alloc(HObj("ConfigStub", {"stdout_capture": True, "stderr_capture": True, "log_capture": True}, label="config"))
    ctl = st.alloc(HObj(cc, {"config": cfg, "stdout_capture": None, "stderr_capture": None, "log_capture": None,
                             "old_stdout": None, "old_stderr": None}, label="controller"))
    ctx = st.alloc(HObj("ContextTok", {}, open=True, label="context"))
    cur = st
    seen = {}
    for round_ in (1, 2):
        outs = it.call_function(cur, su, [ctx], {}, None, self_val=ctl)
        if len(outs) != 1 or outs[0][1] != "val":
            raise AnalysisError("setup_capture not evaluable: %r" % ([(k, v) for _, k, v in outs][:3],))
        cur = outs[0][0]
        for name in ("stdout_capture", "stderr_capture", "log_capture"):
            v = cur.obj(ctl).fields.get(name)
            if round_ == 1:
                seen[name] = v
                if isinstance(v, Ref):
                    cur.wobj(v).fields["emptied"] = False       # the scenario then writes into it
            else:
                chk.instance("K7")
                fresh = isinstance(v, Ref) and (not isinstance(seen[name], Ref) or v.oid != seen[name].oid or cur.obj(v).fields.get("emptied") is True)
                if fresh:
                    chk.ok("K7", {"buffer": name, "second scenario": "new or emptied buffer"}, nontrivial_key=name)
                else:
                    chk.fail(Finding("K7", su.fullname, "%s is reused as it is" % name, "setup_capture for the next scenario keeps the %s buffer of "
                                     "the previous one without emptying it: a failure report shows output captured in earlier scenarios" % name,
                                     file=su.file, line=su.lineno))
    chk.absorb(it)


def check_captured_switches(chk, ix):
    """K8: what the controller reports as captured follows the three capture switches one by one."""
    chk.rule("K8", WHAT["K8"])
    cc = ix.cls("behave.capture:CaptureController")
    prop = cc.lookup("captured")
    for out_on, err_on, log_on in itertools.product((True, False), repeat=3):
        got = []
        stubs = {"Captured": lambda i, s_, a, k, n: (got.append(tuple(a) + tuple(k.get(x) for x in ("stdout", "stderr", "log_output") if x in k)), [(s_, "val", "CAPTURED")])[1],
                 "BufTok.getvalue": lambda i, s_, a, k, n: [(s_, "val", s_.obj(a[0]).fields["content"])],
                 "_text": lambda i, s_, a, k, n: [(s_, "val", a[0])], "text": lambda i, s_, a, k, n: [(s_, "val", a[0])]}
        it = Interp(ix, stubs=stubs, name="CaptureController.captured")
        st = State()
        st.frames = []
        cfg = st.alloc(HObj("ConfigStub", {"stdout_capture": out_on, "stderr_capture": err_on, "log_capture": log_on}, label="config"))
        bufs = {n: st.alloc(HObj("BufTok", {"content": n.upper()}, label=n)) for n in ("out", "err", "log")}
        # as setup_capture() leaves them: a buffer exists exactly for the streams that are captured
        ctl = st.alloc(HObj(cc, {"config": cfg, "stdout_capture": bufs["out"] if out_on else None, "stderr_capture": bufs["err"] if err_on else None,
                                 "log_capture": bufs["log"] if log_on else None,
                                 "old_stdout": None, "old_stderr": None}, label="controller"))
        outs = it.call_function(st, prop, [], {}, None, self_val=ctl)
        chk.absorb(it)
        chk.instance("K8")
        if len(got) == 1 and len(got[0]) < 3:
            got[0] = tuple(got[0]) + (None,) * (3 - len(got[0]))        # Captured(stdout=None, stderr=None, log_output=None)
        if len(outs) != 1 or outs[0][1] != "val" or len(got) != 1 or len(got[0]) != 3:
            raise AnalysisError("CaptureController.captured not evaluable: %r / %r" % ([(k, v) for _, k, v in outs][:3], got))
        want = ("OUT" if out_on else None, "ERR" if err_on else None, "LOG" if log_on else None)
        if got[0] == want:
            chk.ok("K8", {"switches": {"stdout": out_on, "stderr": err_on, "log": log_on}, "captured": list(want)}, nontrivial_key=(out_on, err_on, log_on))
        else:
            chk.fail(Finding("K8", prop.fullname, "stdout=%s stderr=%s log=%s -> %r" % (out_on, err_on, log_on, got[0]),
                             "with stdout_capture=%s, stderr_capture=%s, log_capture=%s the controller reports %r as captured; expected %r "
                             "(each stream is reported exactly when its own switch is on: otherwise swapped-away output is lost)" % (
                                 out_on, err_on, log_on, got[0], want), file=prop.file, line=prop.lineno))



WHAT["K9"] = "the log capture keeps every record of the scenario until the scenario ends: reaching the handler's nominal capacity (flush) drops nothing"


def check_flush_keeps_records(chk, ix):
    """K9: LoggingCapture.flush evaluated on a buffer that holds more records than the capacity."""
    chk.rule("K9", WHAT["K9"])
    lc = ix.cls("behave.log_capture:LoggingCapture")
    f = lc.lookup("flush")
    if f is None:
        # inherited from logging.handlers.BufferingHandler: its flush() empties the buffer
        chk.instance("K9")
        chk.fail(Finding("K9", "behave.log_capture:LoggingCapture", "flush not overridden",
                         "LoggingCapture does not override flush(): BufferingHandler.flush() empties the buffer whenever the capacity is reached - "
                         "records of a failing scenario are lost", file=lc.file if hasattr(lc, "file") else "behave/log_capture.py", line=1))
        return
    for n_records, capacity in ((5, 2), (3, 3), (1000, 10)):
        it = Interp(ix, name="LoggingCapture.flush")
        it.int_sat = 100000
        it.list_cap = 100000
        st = State()
        st.frames = []
        buf = st.alloc(HObj("list", kind="list", items=["record%d" % i for i in range(n_records)], label="buffer"))
        me = st.alloc(HObj(lc, {"buffer": buf, "capacity": capacity}, label="log capture"))
        outs = it.call_function(st, f, [], {}, None, self_val=me)
        chk.absorb(it)
        chk.instance("K9")
        if len(outs) != 1 or outs[0][1] != "val":
            raise AnalysisError("LoggingCapture.flush not evaluable: %r" % [(k, v) for _, k, v in outs][:3])
        s1 = outs[0][0]
        b2 = s1.obj(me).fields.get("buffer")
        items = s1.obj(b2).items if isinstance(b2, Ref) else None
        if items is not None and len(items) == n_records:
            chk.ok("K9", {"records": n_records, "capacity": capacity, "after flush()": len(items)}, nontrivial_key=(n_records, capacity))
        else:
            chk.fail(Finding("K9", f.fullname, "%d records, capacity %d -> %s" % (n_records, capacity, len(items) if items is not None else "?"),
                             "flush() on a buffer of %d records (capacity %d) leaves %s: a scenario that logs more than the capacity loses records from "
                             "the report of its failing step" % (n_records, capacity, "%d records" % len(items) if items is not None else "an unknown buffer"),
                             file=f.file, line=f.lineno, stmt="def flush"))



def check_teardown_abandons(chk, ix):
    """K4 (pairing, by evaluation): teardown_capture() takes the log capture handler off the root logger whenever log
    capture is on - also after a scenario that logged nothing (the handler object is false while its buffer is empty)."""
    chk.rule("K4", WHAT["K4"])
    cc = ix.cls("behave.capture:CaptureController")
    lc = ix.cls("behave.log_capture:LoggingCapture")
    f = cc.lookup("teardown_capture")
    if f is None:
        raise AnalysisError("anchor missing: CaptureController.teardown_capture")
    for log_on in (True, False):
        for records in ((), ("record",)):
            called = []
            it = Interp(ix, stubs={"LoggingCapture.abandon": lambda i, s_, a, k, n: (called.append(1), [(s_, "val", None)])[1]}, name="teardown_capture")
            it.int_sat = 100
            st = State()
            st.frames = []
            cfg = st.alloc(HObj("ConfigStub", {"stdout_capture": True, "stderr_capture": True, "log_capture": log_on}, label="config"))
            handler = st.alloc(HObj(lc, {"buffer": st.alloc(HObj("list", kind="list", items=list(records)))}, label="log capture handler")) if log_on else None
            ctl = st.alloc(HObj(cc, {"config": cfg, "stdout_capture": None, "stderr_capture": None, "log_capture": handler, "old_stdout": None,
                                     "old_stderr": None}, label="controller"))
            outs = it.call_function(st, f, [], {}, None, self_val=ctl)
            chk.absorb(it)
            chk.instance("K4")
            if len(outs) != 1 or outs[0][1] != "val":
                raise AnalysisError("teardown_capture not evaluable: %r" % [(k, v) for _, k, v in outs][:3])
            if bool(called) == log_on:
                chk.ok("K4", {"log_capture": log_on, "records captured": len(records), "handler abandoned": bool(called)}, nontrivial_key=("teardown", log_on, len(records)))
            else:
                chk.fail(Finding("K4", f.fullname, "log_capture=%s, %d records: abandon %s" % (log_on, len(records), "called" if called else "not called"),
                                 "teardown_capture() with log capture %s after a scenario that logged %s: the capture handler is %s the root logger - it stays "
                                 "installed and the root level it replaced is never restored" % (
                                     "on" if log_on else "off", "nothing" if not records else "something", "taken off" if called else "left on"),
                                 file=f.file, line=f.lineno, stmt="def teardown_capture"))
