# -*- coding: utf-8 -*-
"""C11 Step matching and dispatch (glue around parse / parse_type / re).

  M1  full-text, case-sensitive matching: parse(...) (never search), case_sensitive=True,
      re patterns anchored for the simplified matcher, no IGNORECASE
  M2  lookup: candidates = the step type's definitions followed by the generic ones, first
      match wins, and a lookup never changes the registry
  M3  registration: bad definition ignored; same definition ignored; an existing definition of
      the same type that matches the new pattern => AmbiguousStep; otherwise appended;
      a definition always 'matches' its own pattern text
  M4  Match.run: named arguments by keyword, unnamed by position in list order; parse
      arguments sorted by start offset
  M5  span provenance: Argument(start, end, step_text[start:end], ...) from the same span
  M6  the default step matcher is restored after every step module
  M7  decorators exist for given/when/then/step in both spellings
  M8  every parse matcher owns a parser built from its own pattern AND its own type registry
"""
from __future__ import annotations

import ast
import itertools

from .index import AnalysisError, ClassInfo, unparse, NotConst
from .values import Top, HObj, Ref, Exc, State, ClassVal, GE2
from .absint import Interp
from .report import Finding

WHAT = {
    "M1": "patterns must match the complete step text, case-sensitively",
    "M2": "lookup order: the step type's definitions, then generic ones, first match wins; lookups do not modify the registry",
    "M3": "registration: bad -> ignored, same definition -> ignored, existing same-type definition matches the new pattern -> AmbiguousStep, else appended; a pattern matches itself",
    "M4": "step function gets named parameters by keyword and anonymous ones by position in text order",
    "M5": "each argument's original text is step_text[start:end] for the start/end it stores",
    "M6": "the default matcher is restored after each step module",
    "M7": "step decorators for given/when/then/step in lower and title case",
    "M11": "a type converter whose pattern contains capturing groups declares their number (parse's contract: otherwise the groups of the fields behind it are shifted and the step function receives the wrong texts)",
    "M10": "the function behind a decorated step function is found through every layer of functools.wraps (its location identifies the step definition: duplicates vs. ambiguity)",
    "M9": "the parse-family matchers (parse, cfparse) share the one type registry register_type() writes",
    "M8": "each parse matcher builds its own parser from its pattern and its own custom types (no sharing across matchers)",
}


def _fail(chk, rule, func, witness, text, path=()):
    chk.fail(Finding(rule, func.fullname, witness, text, file=func.file, line=func.lineno, stmt="def " + func.name, path=list(path)))


def check_lookup(chk, ix):
    chk.rule("M2", WHAT["M2"])
    rc = ix.cls("behave.step_registry:StepRegistry")
    for meth, dm in (("find_match", "match"), ("find_step_definition", "match")):
        f = rc.lookup(meth)
        for stype in ("given", "step"):
            for hits in itertools.product((False, True), repeat=3):
                muts = []

                def rec(st, ev):
                    if ev[0] in ("mutate", "append", "extend") and ev[1] <= st.base_oid:
                        muts.append(st.heap[ev[1]].label)
                st = State()
                st.frames = []

                def mk(name, hit):
                    return st.alloc(HObj("DefTok", {"name": name, "hit": hit}, label=name))
                g1, g2, s1 = mk("given#1", hits[0]), mk("given#2", hits[1]), mk("generic#1", hits[2])
                lists = {"given": [g1, g2], "when": [], "then": [], "step": [s1]}
                steps = st.alloc(HObj("dict", kind="dict", items=[(k_, st.alloc(HObj("list", kind="list", items=v, label="registry.steps[%s]" % k_)))
                                                                   for k_, v in lists.items()], label="registry.steps"))
                stubs = {"DefTok.match": lambda it, s, a, k, n: [(s, "val", ("match-of", s.obj(a[0]).fields["name"]) if s.obj(a[0]).fields["hit"] else None)]}
                stubs["BadStepDefinitionErrorHandler"] = lambda it_, s_, a, k, n: [(s_, "val", s_.alloc(HObj("HandlerTok", {}, open=True)))]
                it = Interp(ix, stubs=stubs, on_event=rec, name="StepRegistry." + meth)
                # the registry as its own __init__ makes it (whatever private fields it has), then filled with the definitions
                reg = st.alloc(HObj(rc, {}, label="registry"))
                o0 = it.call_function(st, rc.lookup("__init__"), [], {}, None, self_val=reg)
                if len(o0) != 1 or o0[0][1] != "val" or o0[0][0] is not st:
                    raise AnalysisError("StepRegistry.__init__ not evaluable")
                st.wobj(reg).fields["steps"] = steps
                muts[:] = []
                step = st.alloc(HObj("StepTok", {"step_type": stype, "name": "text"}, label="step"))
                st.freeze_base()
                outs = it.run(f, st, [step], {}, self_val=reg)
                chk.absorb(it)
                chk.instance("M2")
                order = (["given#1", "given#2", "generic#1"] if stype == "given" else ["generic#1"])
                hitmap = {"given#1": hits[0], "given#2": hits[1], "generic#1": hits[2]}
                first = next((n for n in order if hitmap[n]), None)
                if len(outs) != 1 or outs[0][1] != "val":
                    raise AnalysisError("%s not evaluable: %r" % (meth, [(k, v) for _, k, v in outs][:2]))
                v = outs[0][2]
                if meth == "find_match":
                    got = v[1] if isinstance(v, tuple) else None
                else:
                    got = outs[0][0].obj(v).fields["name"] if isinstance(v, Ref) else None
                if got == first and not muts:
                    chk.ok("M2", {"lookup": meth, "step_type": stype, "definitions_matching": [n for n in order if hitmap[n]], "bound_to": got},
                           nontrivial_key=(meth, stype, hits))
                elif muts:
                    _fail(chk, "M2", f, "%s mutates %s" % (meth, muts[0]),
                          "a lookup (%s for a %s step) modifies %s: generic definitions pile up in the typed list, so later typed "
                          "registrations lose their precedence and may be rejected as ambiguous" % (meth, stype, muts[0]), outs[0][0].path)
                else:
                    _fail(chk, "M2", f, "%s %s hits=%s -> %s" % (meth, stype, hits, got),
                          "%s for a %s step with matching definitions %s binds %s, expected %s (type-specific before generic, "
                          "registration order)" % (meth, stype, [n for n in order if hitmap[n]], got, first), outs[0][0].path)
    chk.require_instances("M2", 16)


def check_registration(chk, ix):
    chk.rule("M3", WHAT["M3"])
    rc = ix.cls("behave.step_registry:StepRegistry")
    f = rc.lookup("add_step_definition")
    for good in (True, False):
        for existing in ((), ("same",), ("matches",), ("other",), ("other", "matches"), ("other", "same"), ("matches", "same"), ("same", "matches")):
            st = State()
            st.frames = []
            new = st.alloc(HObj("MatcherTok", {"location": "loc", "pattern": "p"}, label="new definition"))
            exist = [st.alloc(HObj("ExistTok", {"kind": k_, "SCHEMA_AT_LOCATION": "schema"}, label="existing(%s)" % k_)) for k_ in existing]
            compared = []
            stubs = {"make_step_matcher": lambda it, s, a, k, n: [(s, "val", new)],
                     "text": lambda it, s, a, k, n: [(s, "val", a[0])],
                     "StepRegistry.is_good_step_definition": lambda it, s, a, k, n, _g=good: [(s, "val", _g)],
                     "StepRegistry.same_step_definition": lambda it, s, a, k, n, _c=compared: (_c.extend(x for x in a if isinstance(x, str) and x != "loc"), [(s, "val", s.obj([x for x in a if isinstance(x, Ref) and s.obj(x).clsname() == "ExistTok"][0]).fields["kind"] == "same")])[1],
                     "ExistTok.matches": lambda it, s, a, k, n, _c=compared: (_c.extend(x for x in a[1:] if isinstance(x, str)), [(s, "val", s.obj(a[0]).fields["kind"] in ("matches", "same"))])[1],
                     "ExistTok.describe": lambda it, s, a, k, n: [(s, "val", "existing")],
                     "MatcherTok.describe": lambda it, s, a, k, n: [(s, "val", "new")]}
            it = Interp(ix, stubs=stubs, name="add_step_definition")
            lst = st.alloc(HObj("list", kind="list", items=list(exist), label="given definitions"))
            steps = st.alloc(HObj("dict", kind="dict", items=[("given", lst), ("step", st.alloc(HObj("list", kind="list", items=[])))]))
            it.stubs["BadStepDefinitionErrorHandler"] = lambda it_, s_, a, k, n: [(s_, "val", s_.alloc(HObj("HandlerTok", {}, open=True)))]
            reg = st.alloc(HObj(rc, {}, label="registry"))
            o0 = it.call_function(st, rc.lookup("__init__"), [], {}, None, self_val=reg)
            if len(o0) != 1 or o0[0][1] != "val" or o0[0][0] is not st:
                raise AnalysisError("StepRegistry.__init__ not evaluable")
            st.wobj(reg).fields["steps"] = steps
            outs = it.call_function(st, f, ["Given", "pattern text", Top("func", True)], {}, None, self_val=reg)
            chk.absorb(it)
            chk.instance("M3")
            if len(outs) != 1:
                raise AnalysisError("add_step_definition forks unexpectedly: %r" % ([(k, v) for _, k, v in outs][:3],))
            s, k, v = outs[0]
            items = s.obj(lst).items
            appended = len(items) == len(exist) + 1 and isinstance(items[-1], Ref) and items[-1].oid == new.oid
            # expected: walk existing in order
            want = "append"
            if not good:
                want = "ignore"
            else:
                for k_ in existing:
                    if k_ == "same":
                        want = "ignore"
                        break
                    if k_ == "matches":
                        want = "ambiguous"
                        break
            got = "ambiguous" if (k == "raise" and v.clsname() == "AmbiguousStep") else ("append" if appended else ("ignore" if k == "val" and len(items) == len(exist) else "other:%s" % (v,)))
            wrong_text = sorted(set(c for c in compared if c != "pattern text"))
            if wrong_text:
                _fail(chk, "M3", f, "existing definitions compared with %r" % (wrong_text,),
                      "the existing definitions are compared with %r instead of the step text given to the decorator ('pattern text'): "
                      "a matcher may rewrite its pattern (the re matcher anchors it), so overlapping definitions are no longer found "
                      "ambiguous" % (wrong_text,), s.path)
            elif got == want:
                chk.ok("M3", {"definition_good": good, "existing": list(existing), "outcome": got}, nontrivial_key=(good, existing))
            else:
                _fail(chk, "M3", f, "good=%s existing=%s -> %s" % (good, list(existing), got),
                      "registering a %s definition when the type's list holds %s: %s, expected %s" % (
                          "good" if good else "bad", list(existing) or "nothing", got, want), s.path)
    # a pattern matches itself
    mc = ix.cls("behave.matchers:Matcher")
    mf = mc.lookup("matches")
    st = State()
    st.frames = []
    it = Interp(ix, stubs={"Matcher.match": lambda it_, s, a, k, n: [(s, "val", None)]}, name="Matcher.matches")
    me = st.alloc(HObj(mc, {"pattern": "a number {n:d}", "func": None}, label="matcher"))
    outs = it.call_function(st, mf, ["a number {n:d}"], {}, None, self_val=me)
    chk.instance("M3")
    tv = it.truth(outs[0][0], outs[0][2]) if len(outs) == 1 and outs[0][1] == "val" else []
    if len(tv) == 1 and tv[0][1] is True:
        chk.ok("M3", {"Matcher.matches(own pattern text)": True}, nontrivial_key="self-match")
    else:
        _fail(chk, "M3", mf, "pattern does not match itself",
              "Matcher.matches(pattern) is not true for the matcher's own pattern text when the placeholder text is no instance of "
              "the field type: registering the same typed pattern twice for one step type is not detected as ambiguous")


def check_dispatch(chk, ix):
    chk.rule("M4", WHAT["M4"])
    chk.rule("M5", WHAT["M5"])
    mc = ix.cls("behave.matchers:Match")
    f = mc.lookup("run")
    got = {}

    def func(it, st, args, kw, node):
        got["args"] = list(args)
        got["kwargs"] = dict(kw)
        return [(st, "val", None)]
    st = State()
    st.frames = []

    def arg(name, value):
        return st.alloc(HObj("ArgTok", {"name": name, "value": value}, label="arg"))
    arguments = st.alloc(HObj("list", kind="list", items=[arg(None, "pos1"), arg("named", "kw1"), arg(None, "pos2")]))
    it = Interp(ix, stubs={"@with": "transparent", "CtxTok.use_with_user_mode": lambda i, s, a, k, n: [(s, "val", None)]}, name="Match.run")
    ctx = st.alloc(HObj("CtxTok", {}, label="context"))
    me = st.alloc(HObj(mc, {"arguments": arguments, "func": func}, label="match"))
    outs = it.call_function(st, f, [ctx], {}, None, self_val=me)
    chk.absorb(it)
    chk.instance("M4")
    if got.get("args") == [ctx, "pos1", "pos2"] and got.get("kwargs") == {"named": "kw1"}:
        chk.ok("M4", {"call": "func(context, 'pos1', 'pos2', named='kw1')"}, nontrivial_key="call")
    else:
        _fail(chk, "M4", f, "call args=%r kwargs=%r" % (got.get("args"), got.get("kwargs")),
              "Match.run calls the step function with %r / %r for arguments [anonymous pos1, named=kw1, anonymous pos2]" % (got.get("args"), got.get("kwargs")))
    # M4 (text order) and M5 (span provenance) by evaluation on concrete match results
    import re as _re
    pm = ix.cls("behave.matchers:ParseMatcher")
    cm = pm.lookup("check_match")
    for title, spans_fixed, spans_named in (("fixed before named", {0: (2, 4)}, {"n": (7, 9)}), ("named before fixed", {0: (7, 9)}, {"n": (2, 4)}),
                                            ("two fixed, one named in between", {0: (0, 1), 1: (7, 9)}, {"n": (2, 4)})):
        text = "a 12 b xy"
        made = []

        def argument(i, s_, a, k, n, _m=made):
            t = tuple(a) + ((k.get("name"),) if "name" in k else ())
            _m.append(t)
            return [(s_, "val", s_.alloc(HObj("ArgTok", {"start": a[0], "end": a[1], "original": a[2], "value": a[3],
                                                         "name": (a[4] if len(a) > 4 else k.get("name"))}, label="argument")))]
        it = Interp(ix, stubs={"Argument": argument}, name="ParseMatcher.check_match")
        it.int_sat = 1000
        it.list_cap = 100
        st = State()
        st.frames = []
        spans = st.alloc(HObj("dict", kind="dict", items=list(spans_fixed.items()) + list(spans_named.items())))
        result = st.alloc(HObj("ParseResultTok", {"fixed": tuple("F%d" % i for i in sorted(spans_fixed)),
                                                  "named": st.alloc(HObj("dict", kind="dict", items=[(k_, "N:" + k_) for k_ in spans_named])),
                                                  "spans": spans}, label="parse result"))
        parser = st.alloc(HObj("ParserTok", {}, label="parser"))
        it.stubs["ParserTok.parse"] = lambda i, s_, a, k, n: [(s_, "val", result)]
        me = st.alloc(HObj(pm, {"parser": parser, "pattern": "p"}, label="matcher"))
        outs = it.call_function(st, cm, [text], {}, None, self_val=me)
        chk.absorb(it)
        if len(outs) != 1 or outs[0][1] != "val" or not isinstance(outs[0][2], Ref):
            raise AnalysisError("ParseMatcher.check_match not evaluable: %r" % ([(k, v) for _, k, v in outs][:2],))
        s2 = outs[0][0]
        got = [(s2.obj(r).fields["start"], s2.obj(r).fields["end"], s2.obj(r).fields["original"], s2.obj(r).fields["value"], s2.obj(r).fields["name"])
               for r in s2.obj(outs[0][2]).items]
        want = sorted([(b, e, text[b:e], "F%d" % i, None) for i, (b, e) in spans_fixed.items()] +
                      [(b, e, text[b:e], "N:" + k_, k_) for k_, (b, e) in spans_named.items()])
        chk.instance("M4")
        chk.instance("M5")
        if [g[0] for g in got] == [w[0] for w in want]:
            chk.ok("M4", {"ParseMatcher.check_match": title, "argument starts": [g[0] for g in got]}, nontrivial_key=("order", title))
        else:
            _fail(chk, "M4", cm, "%s: starts %s" % (title, [g[0] for g in got]), "ParseMatcher.check_match (%s) returns the arguments with start offsets %s: "
                  "anonymous parameters would be passed in another order than they stand in the step text" % (title, [g[0] for g in got]))
        if sorted(got) == want:
            chk.ok("M5", {"site": "ParseMatcher.check_match", "case": title, "arguments": [list(g) for g in got]}, nontrivial_key=("parse", title))
        else:
            _fail(chk, "M5", cm, "%s: %r" % (title, got), "ParseMatcher.check_match (%s) builds the arguments %r; expected %r (original = step_text[start:end] of "
                  "the argument's own span, value and name of the same field)" % (title, got, want))
    rmc = ix.cls("behave.matchers:RegexMatcher")
    rm = rmc.lookup("check_match")
    from .abscall import ReVal
    for pattern, text in ((r"^a (\d+) b (?P<name>\w+)( opt)?$", "a 12 b xy opt"), (r"^a (\d+) b (?P<name>\w+)( opt)?$", "a 1 b z"),
                          (r"^(?P<x>\w+)-(\w+)$", "left-right")):
        made = []
        it = Interp(ix, stubs={"Argument": lambda i, s_, a, k, n, _m=made: (_m.append(tuple(a) + ((k["name"],) if "name" in k else ())), [(s_, "val", "ARG%d" % len(_m))])[1]},
                    attr_stubs={"RegexMatcher.regex": lambda i, s_, b, n, _p=pattern: [(s_, "val", ReVal(_p))]}, name="RegexMatcher.check_match")
        it.fold_regex = True
        it.int_sat = 1000
        it.list_cap = 100
        st = State()
        st.frames = []
        me = st.alloc(HObj(rmc, {"pattern": pattern}, label="regex matcher"))
        outs = it.call_function(st, rm, [text], {}, None, self_val=me)
        chk.absorb(it)
        chk.instance("M5")
        if len(outs) != 1 or outs[0][1] != "val":
            raise AnalysisError("RegexMatcher.check_match not foldable on %r: %r" % (text, [(k, v) for _, k, v in outs][:2]))
        m_ = _re.match(pattern, text)
        names = {v: k for k, v in m_.re.groupindex.items()}
        want = [(m_.start(i), m_.end(i), g, g, names.get(i)) for i, g in enumerate(m_.groups(), 1)]
        got = [tuple(list(t) + [None] * (5 - len(t))) for t in made]
        if any(isinstance(x, Top) for t in got for x in t):
            raise AnalysisError("RegexMatcher.check_match not foldable on %r: %r" % (text, got))
        if got == want:
            chk.ok("M5", {"site": "RegexMatcher.check_match", "pattern": pattern, "text": text, "arguments": [list(g) for g in got]}, nontrivial_key=("regex", pattern, text))
        else:
            _fail(chk, "M5", rm, "%r on %r: %r" % (pattern, text, got), "RegexMatcher.check_match for %r on %r builds the arguments %r; the groups are %r "
                  "(span, text and name of one and the same group, all groups in order)" % (pattern, text, got, want))
    chk.require_instances("M5", 6)


def check_fulltext(chk, ix):
    chk.rule("M1", WHAT["M1"])
    mod = ix.module("behave.matchers")
    pm = ix.cls("behave.matchers:ParseMatcher")
    cm = pm.lookup("check_match")
    chk.instance("M1")
    calls = [unparse(n.func) for n in ast.walk(cm.node) if isinstance(n, ast.Call) and unparse(n.func).startswith("self.parser.")]
    if calls == ["self.parser.parse"]:
        chk.ok("M1", {"ParseMatcher.check_match": "parser.parse(step_text) - whole text"}, nontrivial_key="parse")
    else:
        _fail(chk, "M1", cm, "parser calls %s" % calls, "ParseMatcher.check_match uses %s: only parser.parse() matches the complete step text" % calls)
    init = pm.methods["__init__"]
    chk.instance("M1")
    cs = [k for m_ in pm.methods.values() for n in ast.walk(m_.node) if isinstance(n, ast.Call) for k in n.keywords if k.arg == "case_sensitive"]
    lc = pm.lookup_const("CASE_SENSITIVE")
    val = None
    if lc is not None:
        try:
            val = ix.fold(lc[1], lc[0].module)
        except Exception:       # noqa
            val = None
    sub_over = [c.name for c in ix.subclasses(pm) if "CASE_SENSITIVE" in c.class_consts and ix.fold(c.class_consts["CASE_SENSITIVE"], c.module) is not True]
    if cs and unparse(cs[0].value) in ("self.CASE_SENSITIVE", "True") and val is True and not sub_over:
        chk.ok("M1", {"case_sensitive": "True for parse/cfparse"}, nontrivial_key="case")
    else:
        _fail(chk, "M1", init, "case_sensitive=%s CASE_SENSITIVE=%r overrides=%s" % ([unparse(k.value) for k in cs], val, sub_over),
              "parse matchers are not built case-sensitively")
    sm = ix.cls("behave.matchers:SimplifiedRegexMatcher").methods["__init__"]
    chk.instance("M1")
    fm = [n.left.value for n in ast.walk(sm.node) if isinstance(n, ast.BinOp) and isinstance(n.op, ast.Mod) and isinstance(n.left, ast.Constant)]
    if "^%s$" in fm:
        chk.ok("M1", {"SimplifiedRegexMatcher": "^pattern$"}, nontrivial_key="anchors")
    else:
        _fail(chk, "M1", sm, "anchors %s" % fm, "the simplified regex matcher does not anchor the pattern at both ends")
    rmc = ix.cls("behave.matchers:RegexMatcher").lookup("check_match")
    chk.instance("M1")
    used = [n.func.attr for n in ast.walk(rmc.node) if isinstance(n, ast.Call) and isinstance(n.func, ast.Attribute) and unparse(n.func.value) == "self.regex"]
    if used == ["match"]:
        chk.ok("M1", {"RegexMatcher.check_match": "regex.match"}, nontrivial_key="re.match")
    else:
        _fail(chk, "M1", rmc, "regex calls %s" % used, "the regex matcher uses %s instead of match()" % used)
    chk.instance("M1")
    flags = [unparse(n) for n in ast.walk(mod.tree) if isinstance(n, ast.Attribute) and n.attr in ("IGNORECASE", "I") and unparse(n.value) == "re"]
    if not flags:
        chk.ok("M1", {"re flags": "no IGNORECASE"}, nontrivial_key="flags")
    else:
        chk.fail(Finding("M1", "behave.matchers", "IGNORECASE used", "a matcher compiles with re.IGNORECASE", file=mod.relpath, line=1))


def check_module_glue(chk, ix):
    chk.rule("M6", WHAT["M6"])
    chk.rule("M7", WHAT["M7"])
    f = ix.func("behave.runner_util:load_step_modules")
    # by evaluation: two step directories, step modules and another file; what is called, in which order
    log = []
    listing = {"/p1": ["b.py", "a.py", "readme.txt"], "/p2": ["c.py"]}

    def rec(tag):
        def stub(it_, st_, a, k, n):
            log.append((tag, a[0] if a and isinstance(a[0], str) else None))
            return [(st_, "val", None)]
        return stub

    def listdir(it_, st_, a, k, n):
        log.append(("listdir", a[0]))
        return [(st_, "val", st_.alloc(HObj("list", kind="list", items=list(listing.get(a[0], [])))))]
    stubs = {"@with": "transparent", "PathManager": lambda it_, st_, a, k, n: [(st_, "val", "path-manager")],
             "setup_step_decorators": rec("decorators"), "behave.step_registry.setup_step_decorators": rec("decorators"),
             "use_current_step_matcher_as_default": rec("capture-default"), "behave.matchers.use_current_step_matcher_as_default": rec("capture-default"),
             "use_default_step_matcher": rec("restore"), "behave.api.step_matchers.use_default_step_matcher": rec("restore"),
             "behave.matchers.use_default_step_matcher": rec("restore"),
             "exec_file": rec("exec"), "behave.runner_util.exec_file": rec("exec"), "os.listdir": listdir,
             "os.path.join": lambda it_, st_, a, k, n: [(st_, "val", "/".join(a) if all(isinstance(x, str) for x in a) else Top("path", False))]}
    it = Interp(ix, stubs=stubs, name="load_step_modules")
    it.int_sat = 100
    it.list_cap = 100
    st = State()
    st.frames = []
    outs = it.call_function(st, f, [st.alloc(HObj("list", kind="list", items=["/p1", "/p2"]))], {}, None)
    chk.absorb(it)
    chk.instance("M6")
    if len(outs) != 1 or outs[0][1] != "val":
        raise AnalysisError("load_step_modules not evaluable: %r" % ([(k, v) for _, k, v in outs][:3],))
    execs = [i for i, e in enumerate(log) if e[0] == "exec"]
    loaded = [log[i][1] for i in execs]
    if loaded != ["/p1/a.py", "/p1/b.py", "/p2/c.py"]:
        raise AnalysisError("load_step_modules: unexpected modules executed: %r" % (loaded,))
    problems = []
    for a, b in zip(execs, execs[1:] + [len(log)]):
        if not any(e[0] == "restore" for e in log[a + 1:b]):
            problems.append("no use_default_step_matcher() after %s%s" % (log[a][1], " (the last module: the next load or the hooks inherit its matcher)"
                                                                           if b == len(log) else " and before the next module"))
    if not any(e[0] == "capture-default" for e in log[:execs[0]]):
        problems.append("the matcher chosen in environment.py is not taken as default before the first module is loaded")
    if not problems:
        chk.ok("M6", {"calls": ["%s %s" % (t, a or "") for t, a in log if t in ("exec", "restore", "capture-default")]}, nontrivial_key="restore")
    else:
        _fail(chk, "M6", f, problems[0], "the default step matcher is not restored after each step module (%s): a "
              "use_step_matcher() in one module changes how the next module's patterns are read" % "; ".join(problems))
    g = ix.func("behave.step_registry:setup_step_decorators")
    chk.instance("M7")
    types = None
    for n in ast.walk(g.node):
        if isinstance(n, ast.For) and isinstance(n.iter, ast.Tuple):
            types = [e.value for e in n.iter.elts if isinstance(e, ast.Constant)]
            body = unparse(n)
    if types and set(types) == {"given", "when", "then", "step"} and ".title()" in body and "run_context[step_type]" in body:
        chk.ok("M7", {"decorators": sorted(types), "spellings": ["lower", "Title"]}, nontrivial_key="decorators")
    else:
        _fail(chk, "M7", g, "decorator types %s" % types, "step decorators are not set up for given/when/then/step in both spellings")


def check_type_registry_sharing(chk, ix):
    """M9 (sibling agreement): every parse-family matcher reads the one type registry that register_type writes."""
    chk.rule("M9", WHAT["M9"])
    pm = ix.cls("behave.matchers:ParseMatcher")
    home = pm.lookup_const("TYPE_REGISTRY")
    if home is None:
        raise AnalysisError("anchor missing: ParseMatcher.TYPE_REGISTRY")
    fam = [c for m in ix.modules.values() for c in m.classes.values() if pm in c.mro()]
    for c in sorted(fam, key=lambda c_: c_.fullname):
        chk.instance("M9")
        lc = c.lookup_const("TYPE_REGISTRY")
        if lc is not None and lc[0] is home[0]:
            chk.ok("M9", {"matcher": c.name, "TYPE_REGISTRY": "the one defined in %s" % home[0].name}, nontrivial_key=c.fullname)
        else:
            chk.fail(Finding("M9", c.fullname, "%s has its own TYPE_REGISTRY" % c.name,
                             "%s defines its own TYPE_REGISTRY: types registered with register_type() while another parse-family matcher "
                             "is current are unknown to it (and the other way round), so '{x:MyType}' patterns stop compiling after "
                             "use_step_matcher()" % c.name, file=c.module.relpath, line=c.node.lineno))
    # register_type writes cls.TYPE_REGISTRY, the attribute __init__ reads as default
    init = pm.methods["__init__"]
    reg = ix.cls("behave.matchers:Matcher").lookup("register_type")
    chk.instance("M9")
    reads = any(isinstance(n, ast.Attribute) and n.attr == "TYPE_REGISTRY" for n in ast.walk(init.node))
    writes = any(isinstance(n, ast.Call) and isinstance(n.func, ast.Attribute) and n.func.attr == "register_type" and
                 isinstance(n.func.value, ast.Attribute) and n.func.value.attr == "TYPE_REGISTRY" for n in ast.walk(reg.node))
    if reads and writes:
        chk.ok("M9", {"register_type": "cls.TYPE_REGISTRY.register_type(...)", "ParseMatcher.__init__": "defaults custom_types to self.TYPE_REGISTRY"}, nontrivial_key="wiring")
    else:
        _fail(chk, "M9", reg, "register_type / __init__ wiring", "register_type does not write the TYPE_REGISTRY that ParseMatcher.__init__ uses as default")


def check_parser_ownership(chk, ix):
    chk.rule("M8", WHAT["M8"])
    pm = ix.cls("behave.matchers:ParseMatcher")
    init = pm.methods["__init__"]
    built = []

    def parser_class(it, st, args, kw, node):
        ref = st.alloc(HObj("ParserTok", {"pattern": args[0] if args else kw.get("pattern"), "extra_types": kw.get("extra_types", args[1] if len(args) > 1 else None)},
                            label="parser"))
        built.append(ref)
        return [(st, "val", ref)]
    stubs = {"Matcher.__init__": lambda it, s, a, k, n: [(s, "val", None)]}
    it = Interp(ix, stubs=stubs, name="ParseMatcher.__init__")
    st = State()
    st.frames = []
    # class-level attributes are shared between the two instances: model them as one shared object
    it.attr_stubs["ParseMatcher.PARSER_CLASS"] = lambda i, s, b, n: [(s, "val", parser_class)]
    cache = st.alloc(HObj("dict", kind="dict", items=[], label="class-level cache"))
    for cname in [k for k in pm.class_consts if "CACHE" in k.upper()]:
        it.attr_stubs["ParseMatcher." + cname] = lambda i, s, b, n, _c=cache: [(s, "val", _c)]
    t1 = st.alloc(HObj("TypesTok", {}, label="types#1"))
    t2 = st.alloc(HObj("TypesTok", {}, label="types#2"))
    m1 = st.alloc(HObj(pm, {}, label="matcher#1"))
    m2 = st.alloc(HObj(pm, {}, label="matcher#2"))
    cur = st
    for m, t in ((m1, t1), (m2, t2)):
        outs = it.call_function(cur, init, [Top("func", True), "same {x:Number} pattern"], {"custom_types": t}, None, self_val=m)
        if len(outs) != 1 or outs[0][1] != "val":
            raise AnalysisError("ParseMatcher.__init__ not evaluable: %r" % ([(k, v) for _, k, v in outs][:2],))
        cur = outs[0][0]
    chk.absorb(it)
    chk.instance("M8")
    p1, p2 = cur.obj(m1).fields.get("parser"), cur.obj(m2).fields.get("parser")
    ok = isinstance(p1, Ref) and isinstance(p2, Ref) and p1.oid != p2.oid and cur.obj(p1).fields["extra_types"] == t1 and cur.obj(p2).fields["extra_types"] == t2
    if ok:
        chk.ok("M8", {"two matchers, same pattern text, different custom types": "two parsers, each with its own types"}, nontrivial_key="own parser")
    else:
        _fail(chk, "M8", init, "parsers %r / %r" % (p1, p2),
              "two parse matchers with the same pattern text but different custom type registries do not get separate parsers built "
              "from their own types: the second one converts parameters with the first one's converters")


def check_matcher_factory(chk, ix):
    """M6 (sequences): StepMatcherFactory as a two-register machine (default, current): use_step_matcher(n) sets current;
    use_current_step_matcher_as_default() copies current to default; use_default_step_matcher() copies default to current;
    use_default_step_matcher(n) sets both.  Every call sequence up to length 4 over these operations is evaluated."""
    import itertools as _it
    chk.rule("M6", WHAT["M6"])
    fc = ix.cls("behave.matchers:StepMatcherFactory")
    ops = [("use_step_matcher", "re"), ("use_step_matcher", "cfparse"), ("use_current_step_matcher_as_default", None),
           ("use_default_step_matcher", None), ("use_default_step_matcher", "cfparse"), ("reset", None)]
    classes = {"parse": "PARSE-CLASS", "cfparse": "CFPARSE-CLASS", "re": "RE-CLASS"}
    # reset() (a new run in the same process) puts both registers back to the initial matcher
    it = Interp(ix, stubs={"StepMatcherFactory.clear_registered_types": lambda it_, s_, a, k, n: [(s_, "val", None)]}, name="StepMatcherFactory")
    it.int_sat = 100
    it.list_cap = 100
    n = 0
    for length in (1, 2, 3, 4):
        for seq in _it.product(ops, repeat=length):
            if length == 4 and n % 3:
                n += 1
                continue
            n += 1
            st = State()
            st.frames = []
            mapping = st.alloc(HObj("dict", kind="dict", items=list(classes.items()), label="step_matcher_class_mapping"))
            me = st.alloc(HObj(fc, {"step_matcher_class_mapping": mapping, "initial_matcher_name": "parse", "default_matcher_name": "parse",
                                    "default_matcher": classes["parse"], "_current_matcher": classes["parse"]}, label="factory"))
            default, current = classes["parse"], classes["parse"]
            cur = st
            ok = True
            for (op, arg) in seq:
                f = fc.lookup(op)
                if f is None:
                    raise AnalysisError("anchor missing: StepMatcherFactory.%s" % op)
                outs = it.call_function(cur, f, [arg] if arg else [], {}, None, self_val=me)
                if len(outs) != 1 or outs[0][1] != "val":
                    raise AnalysisError("StepMatcherFactory.%s not evaluable: %r" % (op, [(k, v) for _, k, v in outs][:2]))
                cur = outs[0][0]
                if op == "reset":
                    default = current = classes["parse"]
                elif op == "use_step_matcher":
                    current = classes[arg]
                elif op == "use_current_step_matcher_as_default":
                    default = current
                elif arg:
                    default = current = classes[arg]
                else:
                    current = default
            got = cur.obj(me).fields.get("_current_matcher")
            chk.instance("M6")
            if got == current:
                chk.ok("M6", {"calls": ["%s(%s)" % (o, a or "") for o, a in seq], "current matcher": got}, nontrivial_key=seq)
            else:
                _fail(chk, "M6", fc.lookup(seq[-1][0]), "%s -> %s" % (" ; ".join("%s(%s)" % (o, a or "") for o, a in seq), got),
                      "after %s the current step matcher is %s, expected %s: a matcher chosen as the project's default (environment.py) is lost "
                      "for the following step modules" % (" ; ".join("%s(%s)" % (o, a or "") for o, a in seq), got, current), cur.path)
    chk.absorb(it)


def check_lookup_sequences(chk, ix):
    """M2 (sequences): a registry built by its own __init__, definitions appended to its lists, then two or three lookups
    in a row for steps of different types with the SAME text: each is bound by its own type's definition (or the generic
    one), never by what an earlier lookup found."""
    chk.rule("M2", WHAT["M2"])
    rc = ix.cls("behave.step_registry:StepRegistry")
    init = rc.lookup("__init__")
    for meth in ("find_match", "find_step_definition"):
        f = rc.lookup(meth)
        for seq in (("given", "then"), ("then", "given"), ("given", "when"), ("when", "given", "then"), ("given", "given", "then")):
            for with_generic in (False, True, "after clear()"):
                cleared = with_generic == "after clear()"
                if cleared:
                    if len(seq) != 2 or rc.lookup("clear") is None:
                        continue
                    with_generic = False
                stubs = {"DefTok.match": lambda it_, s_, a, k, n: [(s_, "val", ("match-of", s_.obj(a[0]).fields["name"]))],
                         "BadStepDefinitionErrorHandler": lambda it_, s_, a, k, n: [(s_, "val", s_.alloc(HObj("HandlerTok", {}, open=True)))]}
                it = Interp(ix, stubs=stubs, name="StepRegistry lookups in a row")
                it.int_sat = 100
                it.list_cap = 100
                st = State()
                st.frames = []
                reg = st.alloc(HObj(rc, {}, label="registry"))
                outs = it.call_function(st, init, [], {}, None, self_val=reg)
                if len(outs) != 1 or outs[0][1] != "val":
                    raise AnalysisError("StepRegistry.__init__ not evaluable: %r" % ([(k, v) for _, k, v in outs][:2],))
                cur = outs[0][0]
                if cleared:
                    # a registry that was used and cleared (behave does so between runs) is as good as a new one
                    outs = it.call_function(cur, rc.lookup("clear"), [], {}, None, self_val=reg)
                    if len(outs) != 1 or outs[0][1] != "val":
                        raise AnalysisError("StepRegistry.clear not evaluable: %r" % ([(k, v) for _, k, v in outs][:2],))
                    cur = outs[0][0]
                steps = cur.obj(reg).fields.get("steps")
                if not isinstance(steps, Ref) or cur.obj(steps).items is None:
                    raise AnalysisError("StepRegistry.steps is not a concrete dict after __init__")
                lists = dict(cur.obj(steps).items)
                for t in ("given", "then") + (("step",) if with_generic else ()):
                    d = cur.alloc(HObj("DefTok", {"name": "%s-definition" % t}, label="%s-definition" % t))
                    cur.wobj(lists[t]).items = list(cur.obj(lists[t]).items) + [d]
                got = []
                for stype in seq:
                    step = cur.alloc(HObj("StepTok", {"step_type": stype, "name": "the value is 5"}, label="%s step" % stype))
                    o2 = it.call_function(cur, f, [step], {}, None, self_val=reg)
                    if len(o2) != 1 or o2[0][1] != "val":
                        raise AnalysisError("%s not evaluable in a sequence: %r" % (meth, [(k, v) for _, k, v in o2][:2]))
                    cur = o2[0][0]
                    v = o2[0][2]
                    got.append(v[1] if isinstance(v, tuple) else (cur.obj(v).fields["name"] if isinstance(v, Ref) else None))
                chk.absorb(it)
                chk.instance("M2")
                want = [("%s-definition" % t) if t in ("given", "then") else ("step-definition" if with_generic else None) for t in seq]
                if got == want:
                    chk.ok("M2", {"lookup": meth, "step types in a row": list(seq), "generic definition": with_generic, "after clear()": cleared, "bound to": got},
                           nontrivial_key=(meth, seq, with_generic, cleared))
                else:
                    _fail(chk, "M2", f, "%s %s generic=%s%s -> %s" % (meth, "/".join(seq), with_generic, " after clear()" if cleared else "", got),
                          "%s for the steps %s (same text) one after the other%s binds %s, expected %s: a step must be bound by a definition of its "
                          "own type (or a generic one), whatever an earlier lookup with the same text found" % (
                              meth, list(seq), " in a registry that was cleared before the definitions were added" if cleared else "", got, want), cur.path)



def check_unwrap_function(chk, ix):
    """M10: unwrap_function evaluated on chains of wrappers (each wrapper carries __wrapped__, as functools.wraps leaves it):
    the innermost function comes out, for 0, 1, 2 and 3 layers."""
    chk.rule("M10", WHAT["M10"])
    f = ix.func("behave.model_core:unwrap_function")
    if f is None:
        raise AnalysisError("anchor missing: behave.model_core:unwrap_function")
    for layers in (0, 1, 2, 3):
        it = Interp(ix, name="unwrap_function")
        it.int_sat = 100
        st = State()
        st.frames = []
        inner = st.alloc(HObj("FuncTok", {"__name__": "step_impl"}, label="the step function"))
        cur = inner
        for i in range(layers):
            cur = st.alloc(HObj("FuncTok", {"__name__": "wrapper%d" % (i + 1), "__wrapped__": cur}, label="wrapper %d" % (i + 1)))
        outs = it.call_function(st, f, [cur], {}, None)
        chk.absorb(it)
        chk.instance("M10")
        if len(outs) != 1 or outs[0][1] != "val":
            raise AnalysisError("unwrap_function not evaluable on %d layers: %r" % (layers, [(k, v) for _, k, v in outs][:3]))
        got = outs[0][2]
        if isinstance(got, Ref) and got.oid == inner.oid:
            chk.ok("M10", {"layers of functools.wraps": layers, "unwrapped to": "the step function"}, nontrivial_key=layers)
        else:
            _fail(chk, "M10", f, "%d layers -> %s" % (layers, outs[0][0].obj(got).label if isinstance(got, Ref) else repr(got)),
                  "unwrap_function on a step function behind %d functools.wraps layer(s) returns %s: two different step functions decorated by the "
                  "same decorators then share one location - a second definition with the same pattern is taken for a reload of the first "
                  "instead of raising AmbiguousStep" % (layers, outs[0][0].obj(got).label if isinstance(got, Ref) else repr(got)))



def check_same_step_definition(chk, ix):
    """M3 (what 'the same definition again' means): same pattern text AND same source location (a module loaded twice) -
    a definition whose pattern merely MATCHES the new pattern text is a different definition (stacked decorators with a
    general and a special pattern on one function are ambiguous, not a reload)."""
    chk.rule("M3", WHAT["M3"])
    rc = ix.cls("behave.step_registry:StepRegistry")
    f = rc.lookup("same_step_definition")
    if f is None:
        raise AnalysisError("anchor missing: StepRegistry.same_step_definition")
    cases = [("a {thing}", "a {thing}", "same", True), ("a {thing}", "a special thing", "same", False), ("a {thing}", "a {thing}", "other", False),
             ("a {thing}", "a {thing}", "<string>", False)]
    for own, new_text, where, want in cases:
        st = State()
        st.frames = []
        flc = ix.cls("behave.model_core:FileLocation")
        loc = st.alloc(HObj(flc, {"filename": "<string>" if where == "<string>" else "steps/a.py", "line": 10}, label="location"))
        # an equal location object (a reloaded module creates new objects) or another line of the file
        loc2 = st.alloc(HObj(flc, {"filename": "<string>" if where == "<string>" else "steps/a.py", "line": 10 if where in ("same", "<string>") else 20},
                             label="location of the new definition"))
        step = st.alloc(HObj("DefTok", {"pattern": own, "location": loc}, label="existing definition"))
        it = Interp(ix, stubs={"DefTok.matches": lambda i, s_, a, k, n: [(s_, "val", True)],      # the existing pattern does match the new text
                               "DefTok.match": lambda i, s_, a, k, n: [(s_, "val", "MATCH")]}, name="same_step_definition")
        it.int_sat = 100
        outs = it.call_function(st, f, [step, new_text, loc2], {}, None)
        chk.absorb(it)
        chk.instance("M3")
        vals = set()
        for (s_, k, v) in outs:
            if k != "val":
                raise AnalysisError("same_step_definition raises: %r" % (v,))
            for (_s, b) in it.truth(s_.fork(), v):
                vals.add(b)
        if vals == {want}:
            chk.ok("M3", {"existing pattern": own, "new pattern text": new_text, "location": where, "same definition": want}, nontrivial_key=("same", own, new_text, where))
        else:
            _fail(chk, "M3", f, "%r vs %r at %s location -> %s" % (own, new_text, where, sorted(vals)),
                  "an existing definition with pattern %r and a new one with pattern text %r at %s source location are taken for %s; expected %s "
                  "(only the identical pattern text from the identical location is a re-registration to be ignored - anything else that matches "
                  "must raise AmbiguousStep)" % (own, new_text, "the same" if where in ("same", "<string>") else "another",
                                                "the same definition" if True in vals else "different definitions",
                                                "the same definition" if want else "different definitions"))



def check_type_pattern_groups(chk, ix):
    """M11: for every converter decorated with parse.with_pattern(PATTERN[, regex_group_count=N]) in behave.parameter_type:
    the number of capturing groups of PATTERN (counted by the stdlib's re) equals N (0 when N is not given)."""
    import re as _re
    chk.rule("M11", WHAT["M11"])
    mod = ix.module("behave.parameter_type")
    n = 0
    for fn in ast.walk(mod.tree):
        if not isinstance(fn, ast.FunctionDef):
            continue
        for d in fn.decorator_list:
            if not (isinstance(d, ast.Call) and unparse(d.func).split(".")[-1] == "with_pattern" and d.args):
                continue
            try:
                pat = ix.fold(d.args[0], mod)
            except NotConst:
                raise AnalysisError("M11: the pattern of %s is not a constant" % fn.name)
            declared = 0
            extra = (d.args[1:2] or [k.value for k in d.keywords if k.arg == "regex_group_count"])
            if extra:
                try:
                    declared = ix.fold(extra[0], mod) or 0
                except NotConst:
                    raise AnalysisError("M11: regex_group_count of %s is not a constant" % fn.name)
            try:
                groups = _re.compile(pat).groups
            except _re.error as e:
                groups = None
                err = str(e)
            n += 1
            chk.instance("M11")
            if groups is None:
                _fail(chk, "M11", ix.func("behave.parameter_type:" + fn.name), "%s: invalid pattern" % fn.name,
                      "the pattern %r of the type converter %s is not a valid regular expression (%s)" % (pat, fn.name, err))
            elif groups == declared:
                chk.ok("M11", {"converter": fn.name, "pattern": pat, "capturing groups": groups, "declared": declared}, nontrivial_key=fn.name)
            else:
                _fail(chk, "M11", ix.func("behave.parameter_type:" + fn.name), "%s: %d groups, %d declared" % (fn.name, groups, declared),
                      "the pattern %r of the type converter %s has %d capturing group(s) but declares regex_group_count=%d: in a step pattern where "
                      "another field follows this one, parse assigns the groups to the wrong fields (the step function gets the inner group's text)"
                      % (pat, fn.name, groups, declared))
    if n < 3:
        raise AnalysisError("M11: only %d converters with a pattern found in behave.parameter_type" % n)


WHAT["M12"] = ("every match object the step runner hands to the formatters (a Match, a NoMatch, a MatchWithError after a failed type "
               "conversion) carries its arguments as a sequence (a list, possibly empty - never None): the formatters iterate match.arguments")


def check_match_objects_have_arguments(chk, ix):
    """M12: Matcher.match evaluated with check_match answering 'two arguments', 'no arguments' and 'the type converter raised', and
    NoMatch() built by its constructor: the resulting object's `arguments` is a list in every case."""
    chk.rule("M12", WHAT["M12"])
    mc = ix.cls("behave.matchers:Matcher")
    mm = mc.lookup("match")
    if mm is None:
        raise AnalysisError("anchor missing: Matcher.match")
    cases = [("a match with two arguments", "args2"), ("a match without arguments", "args0"), ("the type converter raised ValueError", "raise"),
             ("the type converter raised KeyError", "raise-key")]
    for label, mode in cases:
        def check_match(it_, st_, a, k, n, _m=mode):
            if _m == "raise":
                return it_.raise_exc(st_, "ValueError", n, "converter", "bad value")
            if _m == "raise-key":
                return it_.raise_exc(st_, "KeyError", n, "converter", "bad key")
            items = [st_.alloc(HObj("ArgumentTok", {}, open=True, label="argument %d" % i)) for i in range(2 if _m == "args2" else 0)]
            return [(st_, "val", st_.alloc(HObj("list", kind="list", items=items)))]
        stubs = {"MatcherTok.check_match": check_match, "Matcher.check_match": check_match,
                 "ExceptionUtil.has_traceback": lambda it_, st_, a, k, n: [(st_, "val", True)],
                 "ExceptionUtil.set_traceback": lambda it_, st_, a, k, n: [(st_, "val", None)],
                 "Match.make_location": lambda it_, st_, a, k, n: [(st_, "val", "steps/s.py:1")]}
        it = Interp(ix, stubs=stubs, name="Matcher.match")
        it.list_cap = 100
        st = State()
        st.frames = []
        func = st.alloc(HObj("function", {"__name__": "step_impl"}, kind="closure", label="step function"))
        me = st.alloc(HObj(mc, {"func": func, "pattern": "x", "step_type": "given"}, label="matcher"))
        outs = it.call_function(st, mm, ["some text"], {}, None, self_val=me)
        chk.absorb(it)
        chk.instance("M12")
        if len(outs) != 1 or outs[0][1] != "val" or not isinstance(outs[0][2], Ref):
            raise AnalysisError("Matcher.match not evaluable (%s): %r" % (label, [(k, v) for _, k, v in outs][:3]))
        s2, _, m = outs[0]
        args = s2.obj(m).fields.get("arguments", KeyError)
        if (isinstance(args, Ref) and s2.obj(args).kind == "list") or isinstance(args, tuple):
            chk.ok("M12", {"case": label, "match object": s2.obj(m).clsname(), "arguments": "a sequence"}, nontrivial_key=label)
        else:
            _fail(chk, "M12", mm, "%s -> %s.arguments = %r" % (label, s2.obj(m).clsname(), None if args is KeyError else args),
                  "%s: Matcher.match returns a %s whose arguments are %r, not a list: JSONFormatter.match and PrettyFormatter.match iterate "
                  "match.arguments and abort the whole run with a TypeError" % (label, s2.obj(m).clsname(), None if args is KeyError else args))
    nm = ix.cls("behave.matchers:NoMatch")
    it = Interp(ix, name="NoMatch()")
    st = State()
    st.frames = []
    from .abscall import construct as _construct
    outs = _construct(it, st, ClassVal(nm), [], {}, None)
    chk.absorb(it)
    chk.instance("M12")
    if len(outs) != 1 or outs[0][1] != "val":
        raise AnalysisError("NoMatch() not evaluable: %r" % ([(k, v) for _, k, v in outs][:3],))
    s2, _, m = outs[0]
    args = s2.obj(m).fields.get("arguments", KeyError)
    if (isinstance(args, Ref) and s2.obj(args).kind == "list") or isinstance(args, tuple):
        chk.ok("M12", {"case": "undefined step", "match object": "NoMatch", "arguments": "a sequence"}, nontrivial_key="NoMatch")
    else:
        _fail(chk, "M12", nm.lookup("__init__"), "NoMatch().arguments = %r" % (None if args is KeyError else args,),
              "NoMatch() carries arguments %r, not a list" % (None if args is KeyError else args,))
    chk.require_instances("M12", 5)


WHAT["M13"] = ("every matcher's check_match tells 'no match' (None) from 'matched without parameters' (an empty list): a step "
               "definition without parameters is found")


def check_cucumber_check_match(chk, ix):
    """M13: StepMatcher4CucumberExpressions.check_match evaluated with the expression answering None / [] / one argument."""
    chk.rule("M13", WHAT["M13"])
    try:
        mc = ix.cls("behave.cucumber_expression:StepMatcher4CucumberExpressions")
    except AnalysisError:
        raise AnalysisError("anchor missing: behave.cucumber_expression:StepMatcher4CucumberExpressions")
    f = mc.lookup("check_match")
    if f is None:
        raise AnalysisError("anchor missing: StepMatcher4CucumberExpressions.check_match")
    for label, answer in (("no match", None), ("matched, no parameters", 0), ("matched, one parameter", 1)):
        def expr_match(it_, st_, a, k, n, _ans=answer):
            if _ans is None:
                return [(st_, "val", None)]
            items = []
            for i in range(_ans):
                grp = st_.alloc(HObj("GroupTok", {"start": 2, "end": 4, "value": "42"}, label="group"))
                items.append(st_.alloc(HObj("ArgTok", {"group": grp, "value": 42}, label="matched argument")))
            return [(st_, "val", st_.alloc(HObj("list", kind="list", items=items)))]
        made = []

        def argument(it_, st_, a, k, n):
            made.append(dict(k))
            return [(st_, "val", st_.alloc(HObj("ArgumentTok", dict(k), label="Argument")))]
        it = Interp(ix, stubs={"ExprTok.match": expr_match, "Argument": argument, "behave.model_core.Argument": argument}, name="cucumber check_match")
        it.int_sat = 100
        st = State()
        st.frames = []
        expr = st.alloc(HObj("ExprTok", {}, label="cucumber expression"))
        me = st.alloc(HObj(mc, {"cucumber_expression": expr, "pattern": "I eat them all", "func": Top("func", True)}, label="matcher"))
        outs = it.call_function(st, f, ["I eat them all"], {}, None, self_val=me)
        chk.absorb(it)
        chk.instance("M13")
        if len(outs) != 1 or outs[0][1] != "val":
            raise AnalysisError("check_match not evaluable (%s): %r" % (label, [(k, v) for _, k, v in outs][:2]))
        s2, _, v = outs[0]
        if answer is None:
            got, want = v, None
        else:
            got = len(s2.obj(v).items) if isinstance(v, Ref) and s2.obj(v).kind == "list" and s2.obj(v).items is not None else repr(v)
            want = answer
        if got == want:
            chk.ok("M13", {"expression.match": label, "check_match": "None" if want is None else "a list of %d argument(s)" % want}, nontrivial_key=label)
        else:
            _fail(chk, "M13", f, "%s -> %r" % (label, got), "the cucumber expression answers '%s', check_match returns %r (expected %s): a step "
                  "definition without parameters never matches" % (label, got, "None" if want is None else "a list of %d" % want))
    chk.require_instances("M13", 3)
