# -*- coding: utf-8 -*-
"""Exponential ambiguity of a regular expression, decided on its position (Glushkov) automaton.

A backtracking matcher (Python's re) needs time exponential in the input length on some non-matching input exactly
when the expression is exponentially ambiguous: some state q and some word w with two different paths q -w-> q
(EDA; Weber/Seidl 1991, Allauzen/Mohri/Rastogi 2008; for backtracking matchers: Weideman et al. 2016).  On the
epsilon-free position automaton this is a reachability question in the product automaton A x A: EDA holds iff a strongly
connected component of A x A contains a diagonal pair (q, q) and a pair (p, p') with p != p'.

The expression is parsed with the stdlib's own parser (re._parser).  Character sets are evaluated over a finite
alphabet of representatives (every literal of the pattern, one member of every category used, one character outside
all of them), which is exact for the question asked.  Look-around, back-references and conditional groups are not
modelled: `analyse` returns None for such patterns (no verdict)."""
from __future__ import annotations

import re
try:
    from re import _parser as sre_parse, _constants as C
except ImportError:      # python < 3.11
    import sre_parse
    import sre_constants as C


class Unsupported(Exception):
    pass


def _alphabet(tree):
    chars = set()
    cats = set()

    def walk(items):
        for op, av in items:
            if op in (C.LITERAL, C.NOT_LITERAL):
                chars.add(chr(av))
            elif op is C.IN:
                for o2, a2 in av:
                    if o2 is C.LITERAL:
                        chars.add(chr(a2))
                    elif o2 is C.RANGE:
                        lo, hi = a2
                        chars.update({chr(lo), chr(hi)})
                        if hi - lo > 1:
                            chars.add(chr(lo + 1))
                        if lo > 0:
                            chars.add(chr(lo - 1))
                        chars.add(chr(min(hi + 1, 0x10FFFF)))
                    elif o2 is C.CATEGORY:
                        cats.add(a2)
            elif op is C.CATEGORY:
                cats.add(av)
            elif op is C.BRANCH:
                for alt in av[1]:
                    walk(alt)
            elif op is C.SUBPATTERN:
                walk(av[3])
            elif op in (C.MAX_REPEAT, C.MIN_REPEAT, getattr(C, "POSSESSIVE_REPEAT", None)):
                walk(av[2])
            elif op is getattr(C, "ATOMIC_GROUP", None):
                walk(av)
    walk(tree)
    chars.update(" \t\n0aA_-.é中")     # members / non-members of \s \d \w, ASCII and not
    other = next(chr(c) for c in range(0x21, 0x2000) if chr(c) not in chars)
    chars.add(other)
    return sorted(chars)


_CAT = {
    C.CATEGORY_DIGIT: lambda ch: ch.isdigit(), C.CATEGORY_NOT_DIGIT: lambda ch: not ch.isdigit(),
    C.CATEGORY_SPACE: lambda ch: ch.isspace(), C.CATEGORY_NOT_SPACE: lambda ch: not ch.isspace(),
    C.CATEGORY_WORD: lambda ch: ch.isalnum() or ch == "_", C.CATEGORY_NOT_WORD: lambda ch: not (ch.isalnum() or ch == "_"),
}


def _matches(op, av, ch, flags):
    if flags & re.IGNORECASE:
        ch = ch.lower()
    if op is C.LITERAL:
        lit = chr(av)
        return ch == (lit.lower() if flags & re.IGNORECASE else lit)
    if op is C.NOT_LITERAL:
        return ch != chr(av)
    if op is C.ANY:
        return ch != "\n" or bool(flags & re.DOTALL)
    if op is C.CATEGORY:
        return _CAT[av](ch)
    if op is C.IN:
        neg = False
        hit = False
        for o2, a2 in av:
            if o2 is C.NEGATE:
                neg = True
            elif o2 is C.LITERAL:
                hit = hit or ch == chr(a2) or (flags & re.IGNORECASE and ch == chr(a2).lower())
            elif o2 is C.RANGE:
                hit = hit or a2[0] <= ord(ch) <= a2[1]
            elif o2 is C.CATEGORY:
                hit = hit or _CAT[a2](ch)
            else:
                raise Unsupported("set member %s" % o2)
        return hit != neg
    raise Unsupported("atom %s" % op)


class _G(object):
    """first / last / follow / nullable of a sub-expression over positions"""
    def __init__(self):
        self.pos = []       # position -> (op, av)
        self.follow = {}    # position -> set of (next position, tag of the construct that makes it a successor)
        self.tags = 0

    def link(self, sources, targets):
        """every position in `sources` may be followed by every position in `targets` - through ONE construct (a
        concatenation point or the back edge of one loop): the same pair linked by two constructs is two different paths"""
        self.tags += 1
        for p in sources:
            for q in targets:
                self.follow[p].add((q, self.tags))


def _build(g, items):
    """-> (nullable, first, last) of a sequence of items"""
    nullable, first, last = True, set(), set()
    for op, av in items:
        n2, f2, l2 = _one(g, op, av)
        g.link(last, f2)
        if nullable:
            first |= f2
        last = (last | l2) if n2 else set(l2)
        nullable = nullable and n2
    return nullable, first, last


def _one(g, op, av):
    if op in (C.LITERAL, C.NOT_LITERAL, C.ANY, C.IN, C.CATEGORY):
        p = len(g.pos)
        g.pos.append((op, av))
        g.follow[p] = set()
        return False, {p}, {p}
    if op is C.AT:
        return True, set(), set()       # anchors consume nothing
    if op is C.SUBPATTERN:
        return _build(g, av[3])
    if op is getattr(C, "ATOMIC_GROUP", None):
        return _build(g, av)
    if op is C.BRANCH:
        nullable, first, last = False, set(), set()
        for alt in av[1]:
            n2, f2, l2 = _build(g, alt)
            nullable, first, last = nullable or n2, first | f2, last | l2
        return nullable, first, last
    if op in (C.MAX_REPEAT, C.MIN_REPEAT, getattr(C, "POSSESSIVE_REPEAT", None)):
        lo, hi, body = av
        unbounded = hi is C.MAXREPEAT or hi == C.MAXREPEAT
        copies = lo if unbounded else hi
        if copies > 8:
            copies = 8 if unbounded else copies
            if not unbounded and hi > 32:
                raise Unsupported("counted repeat {%s,%s}" % (lo, hi))
        nullable, first, last = True, set(), set()
        n_copies = max(copies, 1)
        for i in range(n_copies):
            n2, f2, l2 = _build(g, body)
            g.link(last, f2)
            optional = i >= lo          # copies beyond the minimum may be skipped
            if nullable:
                first |= f2
            last = (last | l2) if (n2 or optional) else set(l2)
            if optional and i > 0:
                pass
            nullable = nullable and (n2 or optional)
            if i == n_copies - 1 and unbounded:
                g.link(l2, f2)              # the star: the last copy loops
        if lo == 0:
            nullable = True
        return nullable, first, last
    if op in (C.ASSERT, C.ASSERT_NOT, C.GROUPREF, C.GROUPREF_EXISTS):
        raise Unsupported("%s" % op)
    raise Unsupported("node %s" % op)


def analyse(pattern, flags=0):
    """-> None (not modelled) | dict(eda=bool, witness=...)"""
    try:
        tree = sre_parse.parse(pattern, flags)
        pflags = tree.state.flags if hasattr(tree, "state") else flags
        g = _G()
        nullable, first, last = _build(g, list(tree))
        sigma = _alphabet(list(tree))
        n = len(g.pos)
        if n > 400:
            raise Unsupported("%d positions" % n)
        accept = [[_matches(g.pos[p][0], g.pos[p][1], ch, pflags) for ch in sigma] for p in range(n)]
    except Unsupported:
        return None
    # product automaton over pairs of positions
    succ = {}

    double = set()      # (p, q): q follows p through two different constructs

    def pair_succ(a, b):
        out = set()
        for (qa, ta) in g.follow[a]:
            for (qb, tb) in g.follow[b]:
                if any(accept[qa][i] and accept[qb][i] for i in range(len(sigma))):
                    out.add((qa, qb))
                    if a == b and qa == qb and ta != tb:
                        double.add((a, qa))
        return out
    # only pairs reachable from a diagonal pair matter
    work = [(p, p) for p in range(n)]
    seen = set(work)
    while work:
        a, b = work.pop()
        s = pair_succ(a, b)
        succ[(a, b)] = s
        for x in s:
            if x not in seen:
                seen.add(x)
                work.append(x)
    # Tarjan SCC (iterative)
    index, low, onstack, stack, comps = {}, {}, set(), [], []
    counter = [0]
    for root in list(succ):
        if root in index:
            continue
        it = [(root, iter(succ[root]))]
        index[root] = low[root] = counter[0]
        counter[0] += 1
        stack.append(root)
        onstack.add(root)
        while it:
            v, children = it[-1]
            advanced = False
            for w in children:
                if w not in index:
                    index[w] = low[w] = counter[0]
                    counter[0] += 1
                    stack.append(w)
                    onstack.add(w)
                    it.append((w, iter(succ.get(w, ()))))
                    advanced = True
                    break
                elif w in onstack:
                    low[v] = min(low[v], index[w])
            if advanced:
                continue
            it.pop()
            if it:
                low[it[-1][0]] = min(low[it[-1][0]], low[v])
            if low[v] == index[v]:
                comp = []
                while True:
                    w = stack.pop()
                    onstack.discard(w)
                    comp.append(w)
                    if w == v:
                        break
                comps.append(comp)
    for comp in comps:
        cyc = len(comp) > 1 or comp[0] in succ.get(comp[0], ())
        if not cyc:
            continue
        diag = [x for x in comp if x[0] == x[1]]
        off = [x for x in comp if x[0] != x[1]]
        if diag and off:
            q = diag[0][0]
            a, b = off[0]
            return {"eda": True, "state": _show(g.pos[q]), "diverges_into": (_show(g.pos[a]), _show(g.pos[b]))}
        inside = set(comp)
        for (a, _) in diag:
            for (p_, q_) in double:
                if p_ == a and (q_, q_) in inside:
                    return {"eda": True, "state": _show(g.pos[a]), "diverges_into": (_show(g.pos[q_]) + " (inner loop)", _show(g.pos[q_]) + " (outer loop)")}
    return {"eda": False, "positions": n}


def _show(pos):
    op, av = pos
    if op is C.LITERAL:
        return repr(chr(av))
    if op is C.NOT_LITERAL:
        return "[^%s]" % chr(av)
    if op is C.ANY:
        return "."
    if op is C.IN:
        parts = []
        for o2, a2 in av:
            if o2 is C.NEGATE:
                parts.append("^")
            elif o2 is C.LITERAL:
                parts.append(chr(a2))
            elif o2 is C.RANGE:
                parts.append("%s-%s" % (chr(a2[0]), chr(a2[1])))
            else:
                parts.append(str(a2).split("_")[-1].lower())
        return "[" + "".join(parts) + "]"
    return str(av)
