# -*- coding: utf-8 -*-
"""Obligations on ``ScenarioContainer.run`` (explored once as Feature, once as Rule)
and ``ScenarioOutline.run``; children of every number/order (loop fixpoint), each
child failing or not, aborting or not, with user code reading the status mid-run.

  V3  returns True <=> a child failed, one of its hooks failed or the pop raised     (C01)
  ST  after a failing child with --stop or abort no further child runs               (C01, C12)
  R4  cached status at exit cleared or set after the last child                      (C03)
  H2  hook bracket of the feature/rule; after-phase iff before-phase; failed
      before-phase suppresses the body; none in dry-run / when not selected          (C12)
  X5  one push, exactly one pop; raising pop => error status + failure               (C13)
  F3  opening and closing formatter callbacks are guarded alike                      (C15)
"""
from __future__ import annotations

from .index import EnumVal
from .values import Top
from .explore import explore_container_run, explore_outline_run
from .report import Finding

WHAT = {
    "V3": "container/outline run() returns True exactly when a child failed, one of its hooks failed or the pop raised",
    "ST": "after a failing child with --stop or an aborted run no further child is run",
    "R4": "cached status of feature/rule/outline at exit is cleared or was set after the last child finished",
    "H2": "feature/rule hook bracket well nested; after-phase iff before-phase; failed before-phase suppresses the body",
    "X5": "feature/rule scope pushed once and popped exactly once; raising pop gives error status and failure",
    "F3": "feature/rule opening (feature|rule, background) and closing (eof|rule_finished) callbacks guarded alike",
}


def _nm(v):
    return v.name if isinstance(v, EnumVal) else None


def check_container_run(chk, ix, rules, tier="quick", mutate=None, which=("Feature", "Rule", "outline")):
    for r in rules:
        chk.rule(r, WHAT[r])
    n = 0
    for cls in ("behave.model:Feature", "behave.model:Rule"):
        if cls.split(":")[1] not in which:
            continue
        ci = ix.cls(cls)
        fi = ci.lookup("run")
        fname = "%s:%s.run[as %s]" % (fi.module.name, fi.cls.name, ci.name)
        it, exits = explore_container_run(ix, cls, thorough=(tier == "thorough"), mutate=mutate)
        chk.absorb(it)
        for r in rules:
            chk.instance(r)
        for ex in exits:
            n += 1
            _one(chk, fi, fname, ex, rules)
    rules_o = rules & {"V3", "ST", "R4"}
    if rules_o and "outline" in which:
        fi = ix.func("behave.model:ScenarioOutline.run")
        it, exits = explore_outline_run(ix, thorough=(tier == "thorough"), mutate=mutate)
        chk.absorb(it)
        for r in rules_o:
            chk.instance(r)
        for ex in exits:
            n += 1
            _one(chk, fi, "behave.model:ScenarioOutline.run", ex, rules_o)
    return n


def _f(rule, fi, fname, ex, witness, text):
    return Finding(rule, fname, witness, text, file=fi.file, line=fi.lineno, stmt="def run(self, runner)",
                   path=ex.path, imprecise=bool(ex.facts.get("imprecise")))


def _one(chk, fi, fname, ex, rules):
    f = ex.facts
    outline = f["entity"] == "outline"
    if ex.kind == "raise":
        for r in rules & {"V3", "X5", "H2"}:
            chk.fail(_f(r, fi, fname, ex, "escapes=%s" % ex.val.clsname(),
                        "exception %s escapes %s (%s)" % (ex.val.clsname(), fname, ex.val)))
        return
    ret = f["ret"]
    if "V3" in rules:
        want = bool(f["child_failed"] or f.get("any_hook_failed") or f.get("pop_raised"))
        if ret is want:
            chk.ok("V3", {"element": f["entity"], "returns": ret, "child_failed": f["child_failed"],
                          "hook_failed": f.get("any_hook_failed"), "pop_raised": f.get("pop_raised")},
                   nontrivial_key=(f["entity"], ret, f["child_failed"], f.get("any_hook_failed"), f.get("pop_raised")))
        else:
            chk.fail(_f("V3", fi, fname, ex, "returns=%s child_failed=%s hook_failed=%s pop_raised=%s" % (
                ret, f["child_failed"], f.get("any_hook_failed"), f.get("pop_raised")),
                "%s returns %s although child_failed=%s, hook_failed=%s, pop_raised=%s (%s)" % (
                    fname, ret, f["child_failed"], f.get("any_hook_failed"), f.get("pop_raised"),
                    "false green" if want else "false red")))
    if "ST" in rules:
        if f["stop_err"]:
            chk.fail(_f("ST", fi, fname, ex, "child-after-stop", f["stop_err"]))
        else:
            chk.ok("ST", None, nontrivial_key=(f["entity"], f["stop"], repr(f["n_run"]), f["child_failed"]))
    if "R4" in rules:
        cl = f["cached_last"]
        if cl is None:
            chk.fail(_f("R4", fi, fname, ex, "cache-never-written",
                        "the cached status of an earlier run is never cleared"))
        elif cl[1] == "final" and f["cache_then_child"]:
            chk.fail(_f("R4", fi, fname, ex, "stale-cached-status",
                        "a final status cached while children were still running is still cached at exit: "
                        "later reads do not recompute it from the children"))
        else:
            chk.ok("R4", {"element": f["entity"], "cached_status_last_written": list(cl)},
                   nontrivial_key=(f["entity"], cl))
        if not outline and f["should_skip_entry"] is False and f["should_skip"] is True and not f["skipped_midrun"]:
            chk.fail(_f("R4", fi, fname, ex, "run-sets-should_skip",
                        "run() itself leaves the element (and its children) marked should_skip: a re-run of the "
                        "same model would not execute it whatever is selected then"))
        if not outline and isinstance(f["hook_failed"], Top):
            chk.fail(_f("R4", fi, fname, ex, "hook_failed-not-reset",
                        "hook_failed of an earlier run is kept without being re-initialised"))
    if outline:
        return
    sel = f["selected1"]
    selected = bool(sel) if not isinstance(sel, Top) else None
    dry = f["dry_run"]
    if "H2" in rules:
        err = f["hk_err"]
        if not err and f["hk"] not in ("idle", "A", "AT"):
            err = "before-phase started but the after hook was not called (bracket state %s)" % f["hk"]
        if not err and (dry or selected is False) and f["hk"] != "idle":
            err = "hooks called for a %s %s" % ("dry-run" if dry else "not-selected", f["entity"])
        if not err and dry is False and selected is True and f["hk"] == "idle":
            err = "selected %s ran without its hooks" % f["entity"]
        if err:
            chk.fail(_f("H2", fi, fname, ex, err, "hook bracket: " + err))
        else:
            chk.ok("H2", {"element": f["entity"], "bracket_state": f["hk"], "before_failed": f["before_failed"]},
                   nontrivial_key=(f["entity"], f["hk"], f["before_failed"], repr(f["n_run"]), dry, selected))
    if "X5" in rules:
        err = f["scope_err"]
        if not err and f["scope"] != "done":
            err = "context scope state at exit: %s (expected one push and one pop)" % f["scope"]
        if not err and f["pop_raised"] and (_nm(f["cached"]) != "error" or ret is not True):
            err = "raising cleanup: status %s / returns %s (expected error / True)" % (f["cached"], ret)
        if err:
            chk.fail(_f("X5", fi, fname, ex, err, err))
        else:
            chk.ok("X5", {"element": f["entity"], "pop_raised": f["pop_raised"]},
                   nontrivial_key=(f["entity"], f["pop_raised"], ret))
    if "F3" in rules:
        err = f["fmt_err"]
        if not err and len(set(f["fmt"])) != 1:
            err = "formatters disagree: %s" % f["fmt"]
        if not err and f["fmt"][0] not in ("start", "C"):
            err = "%s opened for the formatters but not closed (state %s)" % (f["entity"], f["fmt"][0])
        if not err and f["show_skipped"] is False and selected is False and f["fmt"][0] != "start":
            err = "events for a %s that is not shown" % f["entity"]
        if not err and f["fmt"][0] == "C" and f.get("background", "").startswith("background") and not f.get("bg_announced"):
            err = "the %s has a %s, the %s is shown to the formatters, but its background is not: the report lacks an element the model has" % (
                f["entity"], f["background"], f["entity"])
        if not err and f.get("bg_announced") and f.get("background") == "none":
            err = "a background is announced for a %s that has none" % f["entity"]
        if err:
            chk.fail(_f("F3", fi, fname, ex, err, "formatter protocol: " + err))
        else:
            chk.ok("F3", {"element": f["entity"], "formatter_state": f["fmt"][0]},
                   nontrivial_key=(f["entity"], f["fmt"][0], selected, f["show_skipped"]))


def check_outline_skip(chk, ix):
    """H6: skipping an outline (from a hook, or through feature.skip() / rule.skip()) reaches its row scenarios even when
    they have not been built yet: ScenarioOutline.skip() evaluated with an empty row cache and rows that the 'scenarios'
    property builds on demand."""
    from .index import AnalysisError
    from .values import HObj, State, Ref
    from .absint import Interp
    from .world import S
    chk.rule("H6", "skip() of a scenario outline skips every row scenario, built or not (their hooks and steps must not run afterwards)")
    oc = ix.cls("behave.model:ScenarioOutline")
    f = oc.lookup("skip")
    for rows in (("r1", "r2"), ()):
        skipped = []
        st = State()
        st.frames = []
        toks = [st.alloc(HObj("RowTok", {}, label=r)) for r in rows]
        rowlist = st.alloc(HObj("list", kind="list", items=toks, label="rows (built on demand)"))
        stubs = {"RowTok.skip": lambda i, s_, a, k, n: (skipped.append(s_.obj(a[0]).label), [(s_, "val", None)])[1],
                 "logging.getLogger": lambda i, s_, a, k, n: [(s_, "val", s_.alloc(HObj("LoggerTok", {})))],
                 "LoggerTok.warning": lambda i, s_, a, k, n: [(s_, "val", None)],
                 "ScenarioOutline.compute_status": lambda i, s_, a, k, n: [(s_, "val", S("skipped"))]}
        it = Interp(ix, stubs=stubs, attr_stubs={"ScenarioOutline.scenarios": lambda i, s_, b, n: [(s_, "val", rowlist)]}, name="ScenarioOutline.skip")
        me = st.alloc(HObj(oc, {"name": "o", "should_skip": False, "_cached_status": S("untested"), "hook_failed": False,
                                "_scenarios": st.alloc(HObj("list", kind="list", items=[], label="row cache (not built yet)"))}, label="outline"))
        outs = it.call_function(st, f, [], {}, None, self_val=me)
        chk.absorb(it)
        chk.instance("H6")
        outs = [o for o in outs if not (o[1] == "raise" and o[2].internal == "assert")]
        if len(outs) != 1 or outs[0][1] != "val":
            raise AnalysisError("ScenarioOutline.skip not evaluable: %r" % ([(k, v) for _, k, v in outs][:3],))
        s2 = outs[0][0]
        flag = s2.obj(me).fields.get("should_skip")
        if skipped == list(rows) and flag is True:
            chk.ok("H6", {"rows": list(rows), "row cache": "empty", "skipped": skipped, "outline.should_skip": True}, nontrivial_key=rows)
        else:
            chk.fail(Finding("H6", f.fullname, "rows %s: skipped %s" % (list(rows), skipped),
                             "ScenarioOutline.skip() with the rows %s not built yet skips %s and leaves should_skip=%r: rows built afterwards are "
                             "not skipped, so their hooks and steps run although a hook skipped the feature / rule / outline" % (list(rows), skipped, flag),
                             file=f.file, line=f.lineno, stmt="def skip"))
