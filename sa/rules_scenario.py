# -*- coding: utf-8 -*-
"""Obligations decided on the abstract exits of ``Scenario.run`` (model.py),
explored for step sequences of every length (loop fixpoint), every outcome of
every step (summary of Step.run), every hook / cleanup fault, every selection
and every flag combination.

  V2  returns True <=> a step failed, a hook of this scenario failed, or the context pop raised;
      undefined steps met while skipping are recorded                              (C01)
  S3  after the first non-passing step no further step runs; others skipped/undefined;
      dry-run and not-selected scenarios run nothing                               (C02)
  R4  cached status at exit is cleared or set after the last step; no step keeps a
      status of an earlier run (unless cut off by abort / failed before-hook)      (C03)
  G6  not-selected scenario: no hooks, no step runs, all steps skipped,
      formatter events only under show_skipped                                     (C09)
  H2  hook bracket before_tag* before_scenario body after_scenario after_tag*;
      failed before-phase suppresses the body, not the after-phase; H6 none in dry-run/not selected (C12)
  X5  one _push, exactly one _pop on every non-BaseException path; raising pop => error + failed (C13)
  F2  formatter protocol per scenario; results form a prefix of the announced steps (C15)
  K3  one setup_capture and one teardown_capture per run                            (C18)
"""
from __future__ import annotations

from .index import EnumVal
from .values import Top
from .explore import explore_scenario_run
from .report import Finding

FUNC = "behave.model:Scenario.run"

WHAT = {
    "V2": "Scenario.run returns True exactly when a step failed, one of its hooks failed or the context pop raised",
    "S3": "no step function after the first non-pass; remaining steps skipped/undefined; nothing runs in dry-run or when not selected",
    "R4": "status cache cleared/refreshed after the last step; every step re-run or re-assigned",
    "G6": "not-selected scenario: no hook, no step, all steps skipped, events only under show_skipped",
    "H2": "scenario hook bracket well nested; after-phase iff before-phase; failed before-phase suppresses the body",
    "X5": "context scope pushed once and popped exactly once; raising pop gives error status and failure",
    "F2": "formatter event protocol of a scenario; results are a prefix of the announced steps",
    "K3": "one setup_capture and one teardown_capture per scenario run",
}


def _nm(v):
    return v.name if isinstance(v, EnumVal) else None


def check_scenario_run(chk, ix, rules, tier="quick", mutate=None):
    fi = ix.func(FUNC)
    for r in rules:
        chk.rule(r, WHAT[r])
        chk.instance(r)
    it, exits = explore_scenario_run(ix, thorough=(tier == "thorough"), mutate=mutate)
    chk.absorb(it)
    for ex in exits:
        _one(chk, fi, ex, rules)
    if rules & {"S3", "V2"}:
        # the documented switch Scenario.continue_after_failed_step: the remaining steps run, the result still says "failed"
        it2, exits2 = explore_scenario_run(ix, continue_after_failed=True, mutate=mutate)
        chk.absorb(it2)
        for ex in exits2:
            _one(chk, fi, ex, rules & {"V2", "X5", "K3", "H2"})
    return len(exits)


def _f(rule, fi, ex, witness, text):
    return Finding(rule, FUNC, witness, text, file=fi.file, line=fi.lineno, stmt="def run(self, runner)",
                   path=ex.path, imprecise=bool(ex.facts.get("imprecise")))


def _one(chk, fi, ex, rules):
    f = ex.facts
    if ex.kind == "raise":
        for r in rules & {"V2", "X5", "H2"}:
            chk.fail(_f(r, fi, ex, "escapes=%s" % ex.val.clsname(),
                        "exception %s escapes Scenario.run (%s)" % (ex.val.clsname(), ex.val)))
        return
    ret = f["ret"]
    selected = f["selected1"]
    selected = bool(selected) if not isinstance(selected, Top) else None
    dry = f["dry_run"]
    base_key = "dry=%s selected=%s aborted_at_entry=%s" % (dry, selected, f["aborted_at_entry"])

    if "V2" in rules:
        want = bool(f["step_failed"] or f["any_hook_failed"] or f["pop_raised"])
        if ret is want:
            chk.ok("V2", {"returns": ret, "step_failed": f["step_failed"], "hook_failed": f["any_hook_failed"],
                          "pop_raised": f["pop_raised"]},
                   nontrivial_key=(ret, f["step_failed"], f["any_hook_failed"], f["pop_raised"]))
        else:
            chk.fail(_f("V2", fi, ex, "returns=%s step_failed=%s hook_failed=%s pop_raised=%s" % (
                ret, f["step_failed"], f["any_hook_failed"], f["pop_raised"]),
                "Scenario.run returns %s although step_failed=%s, hook_failed=%s, pop_raised=%s (%s)" % (
                    ret, f["step_failed"], f["any_hook_failed"], f["pop_raised"],
                    "false green" if want else "false red")))
        if f["v2_err"]:
            chk.fail(_f("V2", fi, ex, "undefined-not-recorded", f["v2_err"]))
        if selected is False and f["undefined_added"]:
            chk.fail(_f("V2", fi, ex, "undefined-recorded-for-unselected dry=%s" % dry,
                        "a step of a NOT selected scenario is recorded as undefined: the run fails although "
                        "nothing went wrong in the selected part (false red)"))

        if selected is not False and f["undefined_added"] and dry is False and ret is False:
            chk.fail(_f("V2", fi, ex, "undefined-recorded-without-failure",
                        "a step is recorded in runner.undefined_steps (which alone makes the run fail) on a path where the "
                        "scenario itself did not fail - no step failed before it (false red, e.g. after a step skipped the "
                        "rest of its scenario)"))

    if "S3" in rules:
        if f["s3_err"]:
            chk.fail(_f("S3", fi, ex, f["s3_err"], f["s3_err"]))
        elif dry and f["n_run"] != 0:
            chk.fail(_f("S3", fi, ex, "dry-run step.run", "a step was run in dry-run mode"))
        elif selected is False and f["n_run"] != 0:
            chk.fail(_f("S3", fi, ex, "not-selected step.run", "a step of a not-selected scenario was run"))
        else:
            chk.ok("S3", {"steps_run": repr(f["n_run"]), "dry_run": dry, "selected": selected,
                          "not_run_steps_assigned": f["notrun"]},
                   nontrivial_key=(repr(f["n_run"]), dry, selected, tuple(f["notrun"]), f["step_failed"]))

    if "R4" in rules:
        cut = f["aborted_at_entry"] or f["before_failed"] or f["aborted"] is True
        if f["unassigned_step"] and not cut:
            chk.fail(_f("R4", fi, ex, "stale-step-status " + base_key,
                        "a step keeps the status of an earlier run: neither re-run nor assigned on this path"))
        else:
            chk.ok("R4", None, nontrivial_key=("steps", base_key, f["unassigned_step"]))
        cl = f["cached_last"]
        cached = f["cached"]
        if cl is None:
            chk.fail(_f("R4", fi, ex, "cache-never-written", "the cached status of an earlier run is never cleared"))
        elif cl[1] == "final" and f["cache_then_child"]:
            chk.fail(_f("R4", fi, ex, "stale-cached-status phase=%s" % cl[0],
                        "a final status cached before the last step finished (phase %s) is still cached at exit: "
                        "later reads do not recompute it from the steps" % cl[0]))
        else:
            chk.ok("R4", {"cached_status_last_written": list(cl)}, nontrivial_key=("cache", cl))
        hf = f["hook_failed"]
        cached_v = f["cached"]
        if hf is True and isinstance(cached_v, EnumVal) and cached_v.name not in ("hook_error", "untested") and not (
                f["pop_raised"] and cached_v.name == "error"):
            chk.fail(_f("R4", fi, ex, "hook failed but cached status %s" % cached_v.name,
                        "a hook of the scenario failed, yet the status cached at the end of run() is %s (a status read earlier, e.g. by the "
                        "after_scenario hook itself, was cached as final and never replaced by hook_error): the scenario is reported %s "
                        "while the run fails" % (cached_v.name, cached_v.name)))
        if isinstance(hf, Top):
            chk.fail(_f("R4", fi, ex, "hook_failed-not-reset",
                        "hook_failed of an earlier run is read/kept without being re-initialised"))

    if "G6" in rules and selected is False:
        errs = []
        if f["hk"] != "idle":
            errs.append("hooks called")
        if f["n_run"] != 0:
            errs.append("steps run")
        if not (f["aborted_at_entry"] or f["aborted"] is True) and any(n != "skipped" for n in f["notrun"]):
            errs.append("steps assigned %s instead of skipped" % [n for n in f["notrun"] if n != "skipped"])
        if f["show_skipped"] is False and any(x != "start" for x in f["fmt"]):
            errs.append("formatter events although show_skipped is off")
        if errs:
            chk.fail(_f("G6", fi, ex, "; ".join(errs), "not-selected scenario: " + "; ".join(errs)))
        else:
            chk.ok("G6", {"selected": False, "hooks": f["hk"], "steps": f["notrun"], "show_skipped": f["show_skipped"]},
                   nontrivial_key=(tuple(f["notrun"]), f["show_skipped"], f["aborted_at_entry"]))

    if "H2" in rules:
        err = f["hk_err"]
        if not err and f["hk"] not in ("idle", "A", "AT"):
            err = "before-phase started but after_scenario hook not called (bracket state %s)" % f["hk"]
        if not err and (dry or selected is False) and f["hk"] != "idle":
            err = "hooks called for a %s scenario" % ("dry-run" if dry else "not-selected")
        if not err and dry is False and selected is True and f["hk"] == "idle":
            err = "selected scenario ran without its hooks"
        if err:
            chk.fail(_f("H2", fi, ex, err, "hook bracket: " + err))
        else:
            chk.ok("H2", {"bracket_state": f["hk"], "before_failed": f["before_failed"], "steps_run": repr(f["n_run"])},
                   nontrivial_key=(f["hk"], f["before_failed"], repr(f["n_run"]), dry, selected))

    if "X5" in rules:
        err = f["scope_err"]
        if not err and f["scope"] != "done":
            err = "context scope state at exit: %s (expected one push and one pop)" % f["scope"]
        if not err and f["pop_raised"] and (_nm(f["cached"]) != "error" or ret is not True):
            err = "raising cleanup: status %s / returns %s (expected error / True)" % (f["cached"], ret)
        if err:
            chk.fail(_f("X5", fi, ex, err, err))
        else:
            chk.ok("X5", {"scope": f["scope"], "pop_raised": f["pop_raised"]}, nontrivial_key=(f["pop_raised"], ret))

    if "K3" in rules:
        err = f["scap_err"] or (None if f["scap"] == "done" else "capture life cycle state at exit: %s" % f["scap"])
        if err:
            chk.fail(_f("K3", fi, ex, err, "per-scenario capture setup/teardown: " + err))
        else:
            chk.ok("K3", None, nontrivial_key=(f["scap"], dry, selected))

    if "F2" in rules:
        err = f["fmt_err"] or f["f2_err"]
        if not err and len(set(f["fmt"])) != 1:
            err = "formatters disagree: %s" % f["fmt"]
        if not err and f["fmt"][0] == "m":
            err = "match without result at scenario end"
        shown = (selected is True and f["selected2"] is not False) or f["show_skipped"]
        if not err and f["show_skipped"] is False and selected is False and f["fmt"][0] != "start":
            err = "events for a scenario that is not shown"
        if err:
            chk.fail(_f("F2", fi, ex, err, "formatter protocol: " + err))
        else:
            chk.ok("F2", {"formatter_state": f["fmt"][0], "gap_seen": f["gap"]},
                   nontrivial_key=(f["fmt"][0], f["gap"], dry, selected, f["show_skipped"]))
